"""Minimal JSONField: JSON text stored in a Text column (what the real package
does with enforce_string=True)."""
import json
import sqlalchemy as sa
from sqlalchemy.types import TypeDecorator


class JSONField(TypeDecorator):
    impl = sa.Text
    cache_ok = True

    def __init__(self, enforce_string=False, enforce_unicode=False, json=None, json_type=None):
        super().__init__()
        self._enforce_unicode = enforce_unicode

    def process_bind_param(self, value, dialect):
        if value is None:
            return None
        return json.dumps(value, ensure_ascii=not self._enforce_unicode)

    def process_result_value(self, value, dialect):
        if value is None:
            return None
        if isinstance(value, (str, bytes)):
            return json.loads(value)
        return value
