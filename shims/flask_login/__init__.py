"""Minimal flask_login: the session key `_user_id` names the logged-in user; the
application's `user_loader` turns it into a user object; `current_user` is a
proxy that falls back to the application's anonymous user class."""
from flask import g, has_request_context, session
from werkzeug.local import LocalProxy


class AnonymousUserMixin:
    @property
    def is_authenticated(self):
        return False

    @property
    def is_active(self):
        return False

    @property
    def is_anonymous(self):
        return True

    def get_id(self):
        return None


class UserMixin:
    @property
    def is_active(self):
        return True

    @property
    def is_authenticated(self):
        return self.is_active

    @property
    def is_anonymous(self):
        return False

    def get_id(self):
        return str(self.id)


class LoginManager:
    def __init__(self, app=None):
        self.anonymous_user = AnonymousUserMixin
        self._user_callback = None
        if app is not None:
            self.init_app(app)

    def init_app(self, app):
        app.login_manager = self
        # real Flask-Login makes `current_user` available to every template
        app.context_processor(lambda: {"current_user": current_user})

    def user_loader(self, callback):
        self._user_callback = callback
        return callback

    def _load_user(self):
        user = None
        uid = session.get("_user_id")
        if uid is not None and self._user_callback is not None:
            user = self._user_callback(uid)
        if user is None:
            user = self.anonymous_user()
        g._login_user = user
        return user


def _get_user():
    if not has_request_context():
        return None
    if "_login_user" not in g:
        from flask import current_app
        current_app.login_manager._load_user()
    return g._login_user


current_user = LocalProxy(_get_user)


def login_user(user, remember=False, duration=None, force=False, fresh=True):
    if not force and not user.is_active:
        return False
    session["_user_id"] = user.get_id()
    session["_fresh"] = fresh
    g._login_user = user
    return True


def logout_user():
    session.pop("_user_id", None)
    session.pop("_fresh", None)
    from flask import current_app
    g._login_user = current_app.login_manager.anonymous_user()
    return True


def login_required(func):
    from functools import wraps

    @wraps(func)
    def wrapper(*a, **kw):
        if not current_user.is_authenticated:
            from flask import abort
            abort(401)
        return func(*a, **kw)
    return wrapper
