def load_dotenv(*args, **kwargs):
    return False
