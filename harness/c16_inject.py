"""C16 channel `inject_seq`: request sequences through the real application with one
cookie jar per sequence; the sequence of statuses against the Lean counter state machine
(`c16inj`), and `calculate_injected_error_segments` against `c16segs`.

A *case* is JSON:
  {"kind": "media"|"manifest", "failures": int|None,
   "verr"/"aerr"/"terr"/"merr": [[code, ["n", int] | ["t", secs]], …],
   "reqs": [{"u": "v"|"a"|"t"|"m", "seg": int|None, "bare": bool, "now": iso (manifest), …}],
   manifest cases also: "start": iso, "mup": int}

Oracle (the property text, independent of the model):
  (a) a response with status ≥ 500 – or any response whose body is the synthetic one – is
      only given to a request that carries the option for its own media type and whose
      segment number / update count / time is one of the addressed positions, with the
      addressed code;
  (b) with a single addressed position, `code ≥ 500` and `failures = N ≥ 0`, the requests
      for that position are answered: N synthetic failures, one real answer, and again.
"""
from __future__ import annotations

import contextlib
import datetime

import appboot
import c16_http

STREAM = "bbb"
TRACKS = {"v": ("bbb_v7", "m4v"), "a": ("bbb_a1", "m4a"), "t": ("bbb_t1", "m4s")}
# the same options sent to another stream in between (harness/CHECKLIST.md section 1): the counters live in the
# session, keyed by media type and code - video and audio requests may go to `tears` (no text track there)
OTHER = {"v": ("tears", "tears_v1", "m4v"), "a": ("tears", "tears_a1", "m4a")}
CODES = [404, 410, 503, 504, 500, 599, 499, 400]
PARAM = {"v": "verr", "a": "aerr", "t": "terr", "m": "merr"}


def fmt_errs(errs) -> str:
    out = []
    for code, (k, v) in errs:
        if k == "n":
            out.append(f"{code}={v}")
        else:
            out.append(f"{code}={v // 3600:02d}:{v // 60 % 60:02d}:{v % 60:02d}Z")
    return ",".join(out)


def drv_errs(errs) -> str:
    if not errs:
        return "-"
    return ";".join(f"{code}={'n' if k == 'n' else 't'}{v}" for code, (k, v) in errs)


def gen_media_case(rng, nseg: dict) -> dict:
    """VOD media requests (every segment number 1..n exists, so a request that is not
    answered synthetically is a 200)"""
    single = rng.random() < .55
    case = {"kind": "media", "verr": [], "aerr": [], "terr": [], "merr": []}
    case["failures"] = rng.choice([None, 0, 1, 1, 2, 2, 3, 5, -1])
    us = ["v"] if single else rng.sample(["v", "a", "t"], rng.choice([1, 2, 3]))
    addressed = {}
    for u in us:
        n_items = 1 if single else rng.choice([1, 1, 2, 3])
        for _ in range(n_items):
            code = rng.choice(CODES)
            if rng.random() < .85:
                pos = ["n", rng.randrange(1, nseg[u] + 1)]
            else:
                pos = ["t", rng.randrange(0, 86400)]         # a time never equals a segment number
            case[PARAM[u]].append([code, pos])
            if pos[0] == "n":
                addressed.setdefault(u, []).append(pos[1])
    reqs = []
    for _ in range(rng.randrange(4, 18)):
        u = rng.choice(us + us + ["v", "a", "t"])
        k = rng.random()
        if k < .6 and addressed.get(u):
            seg = rng.choice(addressed[u])
        elif k < .9:
            seg = rng.randrange(1, nseg[u] + 1)
        else:
            seg = None                                       # $Time$ addressing
        reqs.append({"u": u, "seg": seg, "bare": rng.random() < .12})
    # every third case: some requests go to the other stream (segment numbers 1..nseg exist there too)
    if rng.random() < .34:
        for r in reqs:
            if r["u"] in OTHER and rng.random() < .4:
                r["s"] = OTHER[r["u"]][0]
    case["reqs"] = reqs
    case["single"] = single
    return case


def gen_manifest_case(rng) -> dict:
    case = {"kind": "manifest", "verr": [], "aerr": [], "terr": [], "merr": []}
    case["failures"] = rng.choice([None, 0, 1, 2, 3])
    start = datetime.datetime(2024, 3, 5, rng.randrange(0, 10), rng.randrange(60), rng.randrange(60),
                              tzinfo=datetime.timezone.utc)
    case["start"] = start.strftime("%Y-%m-%dT%H:%M:%SZ")
    case["mup"] = rng.choice([1, 2, 4, 10, 30])
    by_time = rng.random() < .5
    code = rng.choice(CODES)
    base_now = start + datetime.timedelta(seconds=rng.randrange(120, 40000))
    if by_time:
        tod = (base_now.hour * 3600 + base_now.minute * 60 + base_now.second + rng.choice([0, 0, 1, 5, -3])) % 86400
        case["merr"].append([code, ["t", tod]])
        if rng.random() < .3:
            case["merr"].append([rng.choice(CODES), ["n", rng.randrange(0, 4)]])
    else:
        case["merr"].append([code, ["n", rng.randrange(0, 4)]])
        if rng.random() < .3:
            case["merr"].append([rng.choice(CODES), ["n", rng.randrange(0, 4)]])
    reqs = []
    for _ in range(rng.randrange(4, 14)):
        now = base_now + datetime.timedelta(seconds=rng.choice([-20, -2, -1, 0, 0, 1, 2, 3, 5, 11, 31, 60]),
                                            microseconds=rng.choice([0, 0, 500000, 999999]))
        upd = rng.choice([None, 0, 1, 2, 3])
        reqs.append({"u": "m", "seg": upd, "bare": rng.random() < .1,
                     "now": now.strftime("%Y-%m-%dT%H:%M:%S.%fZ")})
    # one client, one clock: time does not run backwards (a session cookie signed "in the
    # future" is discarded by itsdangerous, which would restart the counters)
    reqs.sort(key=lambda r: r["now"])
    case["reqs"] = reqs
    case["single"] = len(case["merr"]) == 1
    return case


def parse_iso(s: str) -> datetime.datetime:
    fmt = "%Y-%m-%dT%H:%M:%S.%fZ" if "." in s else "%Y-%m-%dT%H:%M:%SZ"
    return datetime.datetime.strptime(s, fmt).replace(tzinfo=datetime.timezone.utc)


def us_between(a: datetime.datetime, b: datetime.datetime) -> int:
    d = a - b
    return (d.days * 86400 + d.seconds) * 1_000_000 + d.microseconds


def request_url(case: dict, r: dict) -> str:
    q = []
    if not r["bare"]:
        for p in ("verr", "aerr", "terr", "merr"):
            if case[p]:
                q.append([p, fmt_errs(case[p])])
        if case["failures"] is not None:
            q.append(["failures", str(case["failures"])])
    if r["u"] == "m":
        q.append(["start", case["start"]])
        q.append(["mup", str(case["mup"])])
        if r["seg"] is not None:
            q.append(["update", str(r["seg"])])
        return c16_http.build_url(f"/dash/live/{STREAM}/hand_made.mpd", q)
    name, ext = TRACKS[r["u"]]
    stream = STREAM
    if r.get("s"):
        stream, name, ext = OTHER[r["u"]]
    if r["seg"] is None:
        return c16_http.build_url(f"/dash/vod/{stream}/{name}/time/0.{ext}", q)
    return c16_http.build_url(f"/dash/vod/{stream}/{name}/{r['seg']}.{ext}", q)


def run_real(app, clock, case: dict) -> list:
    """→ [(status, synthetic?)] with a fresh cookie jar"""
    c = app.client()
    out = []
    for r in case["reqs"]:
        if r["u"] == "m":
            clock.set(r["now"])
        else:
            clock.set(c16_http.NOW)
        with contextlib.redirect_stdout(c16_http._DEVNULL):
            resp = c.get(request_url(case, r))
        body = resp.get_data(as_text=True) if resp.status_code != 200 else ""
        out.append((resp.status_code, body.startswith("Synthetic ")))
        resp.close()
    return out


def driver_line(case: dict) -> str:
    f = "-" if case["failures"] is None else str(case["failures"])
    reqs = []
    for r in case["reqs"]:
        x = "x" if r["bare"] else ""
        seg = "-" if r["seg"] is None else str(r["seg"])
        if r["u"] == "m":
            start = parse_iso(case["start"])
            now = parse_iso(r["now"])
            tod = start.hour * 3600 + start.minute * 60 + start.second
            reqs.append(f"{x}m:{seg}:1:{tod}:{us_between(now, start)}:{case['mup']}")
        else:
            reqs.append(f"{x}{r['u']}:{seg}")
    return (f"c16inj {f} {drv_errs(case['verr'])} {drv_errs(case['aerr'])} {drv_errs(case['terr'])} "
            f"{drv_errs(case['merr'])} {';'.join(reqs)}")


def model_expect(line_out: str) -> list:
    return [None if t == "-" else int(t) for t in line_out.split(",")]


# ------------------------------------------------------------------ oracle

def addressed(case: dict, r: dict):
    """codes the property allows for this request: {code} for every entry of the
    request's own media type whose position the request is at"""
    if r["bare"]:
        return set()
    out = set()
    for code, (k, v) in case[PARAM[r["u"]]]:
        if r["u"] == "m":
            if k == "n":
                if r["seg"] is not None and r["seg"] == v:
                    out.add(code)
            else:
                # the manifest is addressed by a time of day: the update window that starts there
                start = parse_iso(case["start"])
                now = parse_iso(r["now"])
                tm = start.replace(hour=v // 3600, minute=v // 60 % 60, second=v % 60)
                if tm <= now <= tm + datetime.timedelta(seconds=case["mup"]):
                    out.add(code)
        else:
            if k == "n" and r["seg"] is not None and r["seg"] == v:
                out.add(code)
    return out


def oracle(case: dict, real: list) -> list:
    fails = []
    for i, (r, (status, synthetic)) in enumerate(zip(case["reqs"], real)):
        allowed = addressed(case, r)
        if synthetic and status not in allowed:
            fails.append({"req": i, "what": f"synthetic {status} for a request that is not at a position addressed "
                                            f"with that code (allowed {sorted(allowed)})"})
        elif status >= 500 and not synthetic:
            fails.append({"req": i, "what": f"status {status} that is not a requested synthetic error"})
    # (b) the counting law for a single addressed position
    key = [p for p in ("verr", "aerr", "terr", "merr") if case[p]]
    if case.get("single") and len(key) == 1 and len(case[key[0]]) == 1:
        code, (k, v) = case[key[0]][0]
        u = {"verr": "v", "aerr": "a", "terr": "t", "merr": "m"}[key[0]]
        hits = [i for i, r in enumerate(case["reqs"]) if r["u"] == u and code in addressed(case, r)]
        if len({case["reqs"][i].get("s") for i in hits}) > 1:
            hits = []       # the property does not say whether two streams share the count: left to the model comparison
        n = case["failures"]
        for j, i in enumerate(hits):
            status, synthetic = real[i]
            if code < 500 or n is None:
                want = True
            elif n < 0:
                want = False
            else:
                want = j % (n + 1) < n
            if want != (synthetic and status == code):
                fails.append({"req": i, "what": f"hit number {j} of the addressed position: expected "
                                                f"{'the synthetic ' + str(code) if want else 'the real answer'}, "
                                                f"got status {status}"})
                break
    return fails


# ------------------------------------------------------------------ calculate_injected_error_segments

class _Rep:
    def __init__(self, timescale, segment_duration):
        self.timescale = timescale
        self.segment_duration = segment_duration


def gen_segs_case(rng) -> dict:
    start = datetime.datetime(2024, 3, 5, rng.randrange(0, 24), rng.randrange(60), rng.randrange(60),
                              tzinfo=datetime.timezone.utc)
    now = start + datetime.timedelta(seconds=rng.choice([0, 1, 30, 59, 60, 61, 600, 3600, 40000, 86399, 90000]),
                                     microseconds=rng.choice([0, 0, 1, 500000]))
    ts = rng.choice([1, 25, 240, 1000, 44100, 48000, 90000, 10_000_000])
    sd = max(1, int(ts * rng.choice([0.5, 1, 1.92, 2, 3.84, 4, 6, 10])) + rng.choice([0, 0, 1, -1]))
    errs = []
    for _ in range(rng.randrange(1, 5)):
        code = rng.choice(CODES)
        if rng.random() < .3:
            errs.append([code, ["n", rng.choice([0, 1, 5, 99999, -3])]])
        else:
            tod = (start.hour * 3600 + start.minute * 60 + start.second +
                   rng.choice([0, 1, 2, 59, 60, 61, 600, 3599, 3600, 40000, -1, -60, -4000])) % 86400
            errs.append([code, ["t", tod]])
    return {"live": rng.random() < .85, "start": start.strftime("%Y-%m-%dT%H:%M:%SZ"),
            "now": now.strftime("%Y-%m-%dT%H:%M:%S.%fZ"), "depth": rng.choice([0, 1, 30, 60, 1800, 100000]),
            "ts": ts, "sd": sd, "errs": errs}


def segs_real(case: dict) -> str:
    from dashlive.server.requesthandler.manifest_context import ManifestContext
    start = parse_iso(case["start"]) if case["live"] else None
    errors = []
    for code, (k, v) in case["errs"]:
        if k == "n":
            errors.append((code, v))
        else:
            errors.append((code, datetime.time(v // 3600, v // 60 % 60, v % 60)))
    out = ManifestContext.calculate_injected_error_segments(
        errors, parse_iso(case["now"]), start, case["depth"], _Rep(case["ts"], case["sd"]))
    return out or "-"


def segs_line(case: dict) -> str:
    start = parse_iso(case["start"])
    now = parse_iso(case["now"])
    tod = start.hour * 3600 + start.minute * 60 + start.second
    return (f"c16segs {1 if case['live'] else 0} {tod} {us_between(now, start)} {case['depth']} {case['ts']} "
            f"{case['sd']} {drv_errs(case['errs'])}")
