#!/venv/bin/python
"""Translator: the manifest template registry (`dashlive.server.manifests.manifest_map`)
and the literal name sets of the option filters → `lean/DashLive/Gen/Manifests.lean` (C07).

* per template: name, features (sorted), restrictions (cgi name → allowed values; a `set`/`tuple`
  of strings, or – as `manifest_vod_aiv.mpd` has it – a plain `str`, which Python's `in` treats as a
  substring test), `segment_timeline`;
* `featureControlled`: the `todo` set literal of `OptionsContainer.remove_unsupported_features`;
* `liveOnly` / `drmUnused`: the name sets of `OptionsContainer.remove_unused_parameters`
  (read from the source with `ast`; an unrecognised shape aborts the run);
* the limits and name lists `RequestHandlerBase.check_option_values` uses.

`dump()` returns the same as Python data for the dynamic cross-check.
"""
from __future__ import annotations

import ast
import inspect
import os
import sys
import textwrap
from pathlib import Path

HERE = Path(__file__).resolve().parent
LEAN = HERE.parent / "lean"
OUT = LEAN / "DashLive" / "Gen" / "Manifests.lean"


class UnknownShape(Exception):
    pass


def lean_str(s: str) -> str:
    if not isinstance(s, str) or any(not (32 <= ord(c) < 127) for c in s):
        raise UnknownShape(f"registry text is not printable ASCII: {s!r}")
    return '"' + s.replace("\\", "\\\\").replace('"', '\\"') + '"'


def lean_list(items) -> str:
    return "[" + ", ".join(lean_str(i) for i in items) + "]"


def _str_set(node) -> list[str]:
    if isinstance(node, (ast.Set, ast.List, ast.Tuple)) and all(
            isinstance(e, ast.Constant) and isinstance(e.value, str) for e in node.elts):
        return sorted(e.value for e in node.elts)
    raise UnknownShape(f"expected a literal set of strings, found {ast.dump(node)[:120]}")


def _func_ast(fn) -> ast.FunctionDef:
    tree = ast.parse(textwrap.dedent(inspect.getsource(fn)))
    return tree.body[0]


def filter_name_sets() -> dict:
    from dashlive.server.options.container import OptionsContainer
    # remove_unsupported_features: `todo = {…}` then difference_update + loop
    f = _func_ast(OptionsContainer.remove_unsupported_features)
    todo = None
    for st in f.body:
        if isinstance(st, ast.Assign) and len(st.targets) == 1 and getattr(st.targets[0], "id", None) == "todo":
            todo = _str_set(st.value)
    if todo is None:
        raise UnknownShape("remove_unsupported_features: no `todo = {…}` literal")
    # remove_unused_parameters: `if mode != 'live': todo += {…}`; DRM branches
    g = _func_ast(OptionsContainer.remove_unused_parameters)
    live_only, drm_unused = None, set()
    for st in ast.walk(g):
        if isinstance(st, ast.If) and isinstance(st.test, ast.Compare) and \
                getattr(st.test.left, "id", None) == "mode" and isinstance(st.test.ops[0], ast.NotEq) and \
                getattr(st.test.comparators[0], "value", None) == "live":
            for b in st.body:
                if isinstance(b, ast.AugAssign) and getattr(b.target, "id", None) == "todo":
                    live_only = _str_set(b.value)
        if isinstance(st, ast.If) and getattr(st.test, "id", None) == "encrypted":
            for b in ast.walk(st):
                if isinstance(b, ast.AugAssign) and getattr(b.target, "id", None) == "todo":
                    drm_unused.update(_str_set(b.value))
                if isinstance(b, ast.Call) and getattr(b.func, "attr", None) == "append" and \
                        getattr(b.func.value, "id", None) == "todo":
                    if not (len(b.args) == 1 and isinstance(b.args[0], ast.Constant)
                            and isinstance(b.args[0].value, str)):
                        raise UnknownShape("remove_unused_parameters: todo.append of a non-literal")
                    drm_unused.add(b.args[0].value)
    if live_only is None or not drm_unused:
        raise UnknownShape("remove_unused_parameters: name sets not found")
    return {"feature_controlled": todo, "live_only": live_only, "drm_unused": sorted(drm_unused)}


def dump() -> dict:
    from dashlive.server.manifests import manifest_map
    from dashlive.server.events.factory import EventFactory
    from dashlive.server.requesthandler.base import RequestHandlerBase
    rows = []
    for key, m in manifest_map.items():
        restr = []
        for cgi, allowed in (m.restrictions or {}).items():
            if isinstance(allowed, str):
                restr.append((cgi, "text", allowed))
            elif isinstance(allowed, (set, frozenset, tuple, list)) and all(isinstance(a, str) for a in allowed):
                restr.append((cgi, "set", sorted(set(allowed))))
            else:
                raise UnknownShape(f"{key}: restriction {cgi!r} has an unknown shape {allowed!r}")
        rows.append({"key": key, "name": m.name, "features": sorted(m.features), "restrictions": restr,
                     "segment_timeline": bool(m.segment_timeline)})
    d = {"rows": rows, **filter_name_sets(),
         "max_time_span": int(RequestHandlerBase.MAX_TIME_SPAN),
         "max_depth": int(RequestHandlerBase.MAX_TIME_SHIFT_BUFFER_DEPTH),
         "max_event_count": int(RequestHandlerBase.MAX_EVENT_COUNT),
         "event_types": list(EventFactory.EVENT_TYPES.keys())}
    return d


def render(d: dict) -> str:
    out = ["import DashLive.Model.Options",
           "/-! GENERATED by harness/gen_manifests.py from `dashlive.server.manifests.manifest_map` and the",
           "source of the option filters – do not edit. -/",
           "namespace DashLive.Gen.Manifests",
           "open DashLive.Options",
           "",
           "def manifests : List ManifestRow := ["]
    lines = []
    for r in d["rows"]:
        rs = []
        for cgi, kind, val in r["restrictions"]:
            rs.append(f"({lean_str(cgi)}, " + (f".text {lean_str(val)}" if kind == "text" else f".set {lean_list(val)}") + ")")
        lines.append(
            f"  {{ key := {lean_str(r['key'])}, name := {lean_str(r['name'])}, features := {lean_list(r['features'])},\n"
            f"    restrictions := [{', '.join(rs)}], segmentTimeline := {'true' if r['segment_timeline'] else 'false'} }}")
    out.append(",\n".join(lines))
    out.append("]")
    out.append("")
    out.append("/-- the `todo` set of `OptionsContainer.remove_unsupported_features` -/")
    out.append(f"def featureControlled : List String := {lean_list(d['feature_controlled'])}")
    out.append("/-- fields `remove_unused_parameters` removes when `mode != 'live'` -/")
    out.append(f"def liveOnly : List String := {lean_list(d['live_only'])}")
    out.append("/-- names `remove_unused_parameters` passes to `remove_field` in its DRM branches -/")
    out.append(f"def drmUnused : List String := {lean_list(d['drm_unused'])}")
    out.append("/-- `RequestHandlerBase.MAX_TIME_SPAN`, `MAX_TIME_SHIFT_BUFFER_DEPTH`, `MAX_EVENT_COUNT`, `EventFactory.EVENT_TYPES` -/")
    out.append(f"def maxTimeSpan : Nat := {d['max_time_span']}")
    out.append(f"def maxDepth : Nat := {d['max_depth']}")
    out.append(f"def maxEventCount : Nat := {d['max_event_count']}")
    out.append(f"def eventTypes : List String := {lean_list(d['event_types'])}")
    out.append("")
    out.append("/-- the constants of the filters as one record -/")
    out.append("def filters : FilterConsts :=")
    out.append("  { featureControlled := featureControlled, liveOnly := liveOnly, drmUnused := drmUnused,")
    out.append("    maxTimeSpan := maxTimeSpan, maxDepth := maxDepth, maxEventCount := maxEventCount,")
    out.append("    eventTypes := eventTypes }")
    out.append("")
    out.append("end DashLive.Gen.Manifests")
    return "\n".join(out) + "\n"


def main() -> None:
    src = render(dump())
    OUT.parent.mkdir(parents=True, exist_ok=True)
    if not OUT.exists() or OUT.read_text() != src:
        OUT.write_text(src)


if __name__ == "__main__":
    sys.dont_write_bytecode = True
    for p in (str(HERE.parent / "shims"), os.environ.get("DASHLIVE_REPO", "/repo"), str(HERE)):
        if p not in sys.path:
            sys.path.insert(0, p)
    main()
    print(OUT)
