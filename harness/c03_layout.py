"""C03 correspondence glue: the layout of a *stored* segment as the Lean model
`DashLive.SegmentRewrite` wants it (one `segrewrite` driver line) and the same
observables read back from the *served* bytes.  Both are read with mp4walk only.

A stored segment is "in the model's domain" when it has the shape
`pre* moof{pre* traf{…} post*} mdat post*` with the mdat directly after the moof
and every typed traf child (tfhd, tfdt, trun, saio, senc) stored with exactly the
size its fields imply (what dashlive writes when it re-encodes the box).  Others
are reported as `OutOfModel` (counted, never silently dropped).
"""
from __future__ import annotations

import re
from typing import Optional

import mp4walk


class OutOfModel(Exception):
    pass


def tname(b: mp4walk.Box) -> str:
    if b.type == "uuid":
        return "uuid"
    return re.sub(r"[^A-Za-z0-9]", "_", b.type)


def _opqs(boxes) -> str:
    return ",".join(f"{tname(b)}:{b.size}" for b in boxes) or "-"


def _dots(xs) -> str:
    return ".".join(str(x) for x in xs) or "-"


def _pop(x: int) -> int:
    return bin(x).count("1")


def stored_layout(stored: bytes, iv_size: Optional[int], trex: Optional[dict]) -> dict:
    """typed layout of the stored segment (positions relative to its first byte)"""
    boxes = mp4walk.walk(stored, iv_size=iv_size)
    idx = [i for i, b in enumerate(boxes) if b.type == "moof"]
    if len(idx) != 1:
        raise OutOfModel(f"{len(idx)} moof boxes")
    i = idx[0]
    if i + 1 >= len(boxes) or boxes[i + 1].type != "mdat":
        raise OutOfModel("mdat does not directly follow the moof")
    if sum(1 for b in boxes if b.type == "mdat") != 1:
        raise OutOfModel("more than one mdat")
    moof, mdat = boxes[i], boxes[i + 1]
    if moof.header_size != 8:
        raise OutOfModel("moof with a 64-bit size")
    tix = [j for j, b in enumerate(moof.children) if b.type == "traf"]
    if len(tix) != 1:
        raise OutOfModel(f"{len(tix)} traf boxes")
    j = tix[0]
    traf = moof.children[j]
    r = mp4walk.resolve_trun(traf, trex)
    # (stored trafs with several senc/PIFF boxes in front of their saiz used to be re-ordered by the
    # parser's deferred re-insertion; fixed in /repo c811f80 by C04, so they are inside the model)
    items = []
    for c in traf.children:
        f = c.fields
        if c.type == "tfhd":
            bp = f["flags"] & 1
            nopt = _pop(f["flags"] & 0x3a)
            if c.size != 16 + 8 * bp + 4 * nopt:
                raise OutOfModel("tfhd size is not canonical")
            items.append(f"tfhd:{bp}:{nopt}")
        elif c.type == "tfdt":
            if c.size != (20 if f["version"] == 1 else 16):
                raise OutOfModel("tfdt size is not canonical")
            items.append(f"tfdt:{f['version']}:{f['base_media_decode_time']}")
        elif c.type == "trun":
            fl = f["flags"]
            sizes = r[id(c)]["sizes"]
            if sizes is None:
                raise OutOfModel("sample sizes not resolvable")
            per = _pop(fl & 0xf00)
            dop, fsf = fl & 1, (fl >> 2) & 1
            if fl & ~0xf05:
                raise OutOfModel("trun flags outside the modelled set")
            if c.size != 16 + 4 * dop + 4 * fsf + 4 * per * len(sizes):
                raise OutOfModel("trun size is not canonical")
            items.append(f"trun:{dop}:{fsf}:{per}:{f['data_offset'] or 0}:{_dots(sizes)}")
        elif c.type == "saio":
            aux = f["flags"] & 1
            if c.size != 16 + 8 * aux + (4 if f["version"] == 0 else 8) * len(f["offsets"]):
                raise OutOfModel("saio size is not canonical")
            items.append(f"saio:{f['version']}:{aux}:{_dots(f['offsets'])}")
        elif c.type == "senc":
            if f.get("samples") is None:
                raise OutOfModel("senc entries not parseable")
            es = [s["size"] for s in f["samples"]]
            ovr = f["flags"] & 1
            if c.size != 16 + 20 * ovr + sum(es):
                raise OutOfModel("senc size is not canonical")
            items.append(f"senc:{ovr}:{_dots(es)}")
        else:
            items.append(f"o:{tname(c)}:{c.size}")
    return {
        "pre": boxes[:i], "post": boxes[i + 2:], "moof": moof, "mdat": mdat, "traf": traf,
        "tokens": [_opqs(boxes[:i]), _opqs(moof.children[:j]), ",".join(items) or "-",
                   _opqs(moof.children[j + 1:]), str(mdat.header_size),
                   str(mdat.size - mdat.header_size), _opqs(boxes[i + 2:])],
        "has_senc": any(c.type == "senc" for c in traf.children),
        "has_tfdt": any(c.type == "tfdt" for c in traf.children),
        "has_sidx": any(b.type == "sidx" for b in boxes),
    }


def served_view(served: bytes, iv_size: Optional[int]) -> dict:
    """observables of the served segment, in the driver's answer format"""
    boxes = mp4walk.walk(served, iv_size=iv_size)
    v: dict = {"boxes": boxes}
    placed = lambda bs: ",".join(f"{tname(b)}:{b.start}:{b.size}" for b in bs) or "-"
    v["top"] = placed(boxes)
    moofs = [b for b in boxes if b.type == "moof"]
    mdats = [b for b in boxes if b.type == "mdat"]
    if len(moofs) != 1 or len(mdats) != 1:
        v["error"] = f"{len(moofs)} moof / {len(mdats)} mdat"
        return v
    moof, mdat = moofs[0], mdats[0]
    trafs = [c for c in moof.children if c.type == "traf"]
    if len(trafs) != 1:
        v["error"] = f"{len(trafs)} traf"
        return v
    traf = trafs[0]
    tfhd = mp4walk.find(traf, "tfhd")
    trun = mp4walk.find(traf, "trun")
    tfdt = mp4walk.find(traf, "tfdt")
    saio = mp4walk.find(traf, "saio")
    if tfhd is None or trun is None:
        v["error"] = "no tfhd/trun"
        return v
    base = tfhd["base_data_offset"] if tfhd["base_data_offset"] is not None else moof.start
    v.update({
        "moof": f"{moof.start}:{moof.size}", "mk": placed(moof.children),
        "traf": f"{traf.start}:{traf.size}", "tk": placed(traf.children),
        "base": str(base),
        "doff": "none" if trun["data_offset"] is None else str(trun["data_offset"]),
        "saio": "none" if saio is None else _dots(saio["offsets"]),
        "tfdtv": "none" if tfdt is None else str(tfdt["version"]),
        "pstart": str(mdat.payload_start), "plen": str(mdat.size - mdat.header_size),
        "total": str(len(served)),
        "tfdt_time": None if tfdt is None else tfdt["base_media_decode_time"],
        "pre": boxes[:boxes.index(moof)],
    })
    return v


COMPARED = ("top", "moof", "mk", "traf", "tk", "base", "doff", "saio", "tfdtv", "pstart", "plen", "total")


def parse_answer(line: str) -> dict:
    out = {}
    for part in line.split(";"):
        k, _, val = part.partition("=")
        out[k] = val
    return out


def new_emsg_sizes(layout: dict, view: dict) -> Optional[list[int]]:
    """sizes of the emsg boxes the server put in front of the moof (input of the
    model: their content is C14's business).  None when the boxes in front of the
    served moof are not `stored pre without its first sidx` + emsg*."""
    pre = list(layout["pre"])
    for n, b in enumerate(pre):
        if b.type == "sidx":
            del pre[n]
            break
    got = view["pre"]
    if len(got) < len(pre):
        return None
    for a, b in zip(pre, got):
        if (a.type, a.size) != (b.type, b.size):
            return None
    extra = got[len(pre):]
    if any(b.type != "emsg" for b in extra):
        return None
    return [b.size for b in extra]
