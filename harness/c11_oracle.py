"""Independent re-implementations used by the C11 (and C10) Layer-C oracles.

Nothing here imports `dashlive`: Microsoft's key-seed algorithm is re-written from
https://docs.microsoft.com/en-us/playready/specifications/playready-key-seed with
hashlib, the GUID byte order comes from `uuid.UUID.bytes_le` (RFC 4122), the
checksum from pycryptodome's AES-ECB, the PlayReady Object is parsed by hand from
the "PlayReady Header Specification" (PRO = u32 length, u16 record count, then
records of u16 type, u16 length, value), the WRMHEADER by lxml.
"""
from __future__ import annotations

import base64
import hashlib
import struct
import uuid

from Crypto.Cipher import AES
from lxml import etree

WRM_NS = "http://schemas.microsoft.com/DRM/2007/03/PlayReadyHeader"
PLAYREADY_SYSTEM_ID = uuid.UUID("9a04f079-9840-4286-ab92-e65be0885f95").bytes
PLAYREADY_SYSTEM_ID_V10 = "79f0049a-4098-8642-ab92-e65be0885f95"
CLEARKEY_PSSH_SYSTEM_ID = uuid.UUID("1077efec-c0b2-4d02-ace3-3c1e52e2fb4b").bytes
CLEARKEY_MPD_SCHEME = "urn:uuid:e2719d58-a985-b3c9-781a-b030af78d30e"
MARLIN_SCHEME = "urn:uuid:5e629af5-38da-4063-8977-97ffbd9902d4"
MP4PROTECTION = "urn:mpeg:dash:mp4protection:2011"


def bytes_le(kid: bytes) -> bytes:
    """RFC 4122 little-endian field order of a 16-byte big-endian GUID"""
    return uuid.UUID(bytes=bytes(kid)).bytes_le


def ms_keyseed(kid: bytes, seed: bytes) -> bytes:
    """Microsoft's published content-key derivation (C# sample `GeneratePlayReadyContentKey`)"""
    if len(seed) < 30:
        raise ValueError("seed")
    truncated = bytes(seed[:30])
    kid_bytes = bytes_le(kid)          # Guid.ToByteArray() is the little-endian form
    sha_a = hashlib.sha256(truncated + kid_bytes).digest()
    sha_b = hashlib.sha256(truncated + kid_bytes + truncated).digest()
    sha_c = hashlib.sha256(truncated + kid_bytes + truncated + kid_bytes).digest()
    return bytes(sha_a[i] ^ sha_a[i + 16] ^ sha_b[i] ^ sha_b[i + 16] ^ sha_c[i] ^ sha_c[i + 16]
                 for i in range(16))


def checksum(key: bytes, kid: bytes) -> bytes:
    """PlayReady Header spec: first 8 bytes of AES-ECB(key, KID as little-endian GUID)"""
    return AES.new(bytes(key), AES.MODE_ECB).encrypt(bytes_le(kid))[:8]


class ProError(ValueError):
    pass


def parse_pro(pro: bytes) -> list[tuple[int, int, bytes]]:
    """strict PlayReady Object reader: the length field must equal the object length and
    the records must tile it exactly"""
    if len(pro) < 6:
        raise ProError("shorter than the 6 byte header")
    length, count = struct.unpack_from("<IH", pro, 0)
    if length != len(pro):
        raise ProError(f"length field {length} != object length {len(pro)}")
    pos = 6
    out = []
    for _ in range(count):
        if pos + 4 > len(pro):
            raise ProError("record header past the end")
        rtype, rlen = struct.unpack_from("<HH", pro, pos)
        pos += 4
        if pos + rlen > len(pro):
            raise ProError("record value past the end")
        out.append((rtype, rlen, pro[pos:pos + rlen]))
        pos += rlen
    if pos != len(pro):
        raise ProError(f"{len(pro) - pos} bytes after the last record")
    return out


def read_wrmheader(payload: bytes) -> dict:
    """decode the type-1 record value (UTF-16LE, no BOM) and read the WRMHEADER with lxml"""
    if payload[:2] in (b"\xff\xfe", b"\xfe\xff"):
        raise ProError("WRMHEADER starts with a byte order mark")
    if len(payload) % 2:
        raise ProError("odd number of bytes in a UTF-16 payload")
    text = payload.decode("utf-16-le")           # strict: raises on unpaired surrogates
    root = etree.fromstring(text.encode("utf-8"))
    q = lambda n: f"{{{WRM_NS}}}{n}"
    if root.tag != q("WRMHEADER"):
        raise ProError(f"root element {root.tag}")
    version = root.get("version")
    data = root.find(q("DATA"))
    if data is None:
        raise ProError("no DATA element")
    kids = []
    info = data.find(q("PROTECTINFO"))
    if version == "4.0.0.0":
        kid_el = data.find(q("KID"))
        cs = data.find(q("CHECKSUM"))
        algid = info.find(q("ALGID")).text if info is not None and info.find(q("ALGID")) is not None else None
        keylen = info.find(q("KEYLEN")).text if info is not None and info.find(q("KEYLEN")) is not None else None
        kids.append(dict(value=base64.b64decode(kid_el.text, validate=True),
                         checksum=base64.b64decode(cs.text, validate=True) if cs is not None else None,
                         algid=algid, keylen=keylen))
    else:
        if info is None:
            raise ProError("no PROTECTINFO")
        holder = info if version == "4.1.0.0" else info.find(q("KIDS"))
        if holder is None:
            raise ProError("no KIDS element")
        for k in holder.findall(q("KID")):
            cs = k.get("CHECKSUM")
            kids.append(dict(value=base64.b64decode(k.get("VALUE"), validate=True),
                             checksum=base64.b64decode(cs, validate=True) if cs is not None else None,
                             algid=k.get("ALGID"), keylen=None))
    la = data.find(q("LA_URL"))
    custom = data.find(q("CUSTOMATTRIBUTES"))
    return dict(version=version, kids=kids, la_url=(la.text or "") if la is not None else None,
                text=text, custom=[(c.tag, c.text, dict(c.attrib)) for c in custom] if custom is not None else None)


def b64url(b: bytes) -> str:
    return base64.urlsafe_b64encode(bytes(b)).decode("ascii").rstrip("=")


B64URL_ALPHABET = set("ABCDEFGHIJKLMNOPQRSTUVWXYZabcdefghijklmnopqrstuvwxyz0123456789-_")


def strict_b64url_decode(s) -> bytes | None:
    """RFC 4648 §5 without padding; None when `s` is not such a string (malformed id).
    Trailing bits are ignored (as every common decoder does)."""
    if not isinstance(s, str) or any(c not in B64URL_ALPHABET for c in s) or len(s) % 4 == 1:
        return None
    return base64.urlsafe_b64decode(s + "=" * (-len(s) % 4))


def liberal_b64url_decode(s) -> bytes | None:
    """what the most forgiving decoder could make of `s`: characters outside both base64
    alphabets (and `=`) dropped"""
    if not isinstance(s, str):
        return None
    t = "".join(c for c in s.replace("+", "-").replace("/", "_") if c in B64URL_ALPHABET)
    t = t[:len(t) - 1] if len(t) % 4 == 1 else t
    try:
        return base64.urlsafe_b64decode(t + "=" * (-len(t) % 4))
    except Exception:
        return None


def cfgs_for(kids_keys: list[tuple[bytes, bytes, bool]], security_level: int = 150) -> str:
    """the `cfg` argument of Microsoft's test licence server
    (https://testweb.playready.microsoft.com/Server/ServiceQueryStringSyntax):
    one `(kid:<b64 LE guid>,persist:false,sl:<n>[,contentkey:<b64>])` group per key, the
    content key being needed only when it is not derived from the test key seed"""
    out = []
    for kid, key, computed in kids_keys:
        parts = ["kid:" + base64.b64encode(bytes_le(kid)).decode(), "persist:false", f"sl:{security_level}"]
        if not computed:
            parts.append("contentkey:" + base64.b64encode(key).decode())
        out.append("(" + ",".join(parts) + ")")
    return ",".join(out)
