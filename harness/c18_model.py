"""c18_model – translate what a validator session recorded (c18_run.Result) into request lines of
the Lean driver (channels of lean/DashLive/Driver/Validator.lean) and into the canonical form of
what the real validator reported, so that props/c18.py can diff the two.

Everything the model is fed is read *independently* of dashlive: media/init bytes with mp4walk,
manifests with lxml.  Only the validator's own expectations (expected sequence number / decode
time / duration / tolerance of each MediaSegment before the pass) and its verdict (errors) are
taken from the validator.
"""
from __future__ import annotations

import re
from typing import Optional

from lxml import etree

import mp4walk

DASH_NS = "urn:mpeg:dash:schema:mpd:2011"


def _q(tag: str) -> str:
    return f"{{{DASH_NS}}}{tag}"


def b(x) -> str:
    return "1" if x else "0"


def opt(x) -> str:
    return "-" if x is None else str(int(x))


# --------------------------------------------------------------------------- error classification

_NUM = r"-?\d+(?:\.\d+)?"


def classify_segment_errors(errors: list, seg: dict) -> list:
    """kinds (Lean `SegErr` names) of the errors a MediaSegment holds, in order.  `seg` is the
    snapshot of the segment after the pass (to tell decode-time from duration errors, which
    share the text `a !~= b`)."""
    out = []
    prefix = seg["name"] + ": "
    trun_seen = 0
    for e in errors:
        m = e["msg"]
        if m.startswith(prefix):
            m = m[len(prefix):]
        k = None
        if m.startswith("Missing segment") or m.startswith("Incorrect HTTP status code"):
            k = "status"
        elif m.startswith("HTTP Content-Type"):
            k = "contentType"
        elif m.startswith("Expected an encrypted stream") or m.startswith("Expected a clear stream"):
            k = "encryption"
        elif m.startswith("IV size is unknown"):
            k = "ivSize"
        elif re.fullmatch(r"0 should be greater than\s+1", m):
            k = "atomCount"
        elif m.startswith("MOOF box missing"):
            k = "moofMissing"
        elif m.startswith("MDAT box missing"):
            k = "mdatMissing"
        elif m.startswith("Failed to find an InbandEventStream"):
            k = "emsg"
        elif m.startswith("trun.data_offset must point inside"):
            mm = re.search(r"trun points to (-?\d+) but first sample of MDAT is at (-?\d+)\. "
                           r"trun last sample is (-?\d+)\. End of MDAT is (-?\d+)", m)
            first_bad = mm is not None and int(mm.group(1)) != int(mm.group(2))
            last_bad = mm is not None and int(mm.group(3)) > int(mm.group(4))
            if trun_seen == 0:
                k = "trunFirst" if first_bad else ("trunLast" if last_bad else "trun?")
            else:
                k = "trunLast"
            trun_seen += 1
        elif m.startswith("Failed to find MOOF box"):
            k = "noMoof"
        elif m.startswith("An encrypted stream must contain a senc box"):
            k = "sencMissing"
        elif m.startswith("saio box is required"):
            k = "saioMissing"
        elif m.startswith("saio box should only have one"):
            k = "saioCount"
        elif m.startswith("saio.offsets[0] should point"):
            k = "saioOffset"
        elif m.startswith("senc box should not be found"):
            k = "sencInClear"
        elif m.startswith("Sequence number error"):
            k = "seqNum"
        elif m.startswith("Failed to get MOOV box"):
            k = "moovMissing"
        elif m.startswith("Sample duration is missing and the init segment has no trex"):
            k = "trexMissing"
        elif m.startswith("Neither DASH timescale"):
            k = "zeroTimescale"
        elif re.fullmatch(rf"({_NUM}) !~= ({_NUM})", m):
            a, c = [float(x) for x in re.fullmatch(rf"({_NUM}) !~= ({_NUM})", m).groups()]
            if e["where"].startswith("Representation."):
                k = "chain"
            elif seg["exp_dt"] is not None and seg["dt"] is not None and (a, c) == (seg["exp_dt"], seg["dt"]) \
                    and not (seg["exp_dur"] is not None and (a, c) == (seg["exp_dur"], seg["dur"])
                             and "decodeTime" in out):
                k = "decodeTime"
            elif seg["exp_dur"] is not None and seg["dur"] is not None and (a, c) == (seg["exp_dur"], seg["dur"]):
                k = "duration"
            else:
                k = "almost?"
        elif re.fullmatch(r"\{.*\} != -?\d+", m, re.S):
            k = "ptsDuplicate"
        elif re.fullmatch(r"-?\d+ != 0", m):
            k = "ptsNegative"
        elif re.fullmatch(r"\d+ != \d+", m) and "check_saio_offset" in e["where"]:
            k = "sencCount"
        else:
            k = "other:" + m[:60]
        out.append(k)
    return out


INIT_BOX_INDEX = ["mvhd", "mvex", "trex", "minf", "dinf", "stbl", "stsd", "stts", "stsc", "stsz or stz2",
                  "stco or co64", "vmhd or smhd or hmhd or sthd or nmhd"]


def classify_init_errors(errors: list) -> list:
    out = []
    for e in errors:
        m = e["msg"]
        m = re.sub(r"^[^ :]+: (?=Failed to find MOOV data)", "", m)
        mm = re.match(r"(.+) box is missing from the MOOV box of the init segment", m)
        if m.startswith("URL of init segment is missing"):
            out.append("url")
        elif re.match(r"Failed to load init segment: \d+: ", m):
            out.append("status")
        elif m == "Failed to find moov box":
            out.append("noMoov")
        elif m.startswith("Failed to load init segment: "):
            out.append("parse")
        elif m == "Failed to load init segment":
            out.append("loadFailed")
        elif m.startswith("Expected more than one MP4 atom"):
            out.append("atomCount")
        elif re.fullmatch(r"\S+ != ftyp", m):
            out.append("ftyp")
        elif mm and mm.group(1) in INIT_BOX_INDEX:
            out.append(f"mandatory{INIT_BOX_INDEX.index(mm.group(1))}")
        else:
            out.append("other:" + m[:60])
    return out


# message → (Lean MErr name); the location class is decided by the caller from the line number
MPD_PATTERNS = [
    (r"Manifest does not have a Period element", "noPeriod"),
    (r"MPD@profiles is a mandatory attribute", "profiles"),
    (r"MPD@minBufferTime is a mandatory attribute", "minBufferTime"),
    (r"MPD@type must be (dynamic|static)", "mpdType"),
    (r"MPD@availabilityStartTime must be present for live", "availabilityStartTime"),
    (r"MPD@timeShiftBufferDepth must be present for live", "timeShiftBufferDepth"),
    (r"MPD@mediaPresentationDuration must not be present", "durationPresent"),
    (r"Invalid MPD@mediaPresentationDuration", "durationInvalid"),
    (r"If MPD@mediaPresentationDuration is not present", "durationMissing"),
    (r"MPD@minimumUpdatePeriod must not be present", "mupPresent"),
    (r"MPD@availabilityStartTime must not be present", "astPresent"),
    (r"PatchLocation elements should only be used", "patchPresent"),
    (r"id is mandatory for a live stream", "periodId"),
    (r"AdaptationSet@mimeType is a mandatory attribute", "adpMimeType"),
    (r"(\S+: )?bandwidth is a mandatory attribute", "repBandwidth"),
    (r"(\S+: )?id is a mandatory attribute", "repId"),
    (r"(\S+: )?Representation@mimeType is a mandatory attribute", "repMimeType"),
    (r"(\S+: )?SegmentTemplate@initialization is missing", "initialization"),
    (r"(\S+: )?SegmentTemplate@media is missing", "media"),
    (r"(\S+: )?MPD@availabilityStartTime is required for a live stream", "repAst"),
    (r"(\S+: )?MPD@timeShiftBufferDepth is required for a live stream", "repTsbd"),
    (r"(\S+: )?SegmentTemplate@duration is missing for a template without", "tmplDuration"),
    (r"S@d is a mandatory attribute", "sDuration"),
    (r"start attribute is missing for first entry in SegmentTimeline", "sStart"),
]


def classify_mpd_error(msg: str) -> Optional[str]:
    for pat, k in MPD_PATTERNS:
        if re.match(pat, msg):
            return k
    return None


def classify_refresh_errors(errors: list) -> list:
    out = []
    for e in errors:
        m = e["msg"]
        if m.startswith("MPD@id has changed"):
            out.append("mpdId")
        elif m.startswith("availabilityStartTime has changed"):
            out.append("availabilityStartTime")
        elif m.startswith("Manifest should have updated by now"):
            out.append("stale")
        else:
            out.append("other:" + m[:60])
    return out


# --------------------------------------------------------------------------- observations

def trex_default_duration(init_data: Optional[bytes]) -> Optional[int]:
    if not init_data:
        return None
    try:
        bx = mp4walk.find(mp4walk.walk(init_data), "moov/mvex/trex")
    except mp4walk.WalkError:
        return None
    return None if bx is None else bx.fields["default_sample_duration"]


def obs_token(status: int, data: bytes, content_type: str, rep: dict, trex_dur: Optional[int],
              iv_size: Optional[int]) -> Optional[str]:
    """`obs` token of the driver for one media response (None: the bytes cannot be read the way
    the model needs, e.g. no single trun)"""
    mime = rep.get("mime")
    ctype_ok = mime is None or content_type.startswith(mime)
    if status not in (200, 206):
        return f"{status},{b(ctype_ok)},0,0,0,1,0,0,0,0,0,0,0,0;-;-;none"
    try:
        boxes = mp4walk.walk(data, iv_size=iv_size)
    except mp4walk.WalkError:
        try:
            boxes = mp4walk.walk(data)
        except mp4walk.WalkError:
            return None
    moof = mp4walk.find(boxes, "moof")
    mdat = mp4walk.find(boxes, "mdat")
    emsg = mp4walk.find(boxes, "emsg")
    emsg_ok = True
    if emsg is not None:
        emsg_ok = (emsg.fields["scheme_id_uri"], emsg.fields["value"]) in {tuple(x) for x in rep.get("inband", [])}
    if moof is None or mdat is None:
        return (f"{status},{b(ctype_ok)},{len(boxes)},{b(moof is not None)},{b(mdat is not None)},{b(emsg_ok)},"
                f"0,0,0,0,0,0,0,0;-;-;none")
    mfhd = mp4walk.find(moof, "mfhd")
    traf = mp4walk.find(moof, "traf")
    tfhd = mp4walk.find(moof, "traf/tfhd")
    tfdt = mp4walk.find(moof, "traf/tfdt")
    truns = mp4walk.find_all(moof, "traf/trun")
    if mfhd is None or traf is None or tfhd is None or tfdt is None or len(truns) != 1:
        return None
    trun = truns[0]
    base = tfhd.fields["base_data_offset"]
    if base is None:
        base = moof.start
    if trun.fields["data_offset"] is None:
        return None
    dsize = tfhd.fields.get("default_sample_size")
    own_dur = tfhd.fields.get("default_sample_duration") or None
    samples = []
    needs_trex = False
    for s in trun.fields["samples"]:
        size = s["size"] if s["size"] is not None else dsize
        dur = s["duration"] if s["duration"] is not None else own_dur
        if dur is None:
            needs_trex = True
            dur = trex_dur if trex_dur is not None else 0
        if size is None:
            return None
        samples.append(f"{size}:{dur}:{s['cto'] or 0}")
    senc = mp4walk.find(moof, "traf/senc")
    senc_tok = "-"
    if senc is not None:
        fp = senc.fields.get("first_sample_pos")
        n = senc.fields.get("sample_count") or 0
        if fp is None:
            return None
        senc_tok = f"{senc.start}:{fp - senc.start}:{n}"
    saio = mp4walk.find(moof, "traf/saio")
    saio_tok = "none"
    if saio is not None:
        saio_tok = ",".join(map(str, saio.fields["offsets"])) or "-"
    head = [status, b(ctype_ok), len(boxes), 1, 1, b(emsg_ok), mfhd.fields["sequence_number"],
            tfdt.fields["base_media_decode_time"], base, trun.fields["data_offset"],
            mdat.start, mdat.header_size, mdat.size, b(needs_trex)]
    return ",".join(map(str, head)) + ";" + ("/".join(samples) or "-") + ";" + senc_tok + ";" + saio_tok


def ctx_token(rep: dict, opt_encrypted: bool, has_trex: bool = True) -> str:
    return ",".join([
        b(rep["content_type"] == "video"), b(opt_encrypted), b(rep["encrypted"]), b(rep["iv_size"] is not None),
        b(rep["media_ts"] is not None), str(rep["dash_ts"]), opt(rep["media_ts"]), str(rep["start_number"]),
        opt(rep["tmpl_duration"]), "0", b(has_trex)])


def exp_token(seg: dict) -> str:
    return ",".join([opt(seg["exp_seq"]), opt(seg["exp_dt"]), opt(seg["exp_dur"]), str(seg["tol"]), str(seg["pto"])])


def res_token(seg: dict) -> str:
    return ",".join([opt(seg["seq"]), opt(seg["dur"]), opt(seg["next_dt"])])


def need_token(rep: dict) -> str:
    if rep["target_us"] is None:
        return "-"
    return str(rep["target_us"] * rep["dash_ts"] // 1_000_000)


def seg_canon(seg: dict, kinds: list) -> str:
    return ",".join([opt(seg["exp_seq"]), opt(seg["exp_dt"]), b(seg["validated"]), opt(seg["seq"]),
                     opt(seg["dur"]), opt(seg["next_dt"])]) + ":" + (",".join(kinds) or "-")


# --------------------------------------------------------------------------- manifest reading

def parse_xml(lines_or_bytes):
    data = lines_or_bytes if isinstance(lines_or_bytes, (bytes, bytearray)) else "\n".join(lines_or_bytes).encode()
    return etree.fromstring(bytes(data))


def last_line(el) -> int:
    n = el.sourceline or 0
    for c in el.iter():
        if c.sourceline:
            n = max(n, c.sourceline)
    return n


def s_elems(tl) -> list:
    return [(s.get("t"), s.get("d"), s.get("r", "0")) for s in tl.findall(_q("S"))]


def _template_token(t, tl) -> str:
    tl_tok = "-"
    if tl is not None:
        tl_tok = ";".join(f"{'-' if s[0] is None else s[0]}+{'-' if s[1] is None else s[1]}+{s[2]}"
                          for s in s_elems(tl)) or ";"
    return (f"{b(t.get('media') is not None)},{b(t.get('initialization') is not None)},"
            f"{b(t.get('duration') is not None)},{tl_tok}")


def doc_token(root, live: bool) -> tuple:
    """`vmpd` request tokens of a manifest + a map token-location → (first line, kind of element)"""
    g = root.get
    ty = {"dynamic": "d", "static": "s"}.get(g("type"), "-" if g("type") is None else "s")
    dur = "-"
    if g("mediaPresentationDuration") is not None:
        import segwalk
        try:
            dur = b(segwalk.parse_duration_us(g("mediaPresentationDuration")) > 0)
        except ValueError:
            dur = "0"
    head = ",".join([b(live), b(g("profiles") is not None), b(g("minBufferTime") is not None), ty,
                     b(g("availabilityStartTime") is not None), b(g("timeShiftBufferDepth") is not None),
                     b(g("minimumUpdatePeriod") is not None), dur,
                     str(len(root.findall(_q("PatchLocation"))))])
    toks = [head]
    where = {"mpd": root.sourceline}
    for pi, p in enumerate(root.findall(_q("Period"))):
        toks.append(f"P:{b(p.get('id') is not None)},{b(p.get('duration') is not None)}")
        where[f"period:{pi}"] = p.sourceline
        for ai, a in enumerate(p.findall(_q("AdaptationSet"))):
            toks.append(f"A:{b(a.get('mimeType') is not None)}")
            where[f"adp:{pi}:{ai}"] = a.sourceline
            t = a.find(_q("SegmentTemplate"))
            if t is not None:
                tl = t.find(_q("SegmentTimeline"))
                if tl is not None:
                    where[f"timeline:{pi}:{ai}"] = tl.sourceline
                toks.append("T:" + _template_token(t, tl))
            for ri, r in enumerate(a.findall(_q("Representation"))):
                mime = r.get("mimeType") is not None or a.get("mimeType") is not None
                toks.append(f"R:{b(r.get('id') is not None)},{b(r.get('bandwidth') is not None)},{b(mime)}")
                where[f"rep:{pi}:{ai}:{ri}"] = r.sourceline
                u = r.find(_q("SegmentTemplate"))
                if u is not None:
                    utl = u.find(_q("SegmentTimeline"))
                    toks.append("U:" + _template_token(u, utl))
                    if utl is not None:
                        where[f"reptimeline:{pi}:{ai}:{ri}"] = utl.sourceline
    return toks, where


def us_of_iso(text: Optional[str]) -> Optional[int]:
    """ISO datetime as printed by datetime.isoformat() (what c18_run records) → µs since epoch"""
    if text is None:
        return None
    import datetime
    dt = datetime.datetime.fromisoformat(text)
    if dt.tzinfo is None:
        dt = dt.replace(tzinfo=datetime.timezone.utc)
    d = dt - datetime.datetime(1970, 1, 1, tzinfo=datetime.timezone.utc)
    return (d.days * 86400 + d.seconds) * 1_000_000 + d.microseconds
