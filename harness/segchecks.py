"""End-to-end segment walk shared by C01 / C02 / C06 / C09: render a manifest of the
real app at a controlled clock, take every URL exactly as a client would, fetch a
selection of the addressable segments at the same clock and read the answers with
the independent walker.  Also: the test streams (fixtures + synthetic) and the
per-track data the Lean model needs (durations, timescale, reference duration …)
read from the application's own database rows.
"""
from __future__ import annotations

import datetime
import hashlib
from dataclasses import dataclass, field
from pathlib import Path

import appboot
import mp4synth
import mp4walk
import segwalk

_STREAMS_READY = False
# stored per-stream defaults, in the JSON form the edit-stream-defaults page writes (flatten())
STREAM_DEFAULTS = {
    "syn9": {"timeShiftBufferDepth": 35, "leeway": 13, "minimumUpdatePeriod": 6,
             "availabilityStartTime": "2022-03-04T05:06:07Z"},
    "bbbd": {"drmSelection": "playready", "timeShiftBufferDepth": 50},
}


def stream_leeway_us(stream: str, global_default: int) -> int:
    """leeway (µs) in force for a request that does not name one"""
    return int(STREAM_DEFAULTS.get(stream, {}).get("leeway", global_default)) * 10 ** 6



def ensure_streams(app: appboot.App):
    """fixtures bbb, tears + synthetic streams with irregular durations and drift"""
    global _STREAMS_READY
    if _STREAMS_READY:
        return
    # syn1: irregular video (reference) + audio slightly shorter (positive drift on audio)
    v = mp4synth.make_track("video", 240, [960, 480, 1440, 960, 720, 960], samples_per_segment=4,
                            seed=11, track_id=1)
    a = mp4synth.make_track("audio", 44100, [176128, 88064, 264192, 177152, 132096, 176128],
                            samples_per_segment=[172, 86, 258, 173, 129, 172], seed=12, track_id=2,
                            sample_durations_in="trun")
    mp4synth.register(app, "syn1", "Synthetic irregular", {"syn1_v1": v, "syn1_a1": a}, timing_from="syn1_v1")
    # syn2: 90 kHz video + 48 kHz audio a little *longer* than the video (negative drift), sidx+styp
    v = mp4synth.make_track("video", 90000, [180000, 180000, 180000, 90000], samples_per_segment=5,
                            seed=21, track_id=1, with_sidx=True)
    # (the audio track has no tfdt boxes and irregular durations: the server must synthesise exact decode times)
    a = mp4synth.make_track("audio", 48000, [96256, 48128, 144384, 48128], samples_per_segment=94,
                            seed=22, track_id=2, with_tfdt=False)
    mp4synth.register(app, "syn2", "Synthetic 90k", {"syn2_v1": v, "syn2_a1": a}, timing_from="syn2_v1")
    # syn3: fragments numbered from 7 (start_number != 1), constant durations
    v = mp4synth.make_track("video", 240, [960, 960, 960, 960, 960], samples_per_segment=4,
                            seed=31, track_id=1, start_number=7)
    a = mp4synth.make_track("audio", 48000, [192512, 191488, 192512, 191488, 192000],
                            samples_per_segment=[188, 187, 188, 187, 187], seed=32, track_id=2,
                            start_number=7, sample_durations_in="trun")
    mp4synth.register(app, "syn3", "Synthetic numbered from 7", {"syn3_v1": v, "syn3_a1": a}, timing_from="syn3_v1")
    # syn4: the *audio* track is the timing reference and does not last a whole number of seconds
    # (315392/44100 = 7.151746 s) – declared presentation durations must keep the fraction; video drift -107
    v = mp4synth.make_track("video", 12800, [25600, 25600, 25600, 14848], samples_per_segment=4,
                            seed=41, track_id=1)
    a = mp4synth.make_track("audio", 44100, [88064, 88064, 88064, 51200], samples_per_segment=86,
                            seed=42, track_id=2)
    mp4synth.register(app, "syn4", "Synthetic audio reference", {"syn4_v1": v, "syn4_a1": a}, timing_from="syn4_a1")
    # syn5: fragments numbered from 0 (a legal start number that is falsy in Python) and a loop of exactly
    # 2^13 video ticks, so that loop and segment boundaries fall on 2^31, 2^32, 2^33 ticks (the points where
    # the 32-bit decode time of a stored version-0 tfdt box overflows); audio drift 0
    v = mp4synth.make_track("video", 1024, [2048, 2048, 2048, 2048], samples_per_segment=4,
                            seed=51, track_id=1, start_number=0)
    a = mp4synth.make_track("audio", 48000, [96256, 95232, 96256, 96256], samples_per_segment=[94, 93, 94, 94],
                            seed=52, track_id=2, start_number=0, sample_durations_in="trun")
    mp4synth.register(app, "syn5", "Synthetic numbered from 0, power-of-two loop", {"syn5_v1": v, "syn5_a1": a},
                      timing_from="syn5_v1")
    # syn6: both files start at decode time 8 s (first tfdt != 0, version-1 tfdt boxes)
    v = mp4synth.make_track("video", 600, [1200, 1200, 1200, 1200, 1200], samples_per_segment=4,
                            seed=61, track_id=1, first_decode_time=4800, tfdt_version=1)
    a = mp4synth.make_track("audio", 44100, [88064, 88064, 89088, 88064, 87720], samples_per_segment=[86, 86, 87, 86, 86],
                            seed=62, track_id=2, first_decode_time=352800, sample_durations_in="trun")
    mp4synth.register(app, "syn6", "Synthetic starting at 8 s", {"syn6_v1": v, "syn6_a1": a}, timing_from="syn6_v1")
    # syn7: NTSC-style video (timescale 30000, frames of 1001 ticks, 11 segments of 50 frames): the timing
    # reference lasts 550550/30000 s = 18.351666… s, not a whole number of microseconds
    v = mp4synth.make_track("video", 30000, [50050] * 11, samples_per_segment=5, seed=71, track_id=1)
    a = mp4synth.make_track("audio", 48000, [80896] * 10 + [71680], samples_per_segment=[79] * 10 + [70],
                            seed=72, track_id=2, sample_durations_in="trun")
    mp4synth.register(app, "syn7", "Synthetic NTSC", {"syn7_v1": v, "syn7_a1": a}, timing_from="syn7_v1")
    # syn8: the minimum the indexer and the live code accept – two media segments per track, of unequal length
    v = mp4synth.make_track("video", 240, [1920, 960], samples_per_segment=[8, 4], seed=81, track_id=1)
    a = mp4synth.make_track("audio", 48000, [384000, 192512], samples_per_segment=[375, 188], seed=82, track_id=2,
                            sample_durations_in="trun")
    mp4synth.register(app, "syn8", "Synthetic two segments", {"syn8_v1": v, "syn8_a1": a}, timing_from="syn8_v1")
    # syn9: a stream with *stored defaults* (Stream.defaults: depth, leeway, update period and an explicit
    # availabilityStartTime) – the manifest request and every media request must resolve them the same way
    # although the media URLs do not repeat them; one very long and one short interior segment
    # (the stored fragments are numbered with gaps – 1,4,7,10 and 1,3,5,7 – as a de-multiplexed file has them)
    v = mp4synth.make_track("video", 1000, [2000, 12000, 1000, 3000], samples_per_segment=4, seed=91, track_id=1,
                            seq_step=3)
    a = mp4synth.make_track("audio", 48000, [96256, 575488, 48128, 144384], samples_per_segment=[94, 562, 47, 141],
                            seed=92, track_id=2, sample_durations_in="trun", seq_step=2)
    mp4synth.register(app, "syn9", "Synthetic with stream defaults", {"syn9_v1": v, "syn9_a1": a}, timing_from="syn9_v1")
    # synshort / synlong: an audio track two whole segments shorter / longer than the video timing reference
    # (static manifests only: in live mode the unchanged tree already breaks on these shapes – ledger D26)
    for name_, n_a, sd_ in (("synshort", 4, 101), ("synlong", 8, 103)):
        v = mp4synth.make_track("video", 240, [960] * 6, samples_per_segment=4, seed=sd_, track_id=1)
        a = mp4synth.make_track("audio", 48000, [192512] * n_a, samples_per_segment=188, seed=sd_ + 1, track_id=2,
                                sample_durations_in="trun")
        mp4synth.register(app, name_, f"Synthetic, audio of {n_a} segments against 6",
                          {f"{name_}_v1": v, f"{name_}_a1": a}, timing_from=f"{name_}_v1")
    # syn10: sample durations given by DEFAULTS – the video track's trex default is 240 and the segments whose
    # samples last 120 / 180 ticks override it in their tfhd; the audio track uses tfhd defaults with trex 0
    v = mp4synth.make_track("video", 240, [960, 480, 960, 720, 960], samples_per_segment=4, seed=121, track_id=1,
                            sample_durations_in="trex")
    # (its audio fragments are numbered from 5 while the video fragments are numbered from 1)
    a = mp4synth.make_track("audio", 48000, [192512, 96256, 192512, 144384, 192512], samples_per_segment=[188, 94, 188, 141, 188],
                            seed=122, track_id=2, sample_durations_in="tfhd", start_number=5)
    mp4synth.register(app, "syn10", "Synthetic default sample durations", {"syn10_v1": v, "syn10_a1": a}, timing_from="syn10_v1")
    # synbig: two video segments larger than the window the segment loader's BufferedReader caches
    # (buffersize x max_buffers = 16384 x 30 bytes): 30 buckets + 5000 bytes, and 1.7 MB
    v = mp4synth.make_track("video", 240, [960] * 4, samples_per_segment=4, seed=131, track_id=1,
                            payload_bytes=[None, 30 * 16384 + 5000, None, 1_700_000])
    a = mp4synth.make_track("audio", 48000, [192512, 191488, 192512, 191488], samples_per_segment=[188, 187, 188, 187],
                            seed=132, track_id=2, sample_durations_in="trun")
    mp4synth.register(app, "synbig", "Synthetic large segments", {"synbig_v1": v, "synbig_a1": a}, timing_from="synbig_v1")
    # sy$n: a stream whose directory contains a `$` (legal, and special inside DASH URL templates, where it is
    # written `$$`; not special inside a BaseURL or any other plain URL) and whose media file names contain a hyphen
    v = mp4synth.make_track("video", 240, [960, 960, 720], samples_per_segment=4, seed=141, track_id=1)
    a = mp4synth.make_track("audio", 48000, [192512, 191488, 144384], samples_per_segment=[188, 187, 141], seed=142,
                            track_id=2, sample_durations_in="trun")
    mp4synth.register(app, "sy$n", "Synthetic, dollar in the directory", {"sydn-v1": v, "sydn-a1": a}, timing_from="sydn-v1")
    # synmut: a stream whose stored media CHANGES during a run (C06 deletes synmut_v2 between two passes over the
    # same manifest URLs: a static manifest describes the media stored NOW)
    v1 = mp4synth.make_track("video", 240, [960, 960, 960], samples_per_segment=4, seed=151, track_id=1)
    v2 = mp4synth.make_track("video", 240, [960, 960, 960], samples_per_segment=4, seed=152, track_id=1, payload_size=400)
    a = mp4synth.make_track("audio", 48000, [192512, 191488, 192000], samples_per_segment=[188, 187, 187], seed=153,
                            track_id=2, sample_durations_in="trun")
    mp4synth.register(app, "synmut", "Synthetic, media changes", {"synmut_v1": v1, "synmut_v2": v2, "synmut_a1": a},
                      timing_from="synmut_v1")
    # synfrac: an audio timing reference of 383988/48000 s = 7.99975 s – a fractional second that rounds UP to the
    # next whole second at millisecond precision (the carry of the xs:duration writer)
    v = mp4synth.make_track("video", 240, [480, 480, 480, 480], samples_per_segment=4, seed=161, track_id=1)
    a = mp4synth.make_track("audio", 48000, [96000, 96000, 96000, 95988], samples_per_segment=94, seed=162, track_id=2,
                            sample_durations_in="trun")
    mp4synth.register(app, "synfrac", "Synthetic 7.99975 s", {"synfrac_v1": v, "synfrac_a1": a}, timing_from="synfrac_a1")
    # sgodd: an AUDIO timing reference whose duration is not a multiple of its segment count (287002 ticks in 3
    # segments: segment_duration x count != duration), fragments addressed through an explicit tfhd base_data_offset
    # (video: position of the moof; audio: absolute file offsets), as older packagers write them
    v = mp4synth.make_track("video", 240, [480, 480, 480], samples_per_segment=4, seed=171, track_id=1, base="explicit")
    a = mp4synth.make_track("audio", 48000, [96000, 95000, 96002], samples_per_segment=[94, 93, 94], seed=172, track_id=2,
                            sample_durations_in="trun", base="absolute")
    mp4synth.register(app, "sgodd", "Synthetic odd audio reference", {"sgodd_v1": v, "sgodd_a1": a}, timing_from="sgodd_a1")
    # synday: a timing reference longer than a day (timescale 1, ten segments of 9600 s = 26 h 40 min) – durations
    # whose days component is not zero (static manifests only)
    v = mp4synth.make_track("video", 1, [9600] * 10, samples_per_segment=4, seed=111, track_id=1)
    a = mp4synth.make_track("audio", 100, [960000] * 10, samples_per_segment=100, seed=112, track_id=2)
    mp4synth.register(app, "synday", "Synthetic longer than a day", {"synday_v1": v, "synday_a1": a}, timing_from="synday_v1")
    # bbbd: the bbb fixture files once more (clear and encrypted twins), with a stored DRM selection and depth:
    # a manifest requested without any option lists the encrypted Representations and writes no drm= into the
    # media URLs, so the media handlers have to apply the same stored defaults
    src = appboot.FIXTURES / "bbb"
    stems = sorted(p_.stem for p_ in src.glob("bbb_*.mp4"))
    app.add_stream("bbbd", "bbb with stored DRM default", [("dflt" + st_[3:], src / f"{st_}.mp4") for st_ in stems])
    for name_ in STREAM_DEFAULTS:
        with app.ctx() as models:
            st = models.Stream.get(directory=name_)
            st.defaults = dict(STREAM_DEFAULTS[name_])
            models.db.session.commit()
    _STREAMS_READY = True


def get_app():
    app = appboot.get_app(("bbb", "tears"))
    ensure_streams(app)
    return app


@dataclass
class Track:
    stream: str
    name: str
    ts: int
    durs: list
    sd: int
    sn: int
    st: int
    R: int
    ref_ts: int
    ref_dur: int
    content_type: str
    encrypted: bool
    has_tfdt: bool
    stored_tfdt: list        # per media segment: tfdt in the stored file (or None)
    payload_sha: list        # per media segment: sha1 of the mdat payload in the stored file
    seg_pos: list            # (pos, size) of every segment incl. init at index 0
    path: str
    ref_dur_file: tuple | None = None      # (duration, timescale) of the timing-reference FILE

    def H1(self):
        return sum(self.durs[:-1]) < self.R

    def adv_positive(self):
        return all(d >= 1 for d in self.durs) and self.durs[-1] + self.R - sum(self.durs) >= 1

    def durs_arg(self):
        return ",".join(map(str, self.durs))


_TRACKS: dict = {}


def tracks(app: appboot.App, stream: str) -> dict:
    """name → Track for every media file of the stream (read from the DB rows and the
    stored files, with the independent walker)"""
    if stream in _TRACKS:
        return _TRACKS[stream]
    out = {}
    with app.ctx() as models:
        s = models.Stream.get(directory=stream)
        ref = s.timing_reference
        for mf in s.media_files:
            rep = mf.representation
            path = Path(app.blob_folder) / stream / f"{mf.name}.mp4"
            data = path.read_bytes()
            stored_tfdt, sha = [], []
            for seg in rep.segments[1:]:
                chunk = data[seg.pos:seg.pos + seg.size]
                boxes = mp4walk.walk(chunk)
                t = mp4walk.find(boxes, "moof/traf/tfdt")
                stored_tfdt.append(t.fields["base_media_decode_time"] if t is not None else None)
                md = mp4walk.find(boxes, "mdat")
                sha.append(hashlib.sha1(chunk[md.payload_start:md.end]).hexdigest())
            out[mf.name] = Track(
                stream=stream, name=mf.name, ts=rep.timescale,
                durs=[seg.duration for seg in rep.segments[1:]], sd=rep.segment_duration,
                sn=rep.start_number, st=rep.start_time,
                R=ref.media_duration * rep.timescale // ref.timescale,
                ref_ts=ref.timescale, ref_dur=ref.media_duration,
                content_type=rep.content_type, encrypted=rep.encrypted,
                has_tfdt=stored_tfdt[0] is not None, stored_tfdt=stored_tfdt, payload_sha=sha,
                seg_pos=[(seg.pos, seg.size) for seg in rep.segments], path=str(path))
        # the duration of the timing-reference media itself (sum of the durations of the file the stored
        # reference names) – the stored StreamTimingReference row is a snapshot of it
        named = out.get(getattr(ref, "media_name", None))
        for t_ in out.values():
            t_.ref_dur_file = (sum(named.durs), named.ts) if named is not None else None
    _TRACKS[stream] = out
    return out


@dataclass
class Fetch:
    manifest: str
    now: str
    now_us: int
    stream: str
    rep_id: str
    mode: str                 # 'time' | 'number' | 'init'
    value: int | None
    adv_d: int | None
    url: str
    status: int
    tfdt: int | None = None
    seqnum: int | None = None
    total_duration: int | None = None
    payload_sha: str | None = None
    walk_error: str | None = None
    listed_index: int | None = None     # index in the expanded timeline
    end_le_now: bool | None = None      # (t+d)/ts <= now - AST  (C01's condition)
    adv_sn: int | None = None           # SegmentTemplate@startNumber the manifest advertises for this Representation
    win_off_us: int | None = None       # segment start minus the start of the time-shift window (µs, as of `now`)
    fetch_now_us: int | None = None     # clock of the media request when it differs from the manifest's
    before_window: bool | None = None   # t + d/2 < now - AST - timeShiftBufferDepth (listed although its
    #                                     midpoint precedes the time-shift window as of `now`)

    def json(self):
        return {k: v for k, v in self.__dict__.items()}


def _event_schedules(manifest_url: str):
    """(timescale, interval, start, count) of every in-band event schedule the URL enables (callers pass the
    MEDIA url: a template without the event feature does not forward the option)"""
    import urllib.parse
    q = dict(urllib.parse.parse_qsl(urllib.parse.urlsplit(manifest_url).query))
    for k in [k for k in q.get("events", "").split(",") if k in ("ping", "scte35")]:
        if q.get(f"{k}__inband", "1").lower() in ("0", "false"):
            continue
        try:
            sched = (int(q.get(f"{k}__timescale", 100)), int(q.get(f"{k}__interval", 1000)),
                     int(q.get(f"{k}__start", 0)), int(q.get(f"{k}__count", 0)))
        except ValueError:
            continue
        if sched[0] >= 1 and sched[1] >= 1:
            yield sched


def max_event_id(manifest_url: str, tfdt: int, dur: int, ts: int):
    """largest id of an in-band event carried by the video segment [tfdt, tfdt+dur) (ticks of `ts`), following
    RepeatingEventBase.create_emsg_boxes: event k is at start + k*interval (event timescale) and belongs to
    the segment when floor(tfdt*ets/ts) <= time < floor((tfdt+dur)*ets/ts).  None: no event in the segment."""
    best = None
    for ets, interval, start, count in _event_schedules(manifest_url):
        a, b = tfdt * ets // ts, (tfdt + dur) * ets // ts
        first = 0 if a <= start else -((start - a) // interval)      # ceil((a - start) / interval)
        last = (b - 1 - start) // interval if b > start else -1
        if count > 0:
            last = min(last, count - 1)
        if last >= first:
            best = last if best is None else max(best, last)
    return best


def event_id_overflow(manifest_url: str, mode: str, value: int, adv_d: int, track, tfdt=None, dur=None) -> bool:
    """ledger class `event-id-beyond-32-bits` (C14's D13j seen from C01/C02): the manifest enabled in-band
    events and the *video* segment carries an event whose id (= (event time - schedule start) // interval,
    in the schedule's timescale) needs more than 32 bits – the emsg id / splice_event_id fields cannot hold
    it and the segment request is refused with 400.  With the served decode time and stored duration
    (`tfdt`, `dur`) the test is exact; from the request alone ($Number$) it is the range of ids the
    segment could carry."""
    if track.content_type != "video" or value is None:
        return False
    if tfdt is None and mode == "time":
        tfdt, dur = value, adv_d
    if tfdt is not None and dur:
        m = max_event_id(manifest_url, tfdt, dur, track.ts)
        return m is not None and m >= 2 ** 32
    end_ticks = (value - track.sn) * track.sd + 2 * (adv_d or track.sd)
    return any((end_ticks * ets // track.ts - start) // interval >= 2 ** 32
               for ets, interval, start, _ in _event_schedules(manifest_url))


def delete_media_file(app, stream: str, name: str) -> bool:
    """what the "delete media" page does (DeleteMedia.delete_model): discard a timing reference to the file,
    delete the row, commit; the cached track table of the stream is dropped"""
    with app.ctx() as models:
        mf = models.MediaFile.get(name=name)
        if mf is None:
            return False
        mf.stream.discard_timing_reference_to(mf.name)
        models.db.session.delete(mf)
        models.db.session.commit()
    _TRACKS.pop(stream, None)
    return True


def iso(dt: datetime.datetime) -> str:
    s = dt.astimezone(datetime.timezone.utc).strftime("%Y-%m-%dT%H:%M:%S")
    if dt.microsecond:
        s += f".{dt.microsecond:06d}"
    return s + "Z"


def us_since_epoch(dt: datetime.datetime) -> int:
    d = dt - datetime.datetime(1970, 1, 1, tzinfo=datetime.timezone.utc)
    return (d.days * 86400 + d.seconds) * 1_000_000 + d.microseconds


def pick(rng, items: list, k: int, must=()) -> list:
    """first 2, the entries a quarter and half way in, last 3, the `must` indices and a random sample of the rest"""
    n = len(items)
    if n <= k:
        return list(range(n))
    idx = {0, 1, n // 4, n // 2, n - 1, n - 2, n - 3} | {i for i in must if 0 <= i < n}
    while len(idx) < k:
        idx.add(rng.randrange(n))
    return sorted(idx)


def width_boundaries(times: list) -> list:
    """indices of the entries whose time is the first at or above 2^31, 2^32 or 2^33 ticks (and the entry
    before it): where a 32-bit decode time / a 33-bit PTS changes representation"""
    out = []
    for i, t in enumerate(times):
        prev = times[i - 1] if i else None
        for k in (31, 32, 33):
            if t >= 2 ** k and (prev is None or prev < 2 ** k) and i:
                out += [i - 1, i]
    return out


def walk_manifest(app, client, clock, stream: str, url: str, now: datetime.datetime, rng,
                  per_rep: int = 8, want_init: bool = True, fetch_delay_s: float = 0):
    """→ (Mpd | None, status, [Fetch]).  `fetch_delay_s`: the init and media requests are made that much later
    than the manifest request (a player does not fetch at the instant of the manifest)"""
    clock.set(now)
    r = client.get(url)
    if r.status_code != 200:
        return None, r.status_code, []
    mpd = segwalk.parse_mpd("http://localhost" + url, r.data)
    now_us = us_since_epoch(now)
    later_us = None
    if fetch_delay_s:
        later = now + datetime.timedelta(seconds=fetch_delay_s)
        clock.set(later)
        later_us = us_since_epoch(later)
    out = []
    for rep in mpd.reps:
        trex_dur = None
        if rep.init and want_init:
            u = rep.init_url()
            rs = segwalk.get(client, u)
            f = Fetch(url, iso(now), now_us, stream, rep.rep_id, "init", None, None, u, rs.status_code)
            if rs.status_code == 200:
                trex_dur = segwalk.init_trex_duration(rs.data)
            out.append(f)
        if rep.media is None:
            continue
        if rep.timeline is not None and "$Time$" in rep.media:
            rel_us = now_us - (mpd.ast_us or 0) - rep.period_start_us
            for i in pick(rng, rep.timeline, per_rep, width_boundaries([t_ for t_, _ in rep.timeline])):
                t, d = rep.timeline[i]
                u = rep.media_url(time=t)
                f = Fetch(url, iso(now), now_us, stream, rep.rep_id, "time", t, d, u, 0, listed_index=i)
                f.end_le_now = (t + d) * 1_000_000 <= rel_us * rep.timescale if mpd.type == "dynamic" else True
                if mpd.type == "dynamic" and mpd.tsbd_us is not None:
                    f.before_window = (2 * t + d) * 1_000_000 < 2 * (rel_us - mpd.tsbd_us) * rep.timescale
                    f.win_off_us = t * 1_000_000 // rep.timescale - (rel_us - mpd.tsbd_us)
                f.fetch_now_us = later_us
                _fetch(client, f, trex_dur)
                out.append(f)
        elif rep.timeline is not None and "$Number$" in rep.media:
            # SegmentTimeline with $Number$: the i-th entry has number startNumber + i
            rel_us = now_us - (mpd.ast_us or 0) - rep.period_start_us
            for i in pick(rng, rep.timeline, per_rep, width_boundaries([t_ for t_, _ in rep.timeline])):
                t, d = rep.timeline[i]
                u = rep.media_url(number=rep.start_number + i)
                f = Fetch(url, iso(now), now_us, stream, rep.rep_id, "number", rep.start_number + i, d, u, 0,
                          listed_index=i, adv_sn=rep.start_number)
                f.end_le_now = (t + d) * 1_000_000 <= rel_us * rep.timescale if mpd.type == "dynamic" else True
                if mpd.type == "dynamic" and mpd.tsbd_us is not None:
                    f.before_window = (2 * t + d) * 1_000_000 < 2 * (rel_us - mpd.tsbd_us) * rep.timescale
                    f.win_off_us = t * 1_000_000 // rep.timescale - (rel_us - mpd.tsbd_us)
                f.fetch_now_us = later_us
                _fetch(client, f, trex_dur)
                out.append(f)
        elif rep.duration and "$Number$" in rep.media:
            if mpd.type == "dynamic":
                nums = segwalk.number_window(mpd, rep, now_us)
            else:
                nums = None
            if nums is None:
                continue
            for i in pick(rng, nums, per_rep, width_boundaries([(n_ - rep.start_number) * rep.duration for n_ in nums])):
                n = nums[i]
                u = rep.media_url(number=n)
                f = Fetch(url, iso(now), now_us, stream, rep.rep_id, "number", n, rep.duration, u, 0)
                f.adv_sn = rep.start_number
                f.end_le_now = True
                if mpd.tsbd_us is not None:
                    rel_us = now_us - (mpd.ast_us or 0) - rep.period_start_us
                    f.win_off_us = (n - rep.start_number) * rep.duration * 1_000_000 // rep.timescale - (rel_us - mpd.tsbd_us)
                f.fetch_now_us = later_us
                _fetch(client, f, trex_dur)
                out.append(f)
    return mpd, 200, out


def _fetch(client, f: Fetch, trex_dur):
    rs = segwalk.get(client, f.url)
    f.status = rs.status_code
    if rs.status_code != 200:
        return
    info = segwalk.read_segment(rs.data, trex_dur)
    f.tfdt, f.seqnum, f.total_duration, f.walk_error = info.tfdt, info.seqnum, info.total_duration, info.error
    if info.boxes:
        md = mp4walk.find(info.boxes, "mdat")
        if md is not None:
            f.payload_sha = hashlib.sha1(rs.data[md.payload_start:md.end]).hexdigest()
