"""C14 channel `events_e2e`: the booted application.  Consecutive media segment
responses of the bbb video representation with `?events=ping|scte35` options in
vod and live (runs cross the 10-segment loop of the source), emsg boxes read with
the independent walker of c14_emsg; EventStream elements of manifests for the
out-of-band case.  Model = Lean `emsg` / `scte35sig` / `oob` channels fed with the
tfdt / sample durations / media timescale read from the real bytes."""
from __future__ import annotations

import datetime
import json
import re
import struct
import xml.etree.ElementTree as ET

import common
from common import Channel

import c14_emsg as E

STREAM, FILE = "bbb", "bbb_v7"
CLOCKS = ["2024-09-03T10:07:00Z", "2024-01-01T01:00:02Z", "2025-06-30T23:59:58Z", "2024-02-29T12:00:01.5Z",
          "2024-09-03T10:07:20Z",            # on a loop boundary of bbb (elapsed since Jan 1 = 532271 loops of 40 s)
          "2024-12-31T23:59:59.999999Z",     # last microsecond of a (leap) year
          "2023-03-01T00:00:00.25Z",         # Feb 28 -> Mar 1 of a non-leap year
          "2038-01-19T03:14:08Z",            # 2^31 s after the epoch
          "2100-03-01T00:00:00.499999Z"]
_STATE = {}


def app():
    if "app" not in _STATE:
        import appboot
        _STATE["app"] = appboot.get_app((STREAM,))
        _STATE["client"] = _STATE["app"].client()
    return _STATE["app"], _STATE["client"]


def media_timescale() -> int:
    """timescale of the video track, read from the init segment's mdhd with the own walker"""
    if "ts" in _STATE:
        return _STATE["ts"]
    _, c = app()
    import appboot
    with appboot.Clock(CLOCKS[0]):
        data = c.get(f"/dash/vod/{STREAM}/{FILE}/init.m4v").get_data()
    ts = None
    for t, po, pe in E.walk(data):
        if t != "moov":
            continue
        for t2, po2, pe2 in E.walk(data, po, pe):
            if t2 != "trak":
                continue
            for t3, po3, pe3 in E.walk(data, po2, pe2):
                if t3 != "mdia":
                    continue
                for t4, po4, pe4 in E.walk(data, po3, pe3):
                    if t4 == "mdhd":
                        v = data[po4]
                        ts = struct.unpack_from(">I", data, po4 + (4 + 16 if v == 1 else 4 + 8))[0]
    assert ts, "no mdhd in the init segment"
    _STATE["ts"] = ts
    return ts


def query(event: str, s: dict, extra: str = "") -> str:
    p = event
    q = (f"events={event}&{p}__start={s['start']}&{p}__interval={s['interval']}&{p}__count={s['count']}"
         f"&{p}__duration={s['duration']}&{p}__timescale={s['timescale']}&{p}__inband={1 if s['inband'] else 0}")
    if event == "ping":
        q += f"&{p}__version={s['version']}"
    else:
        q += f"&{p}__program_id={s.get('program_id', 1620)}"
    return q + extra


def live_start(clock: str) -> str:
    """availabilityStartTime the live manifest advertises at this clock (passed on as `start=`
    exactly as the manifest's media templates do)"""
    key = ("ast", clock)
    if key not in _STATE:
        import appboot
        _, c = app()
        with appboot.Clock(clock):
            txt = c.get(f"/dash/live/{STREAM}/hand_made.mpd").get_data(as_text=True)
        _STATE[key] = re.search(r'availabilityStartTime="([^"]+)"', txt).group(1)
    return _STATE[key]


def _parse_iso(s: str) -> datetime.datetime:
    s = s.replace("Z", "+00:00")
    return datetime.datetime.fromisoformat(s)


def fetch_run(case) -> dict:
    """GET the segments of the case; returns {"status": [...], "segments": [read_segment(..)]}"""
    import appboot
    _, c = app()
    extra = ""
    if case["mode"] == "live":
        extra = "&start=" + (case.get("start_param") or live_start(case["clock"]))
    q = query(case["event"], case["sched"], extra)
    if case.get("also"):
        # a second event type with its default options in the same request
        q = q.replace(f"events={case['event']}", f"events={case['event']},{case['also']}", 1)
    out = {"status": [], "segments": []}
    with appboot.Clock(case["clock"]):
        for n in case["numbers"]:
            r = c.get(f"/dash/{case['mode']}/{STREAM}/{FILE}/{n}.m4v?{q}")
            out["status"].append(r.status_code)
            out["segments"].append(E.read_segment(r.get_data()) if r.status_code == 200 else None)
    _remember(case, out)
    return out


def _signature(out):
    return [(st, None if s is None else (s["tfdt"], s["emsg"])) for st, s in zip(out["status"], out["segments"])]


def _remember(case, out):
    key = ("first", json.dumps(case, sort_keys=True))
    if key not in _STATE:
        _STATE[key] = _signature(out)


DEFAULT_SCHED = dict(start=0, interval=1000, count=0, duration=200, timescale=100, inband=True)


def split_by_scheme(case, fetched):
    """when two event types are requested: ({main event boxes per segment}, {other event's}) and the
    other event's (default) schedule"""
    main_scheme = E.PING_SCHEME if case["event"] == "ping" else E.SCTE_SCHEME
    main = [[b for b in s["emsg"] if b["scheme"] == main_scheme] for s in fetched["segments"]]
    other = [[b for b in s["emsg"] if b["scheme"] != main_scheme] for s in fetched["segments"]]
    osched = dict(DEFAULT_SCHED, version=1 if case.get("also") == "scte35" else 0)
    if case.get("also") == "scte35":
        osched["program_id"] = 1620
    return main, other, osched


def emsg_case(case, fetched) -> dict:
    """the pure `emsg` case (schedule + run read from the real bytes) of an e2e case"""
    run = [[s["tfdt"], s["trun_duration"]] for s in fetched["segments"]]
    return {"event": case["event"], "mode": case["mode"], "sched": case["sched"],
            "rep_timescale": media_timescale(), "run": run}


def oracle_case(case) -> list:
    """C14 on what the HTTP responses carried; [] = holds"""
    if case.get("kind") == "manifest":
        return manifest_oracle(case)
    if case.get("kind") == "walk":
        return walk_oracle(case, fetch_walk(case))
    if case.get("kind") == "defaults":
        return defaults_oracle(case, fetch_defaults(case))
    if case.get("kind") == "reject":
        import appboot
        _, c = app()
        try:
            with E.time_limit(20), appboot.Clock(CLOCKS[0]):
                st = c.get(case["url"]).status_code
        except E.NonTermination:
            st = "no answer within 20 s"
        return [] if st == 400 else [f"GET {case['url']} -> {st}"]
    f = fetch_run(case)
    if any(st != 200 for st in f["status"]):
        return [f"segment requests answered {f['status']}"]
    ec = emsg_case(case, f)
    main, other, osched = split_by_scheme(case, f)
    fails = E.oracle_run(ec, main)
    if case.get("also"):
        fails += E.oracle_run(dict(ec, event=case["also"], sched=osched), other)
    elif any(other):
        fails.append("boxes of an event scheme that was not requested")
    return fails


# ------------------------------------------------------------------ manifests (out-of-band)

_EVENT_RE = re.compile(r'<Event\s+duration="(-?\d+)"\s+id="(-?\d+)"\s+presentationTime="(-?\d+)"[^>]*>(.*?)</Event>', re.S)
_STREAM_RE = re.compile(r'<EventStream\b([^>]*)>(.*?)</EventStream>', re.S)


def fetch_manifest(case):
    import appboot
    _, c = app()
    with appboot.Clock(case["clock"]):
        r = c.get(f"/dash/{case['mode']}/{STREAM}/hand_made.mpd?{query(case['event'], case['sched'])}")
    return r.status_code, r.get_data(as_text=True)


def manifest_events(txt: str, scheme: str):
    """[(attrs, [(id, presentationTime, duration, payload)])] of the EventStream elements with the scheme"""
    ET.fromstring(txt)      # must be well-formed XML
    out = []
    for m in _STREAM_RE.finditer(txt):
        attrs = dict(re.findall(r'([\w:]+)="([^"]*)"', m.group(1)))
        if attrs.get("schemeIdUri") != scheme:
            continue
        evs = [(int(i), int(t), int(d), body) for d, i, t, body in _EVENT_RE.findall(m.group(2))]
        out.append((attrs, evs))
    return out


def manifest_oracle(case) -> list:
    import props.c14 as P
    st, txt = fetch_manifest(case)
    if st != 200:
        return [f"manifest request answered {st}"]
    s = case["sched"]
    scheme = E.PING_SCHEME if case["event"] == "ping" else E.SCTE_SCHEME
    streams = manifest_events(txt, scheme)
    if s["inband"]:
        return ["EventStream with events in the manifest although in-band"] if any(e for _, e in streams) else []
    if not streams:
        return ["no EventStream element for the out-of-band events"]
    fails = []
    for attrs, evs in streams:
        if attrs.get("timescale") != str(s["timescale"]):
            fails.append(f"EventStream@timescale {attrs.get('timescale')} != {s['timescale']}")
        fails += P.oob_oracle(case["event"], s, evs)
    return fails[:5]


# ------------------------------------------------------------------ media shape variety: manifest walks

# synthetic video tracks (harness/mp4synth.py, the video is its stream's timing reference: no drift).
# name -> (timescale, stored segment durations, first decode time)
WALK_TRACKS = {
    "c14w1": (240, [960, 960, 960, 192, 960, 960, 960], 0),        # short interior segment (< half nominal)
    "c14w2": (240, [960, 2400, 300, 960, 100, 960], 0),            # very long / very short interior segments
    "c14w3": (240, [960, 960, 960, 250], 0),                       # short last segment
    "c14w4": (240, [960, 400], 0),                                 # two segments
    "c14w5": (30000, [50050, 50050, 50050, 50050, 10010, 50050, 50050, 50050], 0),   # NTSC-style timescale
    "c14w6": (90000, [180000, 36000, 180000, 180000, 360000], 0),
    "c14w7": (600, [1200, 1200, 240, 1200, 1200], 0),
    "c14w8": (12800, [25600, 51200, 6400, 6400, 25600, 25600], 0),
    # regular tracks (every stored duration equal): the only shape for which `$Number$` addressing
    # (number -> n * SegmentTemplate@duration -> nearest stored segment) serves consecutive stored
    # segments for consecutive numbers; on the irregular tracks above consecutive numbers repeat or
    # skip stored segments (C02 proves only "within half a segment"), ledger D13m
    "c14w0": (600, [1200] * 5, 0),
    "c14w9": (30000, [50050] * 6, 0),
    # writer options: no tfdt boxes (the server synthesises decode times), fragments numbered from 0 / 7,
    # version-1 tfdt, media timescales 1 and 10^7
    "c14wa": (240, [960, 480, 960, 960], 0),
    "c14wb": (1024, [2048, 2048, 512, 2048], 0),
    "c14wc": (1, [4, 4, 2, 4, 4], 0),
    "c14wd": (10 ** 7, [40000000, 40000000, 8000000, 40000000], 0),
    # regular track of a stream with stored *stream defaults* for the event options
    "c14wz": (600, [1200] * 5, 0),
    # … and one whose stored defaults make the ping events OUT-OF-BAND (a URL can ask for in-band)
    "c14wy": (600, [1200] * 5, 0),
}
WALK_WRITER = {"c14wa": dict(with_tfdt=False), "c14wb": dict(start_number=0, tfdt_version=1),
               "c14wd": dict(start_number=7)}
STREAM_DEFAULTS = {"c14wy": {"eventTypes": ["ping"], "ping": {"interval": 150, "start": 40, "count": 6, "inband": False,
                                                              "timescale": 100, "duration": 33}},
                   "c14wz": {"eventTypes": ["ping"], "ping": {"interval": 150, "start": 40, "count": 0, "version": 1,
                                                              "timescale": 100, "duration": 33}}}
# (a non-zero first decode time is not used: ledger C02 D10-nonzero-first-decode-time)


def regular(name: str) -> bool:
    durs = WALK_TRACKS.get(name, (240, [960] * 10, 0))[1]
    return len(set(durs)) == 1


def ensure_walk_streams():
    if _STATE.get("walk_ready"):
        return
    import mp4synth
    a, _ = app()
    for i, (name, (ts, durs, first)) in enumerate(sorted(WALK_TRACKS.items())):
        kw = dict(first_decode_time=first, tfdt_version=1 if first else None)
        kw.update(WALK_WRITER.get(name, {}))
        v = mp4synth.make_track("video", ts, durs, samples_per_segment=4, seed=1400 + i, track_id=1, **kw)
        mp4synth.register(a, name, f"C14 walk {name}", {f"{name}_v1": v}, timing_from=f"{name}_v1")
        if name in STREAM_DEFAULTS:
            with a.ctx() as models:
                st = models.Stream.get(directory=name)
                st.defaults = STREAM_DEFAULTS[name]
                models.db.session.commit()
    _STATE["walk_ready"] = True


def walk_urls(case):
    """fetch the live manifest of the case and return (status, mpd text, rep_timescale,
    [(listed interval (t, d) or None, media URL)]) – every segment the manifest lists for the video
    Representation ($Time$: every S of the SegmentTimeline, $Number$: every number whose availability
    window contains now), minus the first and last one (window edges)"""
    import appboot
    import segwalk
    _, c = app()
    mode = case.get("mode", "live")
    q = case["query"] if "query" in case else query(case["event"], case["sched"])
    if mode == "live":
        q += f"&depth={case['depth']}"
    if case["addressing"] == "time":
        q += "&timeline=1"
    url = f"http://localhost/dash/{mode}/{case['stream']}/hand_made.mpd?{q.lstrip('&')}"
    with appboot.Clock(case["clock"]):
        r = segwalk.get(c, url)
    if r.status_code != 200:
        return r.status_code, "", None, []
    mpd = segwalk.parse_mpd(url, r.get_data())
    reps = [x for x in mpd.reps if x.content_type == "video"]
    if not reps:
        return 200, r.get_data(as_text=True), None, []
    rep = reps[0]
    out = []
    if case["addressing"] == "time":
        if not rep.timeline:
            return 200, r.get_data(as_text=True), rep.timescale, []
        for t, d in rep.timeline:
            out.append(((t, d), rep.media_url(time=t)))
    elif mode == "live":
        now_us = int(_parse_iso(case["clock"]).timestamp() * 1_000_000)
        for n in segwalk.number_window(mpd, rep, now_us):
            out.append((None, rep.media_url(number=n)))
    else:
        # static presentation: numbers startNumber … covering the Period duration
        total = mpd.mpd_duration_us * rep.timescale
        count = -(-total // (rep.duration * 1_000_000))
        for n in range(rep.start_number, rep.start_number + count):
            out.append((None, rep.media_url(number=n)))
    if mode == "live":
        out = out[1:-1]           # window edges
    out = out[-case.get("max_segments", 40):]
    return 200, r.get_data(as_text=True), rep.timescale, out


def fetch_walk(case) -> dict:
    import appboot
    import segwalk
    _, c = app()
    ensure_walk_streams()
    st, txt, rep_ts, items = walk_urls(case)
    out = {"manifest_status": st, "manifest": txt, "rep_timescale": rep_ts, "listed": [i for i, _ in items],
           "status": [], "segments": [], "urls": [u for _, u in items]}
    with appboot.Clock(case["clock"]):
        for _, u in items:
            r = segwalk.get(c, u)
            out["status"].append(r.status_code)
            out["segments"].append(E.read_segment(r.get_data()) if r.status_code == 200 else None)
    return out


def walk_oracle(case, f) -> list:
    """exactly-once over the run a player fetches from the manifest: against the intervals the
    SegmentTimeline lists ($Time$) or the intervals of the served segments ($Number$)"""
    if f["manifest_status"] != 200:
        return [f"manifest request answered {f['manifest_status']}"]
    if not f["urls"]:
        return ["the manifest lists no video segment"]
    if any(st != 200 for st in f["status"]):
        bad = [(u.split("/")[-1][:40], st) for u, st in zip(f["urls"], f["status"]) if st != 200][:3]
        return [f"listed segments not served: {bad}"]
    if case["addressing"] == "time":
        run = [list(x) for x in f["listed"]]
    else:
        run = [[s["tfdt"], s["trun_duration"]] for s in f["segments"]]
    sched = case["sched"]
    scheme = E.PING_SCHEME if case["event"] == "ping" else E.SCTE_SCHEME
    # BOTH carriers of the schedule are read: the Event elements of the manifest and the emsg boxes of
    # the segments its media URLs lead to; every event must be delivered exactly once in total
    listed_events = [e for _attrs, evs in manifest_events(f["manifest"], scheme) for e in evs]
    boxes = [[b for b in s["emsg"] if b["scheme"] == scheme] for s in f["segments"]]
    foreign = sorted({b["scheme"] for s in f["segments"] for b in s["emsg"] if b["scheme"] != scheme})
    fails = []
    if foreign:
        fails.append(f"emsg boxes of schemes that were not requested: {foreign}")
    if sched["inband"]:
        if listed_events:
            fails.append(f"in-band schedule is also listed in the manifest ({len(listed_events)} Event elements): "
                         "delivered twice")
        ec = {"event": case["event"], "mode": case.get("mode", "live"), "sched": sched,
              "rep_timescale": f["rep_timescale"], "run": run}
        return fails + E.oracle_run(ec, boxes)
    carried = [b["id"] for bs in boxes for b in bs]
    if carried:
        in_manifest = sorted({i for i, _t, _d, _x in listed_events} & set(carried))
        fails.append(f"out-of-band schedule: the segments the manifest's own media URLs lead to carry emsg boxes "
                     f"(ids {carried[:8]}{'…' if len(carried) > 8 else ''}); ids {in_manifest[:8]} are also listed "
                     "as Event elements: delivered twice")
    if sched["count"] > 0:
        import props.c14 as P
        fails += P.oob_oracle(case["event"], sched, listed_events)
    return fails


def gen_walk_case(rng, stream: str | None = None, addressing: str | None = None):
    """`stream` given: a walk of that track (run() visits every irregular track by `$Time$` and every
    regular one by `$Number$` in each run)"""
    ensure_walk_streams()
    name = stream or rng.choice(sorted(WALK_TRACKS) + ["bbb"])
    addressing = addressing or ("time" if stream else rng.choice(["time", "time", "number"]))
    if addressing == "number" and not regular(name):
        name = rng.choice(["bbb", "c14w0", "c14w9"])       # H of $Number$ walks: equal stored durations
    rep_ts, durs, _first = WALK_TRACKS.get(name, (240, [960] * 10, 0))
    clock = rng.choice(CLOCKS)
    event = "ping" if rng.random() < .7 else "scte35"
    ts = rng.choice([100, 100, 1000, 90000, rep_ts])
    nominal = max(1, (sum(durs) // len(durs)) * ts // rep_ts)
    interval = max(1, rng.choice([nominal // 7, nominal // 3, nominal // 2, nominal, nominal * 3 // 2,
                                  rng.randrange(1, 2 * nominal + 2)]))
    if event == "scte35":
        interval = max(interval, nominal // 4, 1)
    elapsed = int((_parse_iso(clock) - _parse_iso(live_start(clock))).total_seconds())
    depth = rng.choice([40, 60, 90])
    if rng.random() < .5:
        start, count = rng.randrange(0, 3 * interval + 1), 0
    else:
        start = max(0, (elapsed - depth - rng.randrange(0, 30)) * ts + rng.randrange(0, interval))
        count = rng.choice([0, 0, rng.randrange(1, max(2, min(10000, 3 * depth * ts // interval)))])
    s = dict(start=start, interval=interval, count=count, duration=rng.choice([200, 0]), timescale=ts,
             version=1 if event == "scte35" else rng.choice([0, 1]), inband=True)
    if event == "scte35":
        s["program_id"] = 1620
    if rng.random() < .2:
        # out-of-band: listed in the manifest (count > 0, bounded), the walked segments must stay empty
        s.update(inband=False, count=rng.randrange(1, 40))
    return {"kind": "walk", "stream": name, "clock": clock, "addressing": addressing,
            "event": event, "sched": s, "depth": depth, "max_segments": 40}


def _walk_case(ch, case, lines, jobs):
    f = fetch_walk(case)
    ch.count(f"walk:{case['addressing']}:{case['stream']}")
    ch.count(f"walk carriers:{case.get('mode', 'live')}:{'in-band' if case['sched']['inband'] else 'out-of-band'}")
    fails = walk_oracle(case, f)
    if fails:
        ch.oracle_failures.append({"channel": "events_e2e", "case": case, "failures": fails[:4]})
        return
    segs = f["segments"]
    nboxes = sum(len(s["emsg"]) for s in segs)
    ch.count("walk segments fetched", len(segs))
    ch.count("walk boxes=0" if nboxes == 0 else "walk boxes>=1")
    durs = {s["trun_duration"] for s in segs}
    if len(durs) > 1:
        ch.count("walk over unequal segment durations")
    if len(segs) >= 2 and nboxes:
        ch.nontrivial.add(json.dumps(case, sort_keys=True))
    # correspondence: the model on the (tfdt, duration) run read from the served bytes
    ec = {"event": case["event"], "mode": "live", "sched": case["sched"], "rep_timescale": f["rep_timescale"],
          "run": [[s["tfdt"], s["trun_duration"]] for s in segs]}

    def o(v):
        return "-" if v is None else str(v)
    impl = ";".join("+".join(f"{b['id']},{o(b['delta'])},{o(b['pt'])}" for b in s["emsg"]) or "-" for s in segs)
    lines.append(E.driver_line(ec))
    jobs.append((case, "boxes per segment (manifest walk)", impl))
    scheme = E.PING_SCHEME if case["event"] == "ping" else E.SCTE_SCHEME
    evs = [e for _a, es in manifest_events(f["manifest"], scheme) for e in es]
    sc = case["sched"]
    lines.append(f"oob {sc['start']} {sc['interval']} {sc['count']} {sc['duration']} {1 if sc['inband'] else 0}")
    jobs.append((case, "EventStream events (manifest walk)", ";".join(f"{i},{t},{d}" for i, t, d, _ in evs) or "-"))
    ch.sample({"case": case, "listed": f["listed"][:3], "boxes": impl[:100]}, limit=2)


# ------------------------------------------------------------------ options from stream defaults / omitted

PING_DEFAULT = dict(start=0, interval=1000, count=0, duration=200, timescale=100, version=0, inband=True)


def defaults_cases():
    """fixed list: every event option left to the server default (bbb), given by the stream's stored
    defaults (c14wz), and stored defaults partly overridden in the URL; vod and live"""
    d = dict(PING_DEFAULT, **STREAM_DEFAULTS["c14wz"]["ping"])
    out = []
    for mode in ("vod", "live"):
        out.append({"kind": "defaults", "stream": "bbb", "file": "bbb_v7", "rep_ts": 240, "mode": mode,
                    "clock": CLOCKS[0], "event": "ping", "query": "events=ping", "sched": dict(PING_DEFAULT)})
        out.append({"kind": "defaults", "stream": "c14wz", "file": "c14wz_v1", "rep_ts": 600, "mode": mode,
                    "clock": CLOCKS[3], "event": "ping", "query": "", "sched": dict(d)})
        out.append({"kind": "defaults", "stream": "c14wz", "file": "c14wz_v1", "rep_ts": 600, "mode": mode,
                    "clock": CLOCKS[4], "event": "ping", "query": "ping__interval=70&ping__version=0",
                    "sched": dict(d, interval=70, version=0)})
    return out


def fetch_defaults(case):
    import appboot
    _, c = app()
    ensure_walk_streams()
    seg = {"bbb": 960, "c14wz": 1200}[case["stream"]]
    if case["mode"] == "vod":
        numbers = [1, 2, 3, 4, 5]
        extra = ""
    else:
        now, ast = _parse_iso(case["clock"]), _parse_iso(live_start(case["clock"]))
        newest = int((now - ast).total_seconds() * case["rep_ts"]) // seg - 2
        numbers = list(range(newest - 6, newest + 1))
        extra = "start=" + live_start(case["clock"])
    q = "&".join(x for x in (case["query"], extra) if x)
    out = {"status": [], "segments": []}
    with appboot.Clock(case["clock"]):
        for n in numbers:
            r = c.get(f"/dash/{case['mode']}/{case['stream']}/{case['file']}/{n}.m4v" + (f"?{q}" if q else ""))
            out["status"].append(r.status_code)
            out["segments"].append(E.read_segment(r.get_data()) if r.status_code == 200 else None)
    _remember(case, out)
    return out


def defaults_oracle(case, f) -> list:
    if any(st != 200 for st in f["status"]):
        return [f"segment requests answered {f['status']}"]
    ec = {"event": case["event"], "mode": case["mode"], "sched": case["sched"], "rep_timescale": case["rep_ts"],
          "run": [[s["tfdt"], s["trun_duration"]] for s in f["segments"]]}
    return E.oracle_run(ec, [s["emsg"] for s in f["segments"]])


def _defaults_case(ch, case, lines, jobs):
    f = fetch_defaults(case)
    ch.count("options from " + ("server defaults" if case["stream"] == "bbb" else
                                ("stream defaults" if not case["query"] else "stream defaults + URL override")))
    fails = defaults_oracle(case, f)
    if fails:
        ch.oracle_failures.append({"channel": "events_e2e", "case": case, "failures": fails[:4]})
        return
    segs = f["segments"]
    if sum(len(s["emsg"]) for s in segs):
        ch.nontrivial.add(json.dumps(case, sort_keys=True))
    ec = {"event": case["event"], "mode": case["mode"], "sched": case["sched"], "rep_timescale": case["rep_ts"],
          "run": [[s["tfdt"], s["trun_duration"]] for s in segs]}

    def o(v):
        return "-" if v is None else str(v)
    impl = ";".join("+".join(f"{b['id']},{o(b['delta'])},{o(b['pt'])}" for b in s["emsg"]) or "-" for s in segs)
    lines.append(E.driver_line(ec))
    jobs.append((case, "boxes per segment (options from defaults)", impl))


# ------------------------------------------------------------------ fixed grid (not left to the seed)

def grid_cases(rng):
    """deterministic classes of the quick tier: one live run per clock (sub-second phases, loop boundary,
    year end, 2038, 2100), validator limits (count 10000, program_id 65535), falsy-but-legal values"""
    out = []
    for i, clock in enumerate(CLOCKS):
        now, ast = _parse_iso(clock), _parse_iso(live_start(clock))
        newest = int((now - ast).total_seconds() * 240) // 960 - 1
        m = [2, 3, 12][i % 3]
        numbers = list(range(max(1, newest - m + 1), newest + 1))
        a0 = (numbers[0] - 1) * 960 * 100 // 240
        event = "ping" if i % 2 == 0 else "scte35"
        s = dict(start=max(0, a0 - 3 * 150 + (i % 2)), interval=150, count=0, duration=200, timescale=100,
                 version=1 if event == "scte35" else (i // 2) % 2, inband=True)
        if event == "scte35":
            s["program_id"] = 65535
        out.append({"kind": "segments", "mode": "live", "clock": clock, "event": event, "sched": s,
                    "numbers": numbers})
    base = {"kind": "segments", "mode": "vod", "clock": CLOCKS[0], "numbers": [1, 2, 3]}
    # count exactly at the HTTP limit; falsy legal values (start 0, duration 0, count 0, version 0, program_id 0)
    out.append(dict(base, event="ping", sched=dict(start=0, interval=7, count=10000, duration=0, timescale=100,
                                                   version=0, inband=True)))
    out.append(dict(base, event="scte35", sched=dict(start=0, interval=400, count=0, duration=0, timescale=100,
                                                     version=1, inband=True, program_id=0)))
    out.append({"kind": "manifest", "mode": "vod", "clock": CLOCKS[0], "event": "ping",
                "sched": dict(start=0, interval=1, count=10000, duration=0, timescale=100, version=0, inband=False)})
    return out


def carrier_grid():
    """fixed grid: event type x inband in {1, 0} x vod / live x $Time$ / $Number$ on regular tracks, walked
    through the manifest's own media URLs and its EventStream elements (both carriers counted), plus the
    stream whose stored defaults are out-of-band: as stored, and with in-band requested in the URL"""
    out = []
    i = 0
    for event in ("ping", "scte35"):
        for inband in (True, False):
            for mode in ("vod", "live"):
                for addressing in ("time", "number"):
                    stream, rep_ts, seg = [("bbb", 240, 960), ("c14w0", 600, 1200), ("c14w9", 30000, 50050)][i % 3]
                    clock = CLOCKS[i % len(CLOCKS)]
                    ts = [100, 1000, 90000][i % 3]
                    seg_ticks = seg * ts // rep_ts
                    interval = max(1, seg_ticks * [2, 3, 5][i % 3] // 4)
                    if mode == "vod":
                        start = i % 4
                    else:
                        el = int((_parse_iso(clock) - _parse_iso(live_start(clock))).total_seconds())
                        start = max(0, (el - 50) * ts + i)
                    s = dict(start=start, interval=interval, count=0 if inband and i % 2 else 9, duration=200,
                             timescale=ts, version=1 if event == "scte35" else (i // 4) % 2, inband=inband)
                    if event == "scte35":
                        s["program_id"] = 1620
                    out.append({"kind": "walk", "mode": mode, "stream": stream, "clock": clock,
                                "addressing": addressing, "event": event, "sched": s, "depth": 60, "max_segments": 40})
                    i += 1
    d = dict(PING_DEFAULT, **STREAM_DEFAULTS["c14wy"]["ping"])
    for mode in ("vod", "live"):
        # stored defaults: out-of-band; nothing about events in the URL at all
        out.append({"kind": "walk", "mode": mode, "stream": "c14wy", "clock": CLOCKS[0], "addressing": "number",
                    "event": "ping", "sched": dict(d), "query": "", "depth": 60, "max_segments": 40})
        # stored defaults out-of-band, the request asks for in-band: the manifest's media URLs must say so
        out.append({"kind": "walk", "mode": mode, "stream": "c14wy", "clock": CLOCKS[3], "addressing": "time",
                    "event": "ping", "sched": dict(d, inband=True, count=0), "query": "ping__inband=1&ping__count=0",
                    "depth": 60, "max_segments": 40})
    return out


# ------------------------------------------------------------------ generator

def gen_case(rng, thorough: bool):
    mode = "live" if rng.random() < .55 else "vod"
    clock = rng.choice(CLOCKS)
    event = "ping" if rng.random() < .6 else "scte35"
    rep_ts = media_timescale()
    seg = 960          # bbb video: 10 segments of 960 ticks (checked against the bytes by the channel)
    if mode == "vod":
        a = rng.randrange(1, 11)
        m = rng.choice([1, 2, 3, 4, 10])
        numbers = list(range(a, min(10, a + m - 1) + 1))
        tfdt0 = (numbers[0] - 1) * seg
    else:
        now = _parse_iso(clock)
        # a third of the live runs are anchored at the Unix epoch: with a 1-10 MHz event timescale
        # "now" is beyond 2^53 ticks (64-bit emsg v1 times, SCTE-35 PTS wrapped many times)
        epoch = rng.random() < .35
        ast = _parse_iso("1970-01-01T00:00:00Z") if epoch else _parse_iso(live_start(clock))
        newest = int((now - ast).total_seconds() * rep_ts) // seg - 1      # conservatively available
        m = rng.choice([2, 3, 5, 8, 12])
        back = rng.choice([0, 1, 3, 10, 100, 400]) if rng.random() < .8 else rng.randrange(0, 420)
        last = max(m + 1, newest - back)
        numbers = list(range(last - m + 1, last + 1))
        tfdt0 = (numbers[0] - 1) * seg
    epoch = mode == "live" and ast.year == 1970
    ts = rng.choice([10 ** 7, 10 ** 7, 10 ** 6, 90000]) if epoch else rng.choice([100, 100, 240, 1000, 90000, 7, 10 ** 6])
    a0 = tfdt0 * ts // rep_ts
    seg_ticks = max(1, seg * ts // rep_ts)
    interval = max(1, rng.choice([seg_ticks // 3, seg_ticks // 2, seg_ticks, seg_ticks * 3 // 2, 2 * seg_ticks + 1,
                                  rng.randrange(1, 3 * seg_ticks + 2)]))
    if event == "scte35":
        interval = max(interval, seg_ticks // 4, 1)
    else:
        interval = max(interval, seg_ticks // 40, 1)
    k = rng.random()
    if k < .5:
        start = a0 + rng.choice([0, 0, seg_ticks, -1, 1, seg_ticks - 1]) - interval * rng.choice([0, 1, 2, 10])
    elif k < .7 and mode == "vod":
        start = rng.choice([0, 200, 256])
    else:
        start = a0 - interval * rng.randrange(0, 2000) + rng.randrange(0, interval)
    start = max(0, start)
    if start > 2 ** 53 and start % 2 == 0:
        start += 1          # odd values above 2^53 are not representable as doubles
    first = max(0, -(-(a0 - start) // interval))
    k = rng.random()
    if k < .45:
        count = 0
    elif k < .85:
        count = first + rng.randrange(0, 3 * len(numbers) + 2)
    else:
        count = rng.choice([509, 510, 511]) + first
    count = min(count, 10000)      # H (HTTP level): count > 10000 is refused with 400 (fix 8c4223f)
    if 0 < count <= first:
        count = 0
    s = dict(start=start, interval=interval, count=count, duration=rng.choice([200, 0, ts]), timescale=ts,
             version=1 if event == "scte35" else rng.choice([0, 1]), inband=True)
    if event == "scte35":
        s["program_id"] = rng.choice([1620, 345, 65535])
    case = {"kind": "segments", "mode": mode, "clock": clock, "event": event, "sched": s, "numbers": numbers}
    if epoch:
        case["start_param"] = "epoch"
    if rng.random() < .15:
        case["also"] = "scte35" if event == "ping" else "ping"
    return case


def gen_manifest_case(rng):
    import props.c14 as P
    event, s = P.gen_oob(rng)
    s["count"] = min(s["count"], 40) if s["count"] < 500 else s["count"]
    if event == "scte35" and s["count"] > 500:
        s["count"] = 510
    if rng.random() < .6:
        # boundary values through the real option parser: Event@presentationTime is an unsigned
        # 64-bit number, the timescale / duration attributes 32-bit
        s["timescale"] = rng.choice([100, 90000, 10 ** 6, 10 ** 7, 2 ** 32 - 1])
        s["start"] = E.boundary_value(rng, limit=2 ** 63, odd_above_2_53=True)
        if rng.random() < .4:
            s["interval"] = E.boundary_value(rng, limit=2 ** 62, odd_above_2_53=True)
            s["count"] = min(s["count"], 3)
        if event == "ping" and rng.random() < .4:
            s["duration"] = E.boundary_value(rng, limit=2 ** 32)
        elif event == "scte35":
            s["duration"] = rng.choice([0, 200, s["timescale"]])       # 90 kHz break duration < 2^33
    else:
        s["start"] = min(s["start"], 10 ** 9)
    return {"kind": "manifest", "mode": rng.choice(["vod", "live"]), "clock": rng.choice(CLOCKS),
            "event": event, "sched": s}


# ------------------------------------------------------------------ channel

def run(ctx) -> Channel:
    ch = Channel("events_e2e", rule=(
        "booted Flask app, fixture stream bbb: runs of 1-12 consecutive video segment requests with "
        "?events=ping|scte35 option sets in vod and live (4 clocks, runs across the 10-segment loop), emsg boxes, "
        "tfdt and sample durations read with an independent box walker, media timescale from the init segment: "
        "vs Lean createEmsg/scte35Payload on the same (tfdt, duration) run; manifests with out-of-band events: "
        "EventStream/Event elements vs Lean manifestEvents; non-trivial = run of >= 2 segments carrying >= 1 box, "
        "or a manifest listing >= 2 events; distinct by request set"))
    try:
        app()
        media_timescale()
    except Exception as e:
        ch.errors.append(f"app boot: {type(e).__name__}: {e}")
        return ch
    rng = ctx.rng("e2e")
    cases = [json.loads(p.read_text()) for p in sorted((common.CORPUS / "C14").glob("e2e-*.json"))] \
        if (common.CORPUS / "C14").is_dir() else []
    ensure_walk_streams()
    cases += grid_cases(ctx.rng("e2e-grid")) + defaults_cases()
    cases += [gen_case(rng, ctx.thorough) for _ in range(ctx.scale(45, 700))]
    cases += [gen_manifest_case(rng) for _ in range(ctx.scale(25, 300))]
    wrng = ctx.rng("e2e-walk")
    cases += carrier_grid()
    cases += [gen_walk_case(wrng, stream=n) for n in sorted(WALK_TRACKS) if not regular(n)]
    cases += [gen_walk_case(wrng, stream=n, addressing="number") for n in ("bbb", "c14w0", "c14w9", "c14wz")]
    cases += [gen_walk_case(wrng) for _ in range(ctx.scale(10, 160))]
    _reject_cases(ch)
    lines, jobs = [], []
    for case in cases:
        ch.evaluations += 1
        ch.count(f"{case['kind']}:{case.get('mode', 'live')}:{case['event']}")
        try:
            if case["kind"] == "manifest":
                _manifest_case(ch, case, lines, jobs)
            elif case["kind"] == "walk":
                _walk_case(ch, case, lines, jobs)
            elif case["kind"] == "defaults":
                _defaults_case(ch, case, lines, jobs)
            else:
                _segment_case(ch, case, lines, jobs)
        except Exception as e:
            ch.errors.append(f"{type(e).__name__}: {e} on {json.dumps(case)[:200]}")
    # history: re-issue earlier requests after everything else (other streams, modes, option vectors,
    # clocks) has been served by the same process; the answers must be the ones given the first time
    for case in [c for c in cases if c["kind"] in ("segments", "defaults")][:ctx.scale(12, 60)]:
        ch.evaluations += 1
        ch.count("re-issued after other requests")
        try:
            first = _STATE.get(("first", json.dumps(case, sort_keys=True)))
            again = fetch_defaults(case) if case["kind"] == "defaults" else fetch_run(case)
            sig = _signature(again)
            if first is not None and sig != first:
                ch.oracle_failures.append({"channel": "events_e2e", "case": case, "failures": [
                    "the same request answered differently after other requests had been served "
                    f"(first {str(first)[:120]}, then {str(sig)[:120]})"]})
        except Exception as e:
            ch.errors.append(f"re-issue: {type(e).__name__}: {e}")
    if lines:
        try:
            out = E.run_driver(lines)
        except Exception as e:
            ch.errors.append(f"driver: {e}")
            return ch
        for (case, what, impl), mo in zip(jobs, out):
            if impl != mo:
                ch.disagreements.append({"channel": "events_e2e", "what": what, "case": case,
                                         "model": mo[:300], "impl": impl[:300]})
    return ch


def _reject_cases(ch):
    """D13b regression guard: interval < 1 is outside the property's quantifier; the server must
    answer (400 since fix a993bc6) instead of looping for ever"""
    import appboot
    _, c = app()
    for url in (f"/dash/vod/{STREAM}/{FILE}/1.m4v?events=ping&ping__interval=0",
                f"/dash/vod/{STREAM}/{FILE}/1.m4v?events=scte35&scte35__interval=-5",
                f"/dash/live/{STREAM}/hand_made.mpd?events=ping&ping__interval=0&ping__inband=0&ping__count=3"):
        ch.evaluations += 1
        ch.count("reject:interval<1")
        try:
            with E.time_limit(20), appboot.Clock(CLOCKS[0]):
                st = c.get(url).status_code
        except E.NonTermination:
            st = "no answer within 20 s"
        if st != 400:
            ch.oracle_failures.append({"channel": "events_e2e", "case": {"kind": "reject", "url": url},
                                       "failures": [f"GET {url} -> {st} (an interval < 1 must be refused: "
                                                    "the event loop cannot terminate)"]})


def _segment_case(ch, case, lines, jobs):
    f = fetch_run(case)
    if any(st != 200 for st in f["status"]):
        if any(st >= 500 for st in f["status"]):
            ch.oracle_failures.append({"channel": "events_e2e", "case": case,
                                       "failures": [f"segment requests answered {f['status']}"]})
        else:
            ch.errors.append(f"segment requests answered {f['status']} for {json.dumps(case)[:160]}")
        return
    ec = emsg_case(case, f)
    segs = f["segments"]
    if any(s["tfdt"] is None or s["trun_duration"] is None for s in segs):
        ch.errors.append("no tfdt/trun in a segment response")
        return
    nboxes = sum(len(s["emsg"]) for s in segs)
    ch.count("boxes=0" if nboxes == 0 else ("boxes=1..3" if nboxes < 4 else "boxes>=4"))
    if not all(s["order_ok"] for s in segs):
        ch.count("emsg after moof")
    if case["mode"] == "live" and (case["numbers"][0] - 1) // 10 != (case["numbers"][-1] - 1) // 10:
        ch.count("run crosses a loop of the source")
    if case.get("start_param") == "epoch":
        ch.count("live anchored at the Unix epoch")
    if case["sched"]["start"] > 2 ** 53:
        ch.count("start > 2^53")
    if len(segs) >= 2 and nboxes:
        ch.nontrivial.add(json.dumps(case, sort_keys=True))
    def o(v):
        return "-" if v is None else str(v)
    main, other, osched = split_by_scheme(case, f)
    impl = ";".join("+".join(f"{b['id']},{o(b['delta'])},{o(b['pt'])}" for b in bs) or "-" for bs in main)
    lines.append(E.driver_line(ec))
    jobs.append((case, "boxes per segment", impl))
    if case.get("also"):
        ch.count("two event types in one request")
        impl2 = ";".join("+".join(f"{b['id']},{o(b['delta'])},{o(b['pt'])}" for b in bs) or "-" for bs in other)
        lines.append(E.driver_line(dict(ec, sched=osched)))
        jobs.append((case, f"boxes per segment ({case['also']}, default options)", impl2))
    s = case["sched"]
    if case["event"] == "scte35":
        for bs in main:
            for b in bs:
                t = s["start"] + b["id"] * s["interval"]
                lines.append(f"scte35sig {s['start']} {s['interval']} {s['count']} {s['duration']} {s['timescale']} "
                             f"{s.get('program_id', 1620)} {b['id']} {t}")
                jobs.append((case, f"scte35 payload of event {b['id']}", b["data"].hex()))
    fails = E.oracle_run(ec, main)
    if case.get("also"):
        fails += E.oracle_run(dict(ec, event=case["also"], sched=osched), other)
    elif any(other):
        fails.append("boxes of an event scheme that was not requested")
    if fails:
        ch.oracle_failures.append({"channel": "events_e2e", "case": case, "failures": fails[:4]})
    ch.sample({"case": case, "run": ec["run"][:3], "boxes": impl[:100]}, limit=3)


def _manifest_case(ch, case, lines, jobs):
    st, txt = fetch_manifest(case)
    s = case["sched"]
    if st != 200:
        if st >= 500:
            ch.oracle_failures.append({"channel": "events_e2e", "case": case,
                                       "failures": [f"manifest request answered {st}"]})
        else:
            ch.errors.append(f"manifest answered {st} for {json.dumps(case)[:160]}")
        return
    scheme = E.PING_SCHEME if case["event"] == "ping" else E.SCTE_SCHEME
    streams = manifest_events(txt, scheme)
    ch.count(f"EventStream elements={len(streams)}")
    if max(s["start"], s["interval"]) > 2 ** 53:
        ch.count("manifest: start or interval > 2^53")
    for attrs, evs in streams[:1]:
        impl = ";".join(f"{i},{t},{d}" for i, t, d, _ in evs) or "-"
        lines.append(f"oob {s['start']} {s['interval']} {s['count']} {s['duration']} {1 if s['inband'] else 0}")
        jobs.append((case, "EventStream events", impl))
        if len(evs) >= 2:
            ch.nontrivial.add(json.dumps(case, sort_keys=True))
    if not s["inband"] and s["count"] <= 0:
        return          # D13g (ledger): an unbounded schedule is not listed
    fails = manifest_oracle(case)
    if fails:
        ch.oracle_failures.append({"channel": "events_e2e", "case": case, "failures": fails})
    ch.sample({"case": case, "streams": len(streams)}, limit=1)


def search(ctx):
    rng = ctx.rng("e2e-search")
    for i in range(ctx.scale(150, 800)):
        case = gen_walk_case(rng) if i % 3 == 0 else gen_case(rng, True)
        try:
            f = oracle_case(case)
        except Exception as e:
            f = [f"exception {type(e).__name__}: {e}"]
        if f:
            return {"channel": "events_e2e", "case": case, "failures": f}
    return None
