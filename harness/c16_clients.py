"""C16 channel `clients`: multi-client histories for the clause "injected errors fire for
exactly the addressed requests and for no other request".

Client A asks for error injection (verr / aerr / merr / failures / vcorrupt / drm …), client B
never does; both have their own cookie jar and are interleaved on every *entry route that leads
to media*: v3 manifests, the legacy redirects `/dash/<name>.mpd` and `/dash/<stream>/<name>.mpd`,
multi-period manifests and the player pages.  A client "plays" an entry the way a player does:
it follows the redirects, reads the manifest it is given (own MPD reader, `segwalk`), and
requests the init segment and the first media segments with exactly the URLs the manifest
spells out.

Oracle (the property): nothing B receives is a synthetic error, and no URL B is sent to
(redirect targets, the manifest's Location / BaseURL / template URLs, the player page's
manifest URL) carries an option only A sent.  After every request the process-wide constants
(`c16_state.snapshot`) are compared: a change is reported with the request that caused it,
next to the first visible consequence.
"""
from __future__ import annotations

import contextlib
import re
import urllib.parse

import c16_http
import c16_state
import segwalk

A_OPTIONS = [
    [["verr", "503=2"]], [["verr", "503=2"], ["failures", "1"]], [["aerr", "404=1,503=3"]],
    [["merr", "503=0"], ["update", "0"]], [["verr", "599=1"], ["aerr", "599=1"], ["failures", "2"]],
    [["vcorrupt", "1,2"], ["frames", "2"]], [["drm", "all"]], [["verr", "410=3"], ["depth", "30"]],
    [["events", "ping"], ["ping__count", "3"], ["verr", "504=2"]], [["bugs", "saio"], ["terr", "503=1"]],
]
A_ONLY_NAMES = {"verr", "aerr", "terr", "merr", "failures", "vcorrupt", "frames", "update", "bugs", "events",
                "ping__count"}


def entries(P: dict) -> list:
    """entry routes that lead to media: (label, path, default query)"""
    out = []
    for stream in ("bbb", "tears"):
        for mode in ("vod", "live"):
            out.append((f"v3:{mode}:{stream}", f"/dash/{mode}/{stream}/hand_made.mpd", []))
        out.append((f"v3:live:{stream}:n", f"/dash/live/{stream}/manifest_n.mpd", []))
        # the manifest names a patch document: the player fetches the PatchLocation as spelled (checklist 6)
        out.append((f"v3:live:{stream}:patch", f"/dash/live/{stream}/hand_made.mpd", [["patch", "1"]]))
        for name in ("hand_made.mpd", "manifest_vod.mpd", "enc.mpd"):
            out.append((f"legacy-v2:{stream}:{name}", f"/dash/{stream}/{name}", []))
        out.append((f"player:{stream}", f"/play/vod/{stream}/hand_made/index.html", []))
        out.append((f"player-live:{stream}", f"/play/live/{stream}/hand_made/index.html", []))
    for name in ("hand_made.mpd", "manifest_vod.mpd", "enc.mpd"):
        out.append((f"legacy-v1:{name}", f"/dash/{name}", []))
    out.append(("legacy-v1:live", "/dash/hand_made.mpd", [["mode", "live"]]))
    for mps in P["mps"]:
        if mps == "c16mps":            # the other multi-period streams of the world cannot be presented (404)
            out.append((f"mps:{mps}:vod", f"/mps/vod/{mps}/hand_made.mpd", []))
            out.append((f"mps:{mps}:live", f"/mps/live/{mps}/hand_made.mpd", []))
            out.append((f"player-mps:{mps}", f"/play/mps/vod/{mps}/hand_made/index.html", []))
    return out


def _rel(url: str) -> str:
    u = urllib.parse.urlsplit(url)
    return u.path + ("?" + u.query if u.query else "")


def option_names(url: str) -> set:
    return {k for k, _ in urllib.parse.parse_qsl(urllib.parse.urlsplit(url).query, keep_blank_values=True)}


class Player:
    """one client (own cookie jar)"""

    def __init__(self, app, name: str, watcher=None):
        self.c = app.client()
        self.name = name
        self.watcher = watcher

    def get(self, url: str, trace: list):
        with contextlib.redirect_stdout(c16_http._DEVNULL):
            r = self.c.get(url)
        body = r.get_data()
        rec = {"client": self.name, "url": url, "status": r.status_code,
               "location": r.headers.get("Location"),
               "synthetic": body[:10] == b"Synthetic "}
        trace.append(rec)
        if self.watcher is not None:
            self.watcher(rec)
        return r, body

    def play(self, path: str, query: list, per_rep: int = 2, max_reps: int = 4) -> list:
        """→ trace: every request made, with status / redirect target / synthetic flag and, for
        manifests and pages, the URLs they spell out (`urls`)"""
        trace: list = []
        url = c16_http.build_url(path, query)
        for _ in range(4):                      # follow redirects like a player
            r, body = self.get(url, trace)
            if r.status_code in (301, 302, 303, 307, 308) and r.headers.get("Location"):
                url = _rel(r.headers["Location"])
                continue
            break
        if r.status_code != 200:
            return trace
        ctype = r.headers.get("Content-Type", "")
        if "html" in ctype:
            m = re.search(rb'"source":\s*"([^"]+)"', body) or re.search(rb"source\s*[:=]\s*'([^']+)'", body) \
                or re.search(rb'(https?://[^"\'<> ]+\.mpd[^"\'<> ]*)', body)
            if not m:
                return trace
            murl = _rel(m.group(1).decode().replace("\\u0026", "&").replace("&amp;", "&").replace("\\/", "/"))
            trace[-1]["urls"] = [murl]
            r, body = self.get(murl, trace)
            url = murl
            if r.status_code != 200:
                return trace
        try:
            mpd = segwalk.parse_mpd("http://localhost" + url, body)
        except Exception as e:      # noqa: BLE001
            trace[-1]["parse_error"] = f"{type(e).__name__}: {e}"
            return trace
        urls = [m.decode() for m in re.findall(rb"<Location>([^<]+)</Location>", body)]
        patches = [_rel(m.decode().replace("&amp;", "&")) for m in re.findall(rb"<PatchLocation[^>]*>([^<]+)</PatchLocation>", body)]
        seg_urls = []
        for rep in mpd.reps[:max_reps]:
            if rep.init:
                seg_urls.append(_rel(rep.init_url()))
            if rep.media is None:
                continue
            if rep.timeline and "$Time$" in rep.media:
                for t, _d in rep.timeline[:per_rep]:
                    seg_urls.append(_rel(rep.media_url(time=t)))
            elif "$Number$" in rep.media:
                first = rep.start_number
                if mpd.type == "dynamic":
                    try:
                        import appboot
                        import datetime
                        now_us = int(datetime.datetime.now(tz=datetime.timezone.utc).timestamp() * 1000000)
                        win = segwalk.number_window(mpd, rep, now_us)
                        first = win[max(0, len(win) - per_rep - 1)] if win else first
                    except Exception:      # noqa: BLE001
                        pass
                for n in range(first, first + per_rep):
                    seg_urls.append(_rel(rep.media_url(number=n)))
        trace[-1]["urls"] = urls + patches + seg_urls
        for u in patches[:1] + seg_urls:
            self.get(u, trace)
        return trace


def url_option_names(trace: list) -> set:
    out = set()
    for rec in trace:
        for u in ([rec["location"]] if rec.get("location") else []) + rec.get("urls", []) + [rec["url"]]:
            out |= option_names(u)
    return out


def judge_b(trace: list, a_names: set, baseline: set | None = None) -> list:
    """the property for a client that asked for nothing.  `baseline`: the option names that appear in
    the URLs B was given when it played the same entry before A did (an entry may add options of its
    own, e.g. the legacy name enc.mpd adds drm=all) – anything beyond it that A sent is a leak"""
    if baseline is not None:
        a_names = a_names - baseline
    fails = []
    for i, rec in enumerate(trace):
        if rec["synthetic"]:
            fails.append({"req": i, "url": rec["url"], "what": f"client B received a synthetic {rec['status']} it never asked for"})
        elif rec["status"] >= 500:
            fails.append({"req": i, "url": rec["url"], "what": f"client B received status {rec['status']}"})
        for u in ([rec["location"]] if rec.get("location") else []) + rec.get("urls", []):
            leaked = option_names(u) & a_names
            if leaked:
                fails.append({"req": i, "url": rec["url"],
                              "what": f"client B is sent to a URL that carries options only client A sent: "
                                      f"{sorted(leaked)} in {u[:200]}"})
                break
    return fails


_BASELINE: dict = {}


def sibling(entry, E: list):
    """another entry for the last play of B: the v3 manifest of the other stream in the other mode (it adds no
    option of its own) - what A asked for on one stream / mode must not reach B anywhere else either"""
    label = entry[0]
    stream = "tears" if ":bbb" in label or "legacy-v1" in label else "bbb"
    mode = "vod" if ("live" in label) else "live"
    for e in E:
        if e[0] == f"v3:{mode}:{stream}":
            return e
    return None


def run_history(app, entry, a_query: list, order: str = "BAB", other=None) -> dict:
    """B0 plays the entry, A plays it with its options, B1 plays it again (order 'BAB'); 'AB': A first;
    'S' in the order: B plays the entry `other` (see sibling)"""
    label, path, q0 = entry
    changes = []
    state = {"snap": c16_state.fast(), "hash": c16_state.shallow()}

    def watcher(rec):
        h = c16_state.shallow()
        if h == state["hash"]:
            return
        state["hash"] = h
        snap = c16_state.fast()
        d = c16_state.diff(state["snap"], snap)
        if d:
            changes.append({"after_request": {k: rec[k] for k in ("client", "url", "status")}, "changed": d})
        state["snap"] = snap

    a = Player(app, "A", watcher)
    b = Player(app, "B", watcher)
    steps = []
    a_names = {k for k, _ in a_query} & A_ONLY_NAMES | ({"drm"} if any(k == "drm" for k, _ in a_query) else set())
    fails = []
    a_played = False
    for who in order:
        if who == "A":
            steps.append({"client": "A", "trace": a.play(path, q0 + a_query)})
            a_played = True
        elif who == "S":
            if other is None:
                continue
            tr = b.play(other[1], other[2], per_rep=1, max_reps=2)
            steps.append({"client": "B", "trace": tr, "entry": other[0]})
            for f in judge_b(tr, a_names, None):
                fails.append({**f, "play": len(steps) - 1})
        else:
            tr = b.play(path, q0)
            steps.append({"client": "B", "trace": tr})
            if not a_played and label not in _BASELINE:
                _BASELINE[label] = url_option_names(tr)      # what the entry adds by itself
            for f in judge_b(tr, a_names, _BASELINE.get(label)):
                fails.append({**f, "play": len(steps) - 1})
    return {"entry": label, "path": path, "query": q0, "a_query": a_query, "order": order,
            "other": list(other) if other else None, "steps": steps, "fails": fails, "constant_changes": changes}


# ====================================================================== what the manifest hands on (channel `follow`)
#
# For each media type x each injection option x its companion (failures / frames): one client (one cookie jar)
# requests the manifest with the option vector, then follows the manifest's OWN init / media URLs of that media
# type and counts the injected answers.  Oracle (property text, nothing about how the URL is spelled): with a code
# >= 500 and failures = K >= 0 the addressed segment is answered K times with the synthetic code, then with the
# real segment, and again; without failures (or with a 4xx code) every time; the neighbour segment and the init
# segment are never synthetic.  vcorrupt + frames: the addressed video segment differs from the unmodified one,
# its neighbour does not.

# manifests with $Number$ templates (a $Time$-addressed request never meets a position given as a segment number:
# open ledger finding inject-time-addressed-media); only hand_made lists the text track
FOLLOW_MANIFESTS = ["hand_made.mpd", "manifest_e.mpd", "manifest_h.mpd", "manifest_i.mpd"]
FOLLOW_PARAM = {"video": "verr", "audio": "aerr", "text": "terr"}


def follow_grid(thorough: bool = False) -> list:
    """fixed, seed-independent"""
    out = []
    i = 0
    for mode in ("vod", "live"):
        for ctype in ("video", "audio", "text"):
            for code in (503, 404):
                for failures in (None, 0, 1, 2):
                    if ctype == "text":
                        mfts = ["hand_made.mpd"]
                    else:
                        mfts = FOLLOW_MANIFESTS if thorough else [FOLLOW_MANIFESTS[i % len(FOLLOW_MANIFESTS)]]
                    for mft in mfts:
                        out.append({"op": "err", "mode": mode, "ctype": ctype, "code": code, "failures": failures,
                                    "manifest": mft, "stream": "bbb"})
                    i += 1
        out.append({"op": "corrupt", "mode": mode, "ctype": "video", "frames": 2, "manifest": "hand_made.mpd",
                    "stream": "bbb"})
    if thorough:
        for mode in ("vod", "live"):
            for ctype in ("video", "audio"):
                for failures in (None, 1, 3):
                    out.append({"op": "err", "mode": mode, "ctype": ctype, "code": 504, "failures": failures,
                                "manifest": "hand_made.mpd", "stream": "tears"})
    return out


def _fetch(c, url):
    with contextlib.redirect_stdout(c16_http._DEVNULL):
        r = c.get(url)
    body = r.get_data()
    r.close()
    return r.status_code, body


def run_follow(app, case: dict) -> dict:
    """→ {"skipped": why} | {"answers": [...], "fails": [...], "urls": [...]}"""
    import datetime
    path = f"/dash/{case['mode']}/{case['stream']}/{case['manifest']}"
    plain = app.client()
    st, body = _fetch(plain, path)
    if st != 200:
        return {"skipped": f"plain manifest {st}"}
    try:
        mpd0 = segwalk.parse_mpd("http://localhost" + path, body)
    except Exception as e:      # noqa: BLE001
        return {"skipped": f"manifest not parsed: {type(e).__name__}"}
    reps0 = [r for r in mpd0.reps if r.content_type == case["ctype"] and r.media and "$Number$" in r.media]
    if not reps0:
        return {"skipped": "no $Number$-addressed representation of that media type"}
    rep0 = reps0[0]
    if mpd0.type == "dynamic":
        now_us = int(datetime.datetime.now(tz=datetime.timezone.utc).timestamp() * 1000000)
        win = segwalk.number_window(mpd0, rep0, now_us)
        if len(win) < 4:
            return {"skipped": "live window shorter than 4 segments"}
        target = win[len(win) // 2]
    else:
        target = rep0.start_number + 2
    if case["op"] == "err":
        q = [[FOLLOW_PARAM[case["ctype"]], f"{case['code']}={target}"]]
        if case["failures"] is not None:
            q.append(["failures", str(case["failures"])])
    else:
        q = [["vcorrupt", str(target)], ["frames", str(case["frames"])]]
    c = app.client()                                   # the one cookie jar of this history
    murl = c16_http.build_url(path, q)
    st, body = _fetch(c, murl)
    if st != 200:
        return {"skipped": f"manifest with the options answered {st}", "urls": [murl]}
    mpd = segwalk.parse_mpd("http://localhost" + murl, body)
    reps = [r for r in mpd.reps if r.rep_id == rep0.rep_id]
    if not reps:
        return {"skipped": "representation missing from the manifest with options", "urls": [murl]}
    rep = reps[0]
    addressed = _rel(rep.media_url(number=target))
    neighbour = _rel(rep.media_url(number=target + 1))
    init = _rel(rep.init_url()) if rep.init else None
    urls, answers, fails = [murl], [], []

    def ask(u, role):
        st, b = _fetch(c, u)
        syn = b[:10] == b"Synthetic "
        urls.append(u)
        answers.append([role, st, syn])
        return st, syn, b

    if case["op"] == "err":
        code, k = case["code"], case["failures"]
        n = 3 if (k is None or k < 0) else k + 2
        if init:
            st, syn, _ = ask(init, "init")
            if syn or st >= 500:
                fails.append({"what": f"the init segment the manifest names was answered {st}"
                                      f"{' (synthetic)' if syn else ''}", "url": init})
        for j in range(n):
            st, syn, _ = ask(addressed, f"addressed#{j}")
            if code < 500 or k is None:
                want = True
            elif k < 0:
                want = False
            else:
                want = j % (k + 1) < k
            if want != (syn and st == code):
                fails.append({"what": f"request {j} for the addressed {case['ctype']} segment {target}, through the URL "
                                      f"the manifest hands out ({case['manifest']}, {case['mode']}; asked: "
                                      f"{q}): expected {'the synthetic ' + str(code) if want else 'the real segment'}, "
                                      f"got status {st}{' (synthetic)' if syn else ''}", "url": addressed})
                break
            if j == 0:
                st2, syn2, _ = ask(neighbour, "neighbour")
                if syn2 or st2 >= 500:
                    fails.append({"what": f"the neighbour segment {target + 1} was answered {st2}"
                                          f"{' (synthetic)' if syn2 else ''}", "url": neighbour})
    else:
        for u, role, want_diff in ((addressed, "addressed", True), (neighbour, "neighbour", False)):
            st, syn, b = ask(u, role)
            bare = u.split("?")[0]
            st0, b0 = _fetch(plain, bare)
            if st != 200 or st0 != 200:
                fails.append({"what": f"{role} segment: status {st} (with the manifest's URL) / {st0} (plain)", "url": u})
            elif (b != b0) != want_diff:
                fails.append({"what": f"vcorrupt={target}&frames={case['frames']}: the {role} video segment "
                                      f"{'equals' if want_diff else 'differs from'} the unmodified segment", "url": u})
    return {"target": target, "answers": answers, "fails": fails, "urls": urls}
