"""C16 channel `clients`: multi-client histories for the clause "injected errors fire for
exactly the addressed requests and for no other request".

Client A asks for error injection (verr / aerr / merr / failures / vcorrupt / drm …), client B
never does; both have their own cookie jar and are interleaved on every *entry route that leads
to media*: v3 manifests, the legacy redirects `/dash/<name>.mpd` and `/dash/<stream>/<name>.mpd`,
multi-period manifests and the player pages.  A client "plays" an entry the way a player does:
it follows the redirects, reads the manifest it is given (own MPD reader, `segwalk`), and
requests the init segment and the first media segments with exactly the URLs the manifest
spells out.

Oracle (the property): nothing B receives is a synthetic error, and no URL B is sent to
(redirect targets, the manifest's Location / BaseURL / template URLs, the player page's
manifest URL) carries an option only A sent.  After every request the process-wide constants
(`c16_state.snapshot`) are compared: a change is reported with the request that caused it,
next to the first visible consequence.
"""
from __future__ import annotations

import contextlib
import re
import urllib.parse

import c16_http
import c16_state
import segwalk

A_OPTIONS = [
    [["verr", "503=2"]], [["verr", "503=2"], ["failures", "1"]], [["aerr", "404=1,503=3"]],
    [["merr", "503=0"], ["update", "0"]], [["verr", "599=1"], ["aerr", "599=1"], ["failures", "2"]],
    [["vcorrupt", "1,2"], ["frames", "2"]], [["drm", "all"]], [["verr", "410=3"], ["depth", "30"]],
    [["events", "ping"], ["ping__count", "3"], ["verr", "504=2"]], [["bugs", "saio"], ["terr", "503=1"]],
]
A_ONLY_NAMES = {"verr", "aerr", "terr", "merr", "failures", "vcorrupt", "frames", "update", "bugs", "events",
                "ping__count"}


def entries(P: dict) -> list:
    """entry routes that lead to media: (label, path, default query)"""
    out = []
    for stream in ("bbb", "tears"):
        for mode in ("vod", "live"):
            out.append((f"v3:{mode}:{stream}", f"/dash/{mode}/{stream}/hand_made.mpd", []))
        out.append((f"v3:live:{stream}:n", f"/dash/live/{stream}/manifest_n.mpd", []))
        for name in ("hand_made.mpd", "manifest_vod.mpd", "enc.mpd"):
            out.append((f"legacy-v2:{stream}:{name}", f"/dash/{stream}/{name}", []))
        out.append((f"player:{stream}", f"/play/vod/{stream}/hand_made/index.html", []))
        out.append((f"player-live:{stream}", f"/play/live/{stream}/hand_made/index.html", []))
    for name in ("hand_made.mpd", "manifest_vod.mpd", "enc.mpd"):
        out.append((f"legacy-v1:{name}", f"/dash/{name}", []))
    out.append(("legacy-v1:live", "/dash/hand_made.mpd", [["mode", "live"]]))
    for mps in P["mps"]:
        if mps == "c16mps":            # the other multi-period streams of the world cannot be presented (404)
            out.append((f"mps:{mps}:vod", f"/mps/vod/{mps}/hand_made.mpd", []))
            out.append((f"mps:{mps}:live", f"/mps/live/{mps}/hand_made.mpd", []))
            out.append((f"player-mps:{mps}", f"/play/mps/vod/{mps}/hand_made/index.html", []))
    return out


def _rel(url: str) -> str:
    u = urllib.parse.urlsplit(url)
    return u.path + ("?" + u.query if u.query else "")


def option_names(url: str) -> set:
    return {k for k, _ in urllib.parse.parse_qsl(urllib.parse.urlsplit(url).query, keep_blank_values=True)}


class Player:
    """one client (own cookie jar)"""

    def __init__(self, app, name: str, watcher=None):
        self.c = app.client()
        self.name = name
        self.watcher = watcher

    def get(self, url: str, trace: list):
        with contextlib.redirect_stdout(c16_http._DEVNULL):
            r = self.c.get(url)
        body = r.get_data()
        rec = {"client": self.name, "url": url, "status": r.status_code,
               "location": r.headers.get("Location"),
               "synthetic": body[:10] == b"Synthetic "}
        trace.append(rec)
        if self.watcher is not None:
            self.watcher(rec)
        return r, body

    def play(self, path: str, query: list, per_rep: int = 2, max_reps: int = 4) -> list:
        """→ trace: every request made, with status / redirect target / synthetic flag and, for
        manifests and pages, the URLs they spell out (`urls`)"""
        trace: list = []
        url = c16_http.build_url(path, query)
        for _ in range(4):                      # follow redirects like a player
            r, body = self.get(url, trace)
            if r.status_code in (301, 302, 303, 307, 308) and r.headers.get("Location"):
                url = _rel(r.headers["Location"])
                continue
            break
        if r.status_code != 200:
            return trace
        ctype = r.headers.get("Content-Type", "")
        if "html" in ctype:
            m = re.search(rb'"source":\s*"([^"]+)"', body) or re.search(rb"source\s*[:=]\s*'([^']+)'", body) \
                or re.search(rb'(https?://[^"\'<> ]+\.mpd[^"\'<> ]*)', body)
            if not m:
                return trace
            murl = _rel(m.group(1).decode().replace("\\u0026", "&").replace("&amp;", "&").replace("\\/", "/"))
            trace[-1]["urls"] = [murl]
            r, body = self.get(murl, trace)
            url = murl
            if r.status_code != 200:
                return trace
        try:
            mpd = segwalk.parse_mpd("http://localhost" + url, body)
        except Exception as e:      # noqa: BLE001
            trace[-1]["parse_error"] = f"{type(e).__name__}: {e}"
            return trace
        urls = [m.decode() for m in re.findall(rb"<Location>([^<]+)</Location>", body)]
        seg_urls = []
        for rep in mpd.reps[:max_reps]:
            if rep.init:
                seg_urls.append(_rel(rep.init_url()))
            if rep.media is None:
                continue
            if rep.timeline and "$Time$" in rep.media:
                for t, _d in rep.timeline[:per_rep]:
                    seg_urls.append(_rel(rep.media_url(time=t)))
            elif "$Number$" in rep.media:
                first = rep.start_number
                if mpd.type == "dynamic":
                    try:
                        import appboot
                        import datetime
                        now_us = int(datetime.datetime.now(tz=datetime.timezone.utc).timestamp() * 1000000)
                        win = segwalk.number_window(mpd, rep, now_us)
                        first = win[max(0, len(win) - per_rep - 1)] if win else first
                    except Exception:      # noqa: BLE001
                        pass
                for n in range(first, first + per_rep):
                    seg_urls.append(_rel(rep.media_url(number=n)))
        trace[-1]["urls"] = urls + seg_urls
        for u in seg_urls:
            self.get(u, trace)
        return trace


def url_option_names(trace: list) -> set:
    out = set()
    for rec in trace:
        for u in ([rec["location"]] if rec.get("location") else []) + rec.get("urls", []) + [rec["url"]]:
            out |= option_names(u)
    return out


def judge_b(trace: list, a_names: set, baseline: set | None = None) -> list:
    """the property for a client that asked for nothing.  `baseline`: the option names that appear in
    the URLs B was given when it played the same entry before A did (an entry may add options of its
    own, e.g. the legacy name enc.mpd adds drm=all) – anything beyond it that A sent is a leak"""
    if baseline is not None:
        a_names = a_names - baseline
    fails = []
    for i, rec in enumerate(trace):
        if rec["synthetic"]:
            fails.append({"req": i, "url": rec["url"], "what": f"client B received a synthetic {rec['status']} it never asked for"})
        elif rec["status"] >= 500:
            fails.append({"req": i, "url": rec["url"], "what": f"client B received status {rec['status']}"})
        for u in ([rec["location"]] if rec.get("location") else []) + rec.get("urls", []):
            leaked = option_names(u) & a_names
            if leaked:
                fails.append({"req": i, "url": rec["url"],
                              "what": f"client B is sent to a URL that carries options only client A sent: "
                                      f"{sorted(leaked)} in {u[:200]}"})
                break
    return fails


_BASELINE: dict = {}


def run_history(app, entry, a_query: list, order: str = "BAB") -> dict:
    """B0 plays the entry, A plays it with its options, B1 plays it again (order 'BAB'); 'AB': A first"""
    label, path, q0 = entry
    changes = []
    state = {"snap": c16_state.fast(), "hash": c16_state.shallow()}

    def watcher(rec):
        h = c16_state.shallow()
        if h == state["hash"]:
            return
        state["hash"] = h
        snap = c16_state.fast()
        d = c16_state.diff(state["snap"], snap)
        if d:
            changes.append({"after_request": {k: rec[k] for k in ("client", "url", "status")}, "changed": d})
        state["snap"] = snap

    a = Player(app, "A", watcher)
    b = Player(app, "B", watcher)
    steps = []
    a_names = {k for k, _ in a_query} & A_ONLY_NAMES | ({"drm"} if any(k == "drm" for k, _ in a_query) else set())
    fails = []
    a_played = False
    for who in order:
        if who == "A":
            steps.append({"client": "A", "trace": a.play(path, q0 + a_query)})
            a_played = True
        else:
            tr = b.play(path, q0)
            steps.append({"client": "B", "trace": tr})
            if not a_played and label not in _BASELINE:
                _BASELINE[label] = url_option_names(tr)      # what the entry adds by itself
            for f in judge_b(tr, a_names, _BASELINE.get(label)):
                fails.append({**f, "play": len(steps) - 1})
    return {"entry": label, "path": path, "query": q0, "a_query": a_query, "order": order,
            "steps": steps, "fails": fails, "constant_changes": changes}
