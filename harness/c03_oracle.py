"""Layer-C oracle of C03: the property text evaluated with mp4walk on the bytes
of a served media segment versus the bytes of the stored segment.

Written from /verif/properties.jsonl (C03) only; shares nothing with the Lean
model or with dashlive.  `check(stored, served, bug_saio=..., trex=...)` returns
a list of failed clauses (empty = property holds for this pair).

Clauses (ids are stable, they appear in replays and in the ledger):
  malformed        served bytes are not a sequence of exactly nested boxes
  shape            served bytes do not contain exactly one moof with one traf/tfhd/trun and one mdat
  mdat             mdat payload differs from the stored segment's mdat payload
  trun-offset      base + trun.data_offset is not the first payload byte
  trun-sizes       sample sizes do not sum to the payload length
  saio             (encrypted) base + saio.offset[0] is not the position of the first senc sample entry
                   -- permitted (only) when the `saio` bug-compatibility option was requested
  senc-count       (encrypted) senc and trun list different numbers of samples
`premise` is reported separately: the stored segment itself does not satisfy the
clauses (then the pair is outside the property's quantifier and is not judged).

`base` is the explicit tfhd.base_data_offset when present, else the position of
the enclosing moof (default-base-is-moof, or neither flag, first traf), in the
coordinate system of the byte string examined (a served segment is a resource
of its own: offset 0 is its first byte).
"""
from __future__ import annotations

from typing import Optional

import mp4walk


def view(data: bytes, iv_size: Optional[int] = None, trex: Optional[dict] = None, base: int = 0) -> dict:
    """the facts the property speaks about, read from one segment's bytes (`base`:
    position of data[0] in the coordinate system offsets are to be judged in).
    Raises mp4walk.WalkError when the bytes are not well-formed."""
    boxes = mp4walk.walk(data, iv_size=iv_size, base=base)
    moofs = [b for b in boxes if b.type == "moof"]
    mdats = [b for b in boxes if b.type == "mdat"]
    v: dict = {"boxes": boxes, "top": [(b.name, b.start, b.size) for b in boxes],
               "n_moof": len(moofs), "n_mdat": len(mdats)}
    if len(moofs) != 1 or len(mdats) != 1:
        v["shape_error"] = f"{len(moofs)} moof / {len(mdats)} mdat boxes"
        return v
    moof, mdat = moofs[0], mdats[0]
    trafs = mp4walk.find_all(moof, "traf")
    if len(trafs) != 1:
        v["shape_error"] = f"{len(trafs)} traf boxes"
        return v
    traf = trafs[0]
    tfhds = mp4walk.find_all(traf, "tfhd")
    truns = mp4walk.find_all(traf, "trun")
    if len(tfhds) != 1 or len(truns) != 1:
        v["shape_error"] = f"{len(tfhds)} tfhd / {len(truns)} trun boxes"
        return v
    tfhd, trun = tfhds[0], truns[0]
    r = mp4walk.resolve_trun(traf, trex)[id(trun)]
    base = tfhd["base_data_offset"] if tfhd["base_data_offset"] is not None else moof.start
    v.update(moof=moof, mdat=mdat, traf=traf, tfhd=tfhd, trun=trun, base=base,
             payload=(mdat.payload_start, mdat.end),
             data_start=base + (trun["data_offset"] or 0),
             sizes_total=r["total_size"], trun_count=trun["sample_count"],
             mfhd=mp4walk.find(moof, "mfhd"), tfdt=mp4walk.find(traf, "tfdt"),
             saiz=mp4walk.find(traf, "saiz"), saio=mp4walk.find(traf, "saio"),
             senc=mp4walk.find(traf, "senc"), piff=mp4walk.find_all(traf, "piff"))
    return v


def clauses(v: dict, payload_ref: Optional[bytes], data: bytes, base: int = 0) -> list[dict]:
    """property clauses evaluated on one view (payload_ref None: skip the mdat clause)"""
    out = []
    if "shape_error" in v:
        return [{"clause": "shape", "detail": v["shape_error"]}]
    p0, p1 = v["payload"]
    if payload_ref is not None and data[p0 - base:p1 - base] != payload_ref:
        got = data[p0 - base:p1 - base]
        n = min(len(got), len(payload_ref))
        fd = next((i for i in range(n) if got[i] != payload_ref[i]), n)
        out.append({"clause": "mdat", "detail": f"payload of {p1 - p0} bytes differs from the stored "
                                                 f"payload of {len(payload_ref)} bytes (whole payload compared; "
                                                 f"first differing offset {fd})"})
    if v["data_start"] != p0:
        out.append({"clause": "trun-offset",
                    "detail": f"base {v['base']} + data_offset {v['trun']['data_offset']} = {v['data_start']}, "
                              f"first payload byte is at {p0}"})
    if v["sizes_total"] is None:
        out.append({"clause": "trun-sizes", "detail": "a sample size is neither in trun, tfhd nor trex"})
    elif v["sizes_total"] != p1 - p0:
        out.append({"clause": "trun-sizes",
                    "detail": f"sample sizes sum to {v['sizes_total']}, payload has {p1 - p0} bytes"})
    senc, saio = v["senc"], v["saio"]
    if senc is not None:
        if saio is not None:
            offs = saio["offsets"]
            want = senc["first_sample_pos"]
            if senc["sample_count"] > 0 and (len(offs) < 1 or v["base"] + offs[0] != want):
                out.append({"clause": "saio",
                            "detail": f"base {v['base']} + saio.offsets {offs} does not address the first "
                                      f"senc sample entry at {want}"})
        if senc["sample_count"] != v["trun_count"]:
            out.append({"clause": "senc-count",
                        "detail": f"senc lists {senc['sample_count']} samples, trun {v['trun_count']}"})
    return out


def check(stored: bytes, served: bytes, bug_saio: bool = False, iv_size: Optional[int] = None,
          trex: Optional[dict] = None, stored_pos: int = 0) -> dict:
    """evaluate C03 on (stored segment bytes, served segment bytes).  `stored_pos`
    is the position of the stored segment in its file: the stored segment is
    judged in file coordinates (an explicit base_data_offset in a stored file is a
    file offset), the served one as a resource of its own.
    Returns {'premise': [...], 'failures': [...]}; judged only when premise == []."""
    res = {"premise": [], "failures": []}
    try:
        sv = view(stored, iv_size, trex, base=stored_pos)
    except mp4walk.WalkError as e:
        res["premise"].append({"clause": "malformed", "detail": f"stored: {e}"})
        return res
    res["premise"] = clauses(sv, None, stored, base=stored_pos)
    if res["premise"]:
        return res
    ref = stored[sv["payload"][0] - stored_pos:sv["payload"][1] - stored_pos]
    try:
        tv = view(served, iv_size, trex)
    except mp4walk.WalkError as e:
        res["failures"].append({"clause": "malformed", "detail": str(e)})
        return res
    fails = clauses(tv, ref, served)
    if "shape_error" not in tv and (sv["senc"] is not None) and tv["senc"] is None:
        fails.append({"clause": "shape", "detail": "stored segment has a senc box, served one has none"})
    if bug_saio:
        # the only permitted deviation: a stale saio offset
        fails = [f for f in fails if f["clause"] != "saio"]
    res["failures"] = fails
    return res
