#!/venv/bin/python
"""Translator: the straight-line integer arithmetic of a few functions on the serving path is
translated from /repo's *source text* (Python `ast`) into Lean definitions
(`lean/DashLive/Gen/Arith.lean`) on every run.  `lean/DashLive/Props/GenTie.lean` proves that
each generated definition equals the hand-written model the property theorems are about,
so an edit of one of these expressions either is re-proved equal or breaks a proof
obligation (and the correspondence channels then look for the failing input).

Supported subset: assignments / augmented assignments to local names, `return`, integer
constants, names, `self.<attr>` and `<param>.<attr>`, `+ - * // >>`, `int(x)` (identity on
integers), `datetime.timedelta(microseconds=x)` (the result is modelled as x µs), tuples.
Python's floor division is `Int.fdiv`, `x >> k` is `Int.fdiv x (2^k)`.  Anything else raises
`CannotTranslate` – reported by check.py as a broken translator obligation.

Loops (`get_segment_index`): a `while <cmp>:` whose body consists of assignments, augmented
assignments and `if <cmp>:` blocks (no else) of the same is translated into a structurally
recursive Lean function over a fuel argument – parameters are the free names of the loop
(by *name*, so the tie theorems use named arguments and do not depend on their order), the
state is the tuple of the names the body assigns.  At fuel 0 the current state is returned;
`Lemmas/Segments.lean` (`getSegmentIndex_eq`) shows `n + 1` iterations always suffice.
`self.segments[i].duration` becomes `segDur i` for a parameter `segDur : Int → Int`;
`<alias>.media_duration_using_timescale(x)` becomes a call of the translated definition;
`assert` and `logging.*` statements are skipped (asserts are listed in the doc comment).
"""
from __future__ import annotations

import ast
import os
from pathlib import Path

REPO = Path(os.environ.get("DASHLIVE_REPO", "/repo"))
OUT = Path(__file__).resolve().parent.parent / "lean" / "DashLive" / "Gen" / "Arith.lean"


class CannotTranslate(Exception):
    pass


def find_func(tree, cls, func):
    body = tree.body
    if cls:
        for n in body:
            if isinstance(n, ast.ClassDef) and n.name == cls:
                body = n.body
                break
        else:
            raise CannotTranslate(f"class {cls} not found")
    for n in body:
        if isinstance(n, ast.FunctionDef) and n.name == func:
            return n
    raise CannotTranslate(f"function {func} not found")


class Tr:
    def __init__(self, attrs: dict, params: list):
        self.attrs = attrs          # ("self","x") -> lean name
        self.env = {p: p for p in params}
        self.lets: list[str] = []
        self.n = 0
        self.uses_segdur = False
        self.methods: dict = {}      # (alias, method) -> (lean function, [leading lean args])
        self.aliases: dict = {}      # python expression text -> alias kind
        self.loops: list[str] = []   # auxiliary definitions (one per while loop)
        self.asserts: list[str] = []
        self.fname = "f"

    def expr(self, e) -> str:
        if isinstance(e, ast.Constant) and isinstance(e.value, int) and not isinstance(e.value, bool):
            return f"({e.value} : Int)"
        if isinstance(e, ast.Name):
            if e.id in self.env:
                return self.env[e.id]
            raise CannotTranslate(f"unknown name {e.id}")
        if isinstance(e, ast.Attribute) and isinstance(e.value, ast.Name):
            key = (e.value.id, e.attr)
            if key in self.attrs:
                return self.attrs[key]
            raise CannotTranslate(f"unknown attribute {e.value.id}.{e.attr}")
        if (isinstance(e, ast.Attribute) and e.attr == "duration" and isinstance(e.value, ast.Subscript)
                and isinstance(e.value.value, ast.Attribute) and e.value.value.attr == "segments"
                and isinstance(e.value.value.value, ast.Name) and e.value.value.value.id == "self"):
            self.uses_segdur = True
            return f"(segDur {self.expr(e.value.slice)})"
        if (isinstance(e, ast.Call) and isinstance(e.func, ast.Attribute) and isinstance(e.func.value, ast.Name)
                and (e.func.value.id, e.func.attr) in self.methods and not e.keywords):
            fn, pre = self.methods[(e.func.value.id, e.func.attr)]
            return "(" + " ".join([fn] + pre + [self.expr(a) for a in e.args]) + ")"
        if isinstance(e, ast.BinOp):
            a, b = self.expr(e.left), self.expr(e.right)
            if isinstance(e.op, ast.Add):
                return f"({a} + {b})"
            if isinstance(e.op, ast.Sub):
                return f"({a} - {b})"
            if isinstance(e.op, ast.Mult):
                return f"({a} * {b})"
            if isinstance(e.op, ast.FloorDiv):
                return f"(Int.fdiv {a} {b})"
            if isinstance(e.op, ast.RShift):
                if not (isinstance(e.right, ast.Constant) and isinstance(e.right.value, int)):
                    raise CannotTranslate("shift by a non-constant")
                return f"(Int.fdiv {a} ({2 ** e.right.value} : Int))"
            raise CannotTranslate(f"operator {type(e.op).__name__}")
        if isinstance(e, ast.Call):
            f = e.func
            if isinstance(f, ast.Name) and f.id == "int" and len(e.args) in (1, 2) and not e.keywords:
                if len(e.args) == 2:
                    raise CannotTranslate("int(x, base)")
                return self.expr(e.args[0])
            if (isinstance(f, ast.Attribute) and f.attr == "timedelta" and not e.args and len(e.keywords) == 1
                    and e.keywords[0].arg == "microseconds"):
                return self.expr(e.keywords[0].value)
            raise CannotTranslate(f"call {ast.unparse(f)}")
        if isinstance(e, ast.Tuple):
            return "(" + ", ".join(self.expr(x) for x in e.elts) + ")"
        raise CannotTranslate(f"expression {ast.unparse(e)}")

    CMP = {ast.Lt: "<", ast.Gt: ">", ast.LtE: "≤", ast.GtE: "≥", ast.Eq: "=", ast.NotEq: "≠"}

    def cond(self, e) -> str:
        """a comparison of two integer expressions, as a decidable Lean proposition"""
        if isinstance(e, ast.Compare) and len(e.ops) == 1 and type(e.ops[0]) in self.CMP:
            return f"({self.expr(e.left)} {self.CMP[type(e.ops[0])]} {self.expr(e.comparators[0])})"
        raise CannotTranslate(f"condition {ast.unparse(e)}")

    def bind(self, name: str, value: str):
        self.n += 1
        lean = f"{name}_{self.n}"
        self.lets.append(f"let {lean} : Int := {value}")
        self.env[name] = lean

    def stmts(self, body) -> str:
        for s in body:
            if isinstance(s, ast.Expr) and isinstance(s.value, ast.Constant) and isinstance(s.value.value, str):
                continue                      # docstring
            if isinstance(s, ast.Assign) and len(s.targets) == 1 and isinstance(s.targets[0], ast.Name):
                self.bind(s.targets[0].id, self.expr(s.value))
                continue
            if isinstance(s, ast.AnnAssign) and isinstance(s.target, ast.Name) and s.value is not None:
                self.bind(s.target.id, self.expr(s.value))
                continue
            if isinstance(s, ast.AugAssign) and isinstance(s.target, ast.Name) and isinstance(s.op, ast.Add):
                self.bind(s.target.id, f"({self.env[s.target.id]} + {self.expr(s.value)})")
                continue
            if isinstance(s, ast.Return):
                return self.expr(s.value)
            if isinstance(s, ast.Assert):
                self.asserts.append(ast.unparse(s.test))
                continue
            if (isinstance(s, ast.Expr) and isinstance(s.value, ast.Call) and isinstance(s.value.func, ast.Attribute)
                    and isinstance(s.value.func.value, ast.Name) and s.value.func.value.id == "logging"):
                continue
            if isinstance(s, ast.While) and not s.orelse:
                self.while_loop(s)
                continue
            raise CannotTranslate(f"statement {ast.unparse(s)[:60]}")
        raise CannotTranslate("no return")

    # ---- loops -------------------------------------------------------------------------
    @staticmethod
    def assigned(body) -> list:
        out = []
        for s in body:
            if isinstance(s, (ast.Assign, ast.AugAssign, ast.AnnAssign)):
                t = s.targets[0] if isinstance(s, ast.Assign) else s.target
                if not isinstance(t, ast.Name):
                    raise CannotTranslate(f"assignment target {ast.unparse(t)}")
                if t.id not in out:
                    out.append(t.id)
            elif isinstance(s, ast.If) and not s.orelse:
                for v in Tr.assigned(s.body):
                    if v not in out:
                        out.append(v)
            else:
                raise CannotTranslate(f"loop statement {ast.unparse(s)[:60]}")
        return out

    def block(self, body):
        """straight-line block with `if` (no else): updates self.env, appends lets"""
        for s in body:
            if isinstance(s, ast.Assign) and len(s.targets) == 1:
                self.bind(s.targets[0].id, self.expr(s.value))
            elif isinstance(s, ast.AnnAssign) and s.value is not None:
                self.bind(s.target.id, self.expr(s.value))
            elif isinstance(s, ast.AugAssign) and isinstance(s.op, (ast.Add, ast.Sub)):
                op = "+" if isinstance(s.op, ast.Add) else "-"
                self.bind(s.target.id, f"({self.env[s.target.id]} {op} {self.expr(s.value)})")
            elif isinstance(s, ast.If) and not s.orelse:
                c = self.cond(s.test)
                before = dict(self.env)
                self.block(s.body)
                for v in Tr.assigned(s.body):
                    if v not in before:
                        raise CannotTranslate(f"{v} is first assigned inside an `if`")
                    self.bind(v, f"(if {c} then {self.env[v]} else {before[v]})")
            else:
                raise CannotTranslate(f"loop statement {ast.unparse(s)[:60]}")

    def while_loop(self, w: ast.While):
        state = Tr.assigned(w.body)
        for v in state:
            if v not in self.env:
                raise CannotTranslate(f"loop variable {v} is not initialised before the loop")
        # free names / attributes read inside the loop
        free, attrs = [], []
        for node in ast.walk(ast.Module(body=[ast.Expr(w.test)] + w.body, type_ignores=[])):
            if isinstance(node, ast.Name) and isinstance(node.ctx, ast.Load) and node.id not in state \
                    and node.id in self.env and node.id not in free:
                free.append(node.id)
            if isinstance(node, ast.Attribute) and isinstance(node.value, ast.Name) \
                    and (node.value.id, node.attr) in self.attrs and self.attrs[(node.value.id, node.attr)] not in attrs:
                attrs.append(self.attrs[(node.value.id, node.attr)])
        inner = Tr(self.attrs, [])
        inner.methods = self.methods
        inner.env = {v: v for v in free + state}
        test = inner.cond(w.test)
        inner.block(w.body)
        lname = f"{self.fname}_while{len(self.loops) + 1}"
        params = "".join(f" ({p} : Int)" for p in free + attrs)
        sd = " (segDur : Int → Int)"
        pat = ", ".join(state)
        ty = " × ".join(["Int"] * len(state))
        lets = "".join(f"      {l}\n" for l in inner.lets)
        rec_args = " ".join(inner.env[v] for v in state)
        named = " ".join(f"({p} := {p})" for p in free + attrs)
        self.loops.append(
            f"/-- the `while {ast.unparse(w.test)}` loop of `{self.fname}`; state ({pat}) -/\n"
            f"def {lname}{sd}{params} : Nat → {' → '.join(['Int'] * len(state))} → {ty}\n"
            f"  | 0, {pat} => ({pat})\n"
            f"  | fuel+1, {pat} =>\n"
            f"    if {test} then\n{lets}"
            f"      {lname} segDur {named} fuel {rec_args}\n"
            f"    else ({pat})\n")
        self.n += 1
        res = f"w_{self.n}"
        call_named = " ".join(f"({p} := {self.env[p]})" for p in free) + " " + " ".join(f"({p} := {p})" for p in attrs)
        self.lets.append(f"let {res} : {ty} := {lname} segDur {call_named} fuel " + " ".join(self.env[v] for v in state))
        for i, v in enumerate(state):
            proj = res + ".2" * i + (".1" if i < len(state) - 1 else "")
            self.bind(v, proj)
        self.uses_segdur = True


def vod_branch(fn, want_inner_if=None):
    """body of the first `if <x>.mode != 'live':` statement of the function"""
    for s in fn.body:
        if (isinstance(s, ast.If) and isinstance(s.test, ast.Compare) and len(s.test.ops) == 1
                and isinstance(s.test.ops[0], ast.NotEq)
                and isinstance(s.test.left, ast.Attribute) and s.test.left.attr == "mode"
                and isinstance(s.test.comparators[0], ast.Constant) and s.test.comparators[0].value == "live"):
            return s.body
    raise CannotTranslate("`if <timing>.mode != 'live':` branch not found")


def translate() -> str:
    defs = []

    def emit(name, params, tr: Tr, result: str, ret_type: str, doc: str):
        sig = " ".join(f"({p} : Int)" for p in params)
        lets = "".join(f"  {l}\n" for l in tr.lets)
        defs.append(f"/-- {doc} -/\ndef {name} {sig} : {ret_type} :=\n{lets}  {result}\n")

    # 1. StreamTimingReference.media_duration_using_timescale
    t = ast.parse((REPO / "dashlive/mpeg/dash/reference.py").read_text())
    fn = find_func(t, "StreamTimingReference", "media_duration_using_timescale")
    tr = Tr({("self", "media_duration"): "media_duration", ("self", "timescale"): "self_timescale"}, ["timescale"])
    emit("mediaDurationUsingTimescale", ["media_duration", "self_timescale", "timescale"], tr, tr.stmts(fn.body), "Int",
         "reference.py `StreamTimingReference.media_duration_using_timescale`")
    # 2-4. date_time tick helpers
    t = ast.parse((REPO / "dashlive/utils/date_time.py").read_text())
    fn = find_func(t, None, "timecode_to_timedelta")
    tr = Tr({}, ["timecode", "timescale"])
    emit("timecodeToTimedeltaUs", ["timecode", "timescale"], tr, tr.stmts(fn.body), "Int",
         "date_time.py `timecode_to_timedelta` (result in µs)")
    dattrs = {("delta", "days"): "days", ("delta", "seconds"): "seconds", ("delta", "microseconds"): "microseconds"}
    fn = find_func(t, None, "timedelta_to_timecode")
    tr = Tr(dattrs, ["timescale"])
    emit("timedeltaToTimecode", ["days", "seconds", "microseconds", "timescale"], tr, tr.stmts(fn.body), "Int",
         "date_time.py `timedelta_to_timecode` (delta given by its days/seconds/microseconds fields)")
    fn = find_func(t, None, "multiply_timedelta")
    tr = Tr(dattrs, ["num"])
    emit("multiplyTimedelta", ["days", "seconds", "microseconds", "num"], tr, tr.stmts(fn.body), "Int",
         "date_time.py `multiply_timedelta`")
    # 5-6. VOD branches of Representation
    t = ast.parse((REPO / "dashlive/mpeg/dash/representation.py").read_text())
    rattrs = {("self", "start_number"): "start_number", ("self", "num_media_segments"): "num_media_segments",
              ("self", "segment_duration"): "segment_duration"}
    fn = find_func(t, "Representation", "calculate_first_and_last_segment_number")
    tr = Tr(rattrs, [])
    emit("vodFirstLast", ["start_number", "num_media_segments"], tr, tr.stmts(vod_branch(fn)), "Int × Int",
         "representation.py `calculate_first_and_last_segment_number`, branch `mode != 'live'`")
    fn = find_func(t, "Representation", "calculate_segment_number_and_time")
    body = vod_branch(fn)
    # `if segment_num is None: <two assignments>` – the $Time$ path
    inner = next((s for s in body if isinstance(s, ast.If) and isinstance(s.test, ast.Compare)
                  and isinstance(s.test.ops[0], ast.Is) and isinstance(s.test.left, ast.Name)
                  and s.test.left.id == "segment_num"), None)
    if inner is None:
        raise CannotTranslate("`if segment_num is None:` not found in the VOD branch")
    tr = Tr(rattrs, ["segment_time"])
    for s in inner.body:
        if isinstance(s, ast.Assign):
            tr.bind(s.targets[0].id, tr.expr(s.value))
        else:
            raise CannotTranslate(f"statement {ast.unparse(s)[:60]}")
    rest = [s for s in body if s is not inner]
    # remaining statements: `mod_segment = …` then `return SegmentNumberAndTime(segment_num, mod_segment, 0)`
    for s in rest:
        if isinstance(s, ast.Assign):
            tr.bind(s.targets[0].id, tr.expr(s.value))
        elif isinstance(s, ast.Return) and isinstance(s.value, ast.Call) and len(s.value.args) == 3:
            res = "(" + ", ".join(tr.expr(a) for a in s.value.args) + ")"
        else:
            raise CannotTranslate(f"statement {ast.unparse(s)[:60]}")
    emit("vodTimeToSegment", ["segment_time", "start_number", "segment_duration"], tr, res, "Int × Int × Int",
         "representation.py `calculate_segment_number_and_time`, VOD branch for a `$Time$` request: "
         "(segment_num, mod_segment, origin_time)")
    # 7. Representation.get_segment_index (with its while loop)
    fn = find_func(t, "Representation", "get_segment_index")
    gattrs = {("self", "num_media_segments"): "num_media_segments", ("self", "timescale"): "timescale"}
    tr = Tr(gattrs, ["timecode"])
    tr.fname = "getSegmentIndex"
    body = []
    for s in fn.body:
        # `stream_ref = self._timing.stream_reference` – an alias for the timing reference object
        if (isinstance(s, ast.Assign) and isinstance(s.targets[0], ast.Name)
                and ast.unparse(s.value) == "self._timing.stream_reference"):
            tr.methods[(s.targets[0].id, "media_duration_using_timescale")] = (
                "mediaDurationUsingTimescale", ["ref_media_duration", "ref_timescale"])
            continue
        body.append(s)
    result = tr.stmts(body)
    lets = "".join(f"  {l}\n" for l in tr.lets)
    asserts = "; ".join(tr.asserts)
    defs.extend(tr.loops)
    defs.append(
        "/-- representation.py `Representation.get_segment_index`: (mod_segment, seg_start_tc, origin_time); "
        f"`fuel` bounds the loop; asserts skipped: {asserts} -/\n"
        "def getSegmentIndex (segDur : Int → Int) (ref_media_duration : Int) (ref_timescale : Int) (timescale : Int) "
        "(num_media_segments : Int) (timecode : Int) (fuel : Nat) : Int × Int × Int :=\n"
        f"{lets}  {result}\n")
    head = ("/-! GENERATED by harness/gen_arith.py from /repo's source text (Python ast) – do not edit.\n"
            "Straight-line integer arithmetic of functions on the serving path; `Props/GenTie.lean`\n"
            "proves each definition equal to the hand-written model. -/\nnamespace DashLive.Gen.Arith\n\n")
    return head + "\n".join(defs) + "\nend DashLive.Gen.Arith\n"


def main():
    src = translate()
    if not OUT.exists() or OUT.read_text() != src:
        OUT.write_text(src)


if __name__ == "__main__":
    main()
    print(OUT.read_text())
