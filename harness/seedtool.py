#!/usr/bin/env python3
"""Coordinator's helper for the seeded-defect protocol (DESIGN.md §14).

    seedtool.py verify <PID> <name> [--checks C01,C02] [--seeds 0,1]

Takes the deliverables of an independent sub-agent in /tmp/seed-out-<PID> (patch.diff,
demo.py, meta.json) and its worktree /tmp/seed-<PID>; confirms (a) the pinned suite on
the modified tree, (b) demo exit 1 on the modified tree / 0 on a clean worktree, then runs
the registered quick check(s) against the modified tree (DASHLIVE_REPO) and records
everything under /verif/seeded/<name>/ (patch.diff, demo.py, meta.json).
"""
import argparse
import json
import os
import re
import shutil
import subprocess
import sys
from pathlib import Path

VERIF = Path(__file__).resolve().parent.parent
PY = "/venv/bin/python"


def run(cmd, cwd=None, env=None, timeout=3000):
    e = dict(os.environ)
    if env:
        e.update(env)
    p = subprocess.run(cmd, cwd=cwd, env=e, text=True, capture_output=True, timeout=timeout)
    return p.returncode, p.stdout + p.stderr


def main():
    ap = argparse.ArgumentParser()
    ap.add_argument("cmd", choices=["verify"])
    ap.add_argument("pid")
    ap.add_argument("name")
    ap.add_argument("--checks")
    ap.add_argument("--seeds", default="0")
    ap.add_argument("--clean", default="/tmp/seed-clean")
    ap.add_argument("--note", default="")
    a = ap.parse_args()
    wt, out = Path(f"/tmp/seed-{a.pid}"), Path(f"/tmp/seed-out-{a.pid}")
    checks = (a.checks or a.pid).split(",")
    res = {}
    rc, o = run([PY, "-m", "pytest", "-q", "-p", "no:cacheprovider", "--timeout=900",
                 "--continue-on-collection-errors"], cwd=wt)
    res["pinned_suite_on_modified_tree"] = o.strip().splitlines()[-1]
    rc1, _ = run([PY, str(out / "demo.py"), str(wt)])
    rc0, _ = run([PY, str(out / "demo.py"), a.clean])
    res["demo_on_modified_tree"] = f"exit {rc1}"
    res["demo_on_clean_tree"] = f"exit {rc0}"
    print(json.dumps(res, indent=1))
    outcomes = []
    for c in checks:
        for seed in a.seeds.split(","):
            rc, o = run([PY, "harness/check.py", c, "--tier", "quick"], cwd=VERIF,
                        env={"DASHLIVE_REPO": str(wt), "VERIF_SEED": seed})
            lines = [ln for ln in o.splitlines() if re.search(r"VIOLATION|channel |exit=", ln)]
            print("\n".join(lines))
            outcomes.append({"check": c, "seed": int(seed), "exit": rc,
                             "violation_line": next((ln for ln in lines if "VIOLATION" in ln), None),
                             "channels": [ln.split("] ", 1)[-1] for ln in lines if "channel " in ln]})
    d = VERIF / "seeded" / a.name
    d.mkdir(parents=True, exist_ok=True)
    shutil.copy(out / "patch.diff", d / "patch.diff")
    shutil.copy(out / "demo.py", d / "demo.py")
    agent = json.loads((out / "meta.json").read_text())
    caught = any(o_["exit"] == 1 for o_ in outcomes)
    meta = {"property": a.pid, "summary": agent.get("summary"), "needs": agent.get("needs"),
            "files": agent.get("files"), "confirmed": res,
            "check_result": {"runs": outcomes, "caught": caught, "note": a.note},
            "author": "independent sub-agent given only the property text and a scratch worktree"}
    (d / "meta.json").write_text(json.dumps(meta, indent=1))
    print("caught" if caught else "MISSED", "->", d)


if __name__ == "__main__":
    main()
