"""Helpers of the C12 check: multi-period stream definitions (generated, created through
the application's own DB models), manifest rendering with capture of the template
context, and the independent (property-text) arithmetic of the oracle.

Nothing here imports the Lean model or dashlive's own segment arithmetic: the nearest-start
search, the admitted-number rule and the live window are re-derived from the property
statement in exact integer arithmetic.
"""
from __future__ import annotations

import dataclasses
import datetime
import itertools
import json
import math
from dataclasses import dataclass, field

import appboot
import segchecks
import segwalk

# streams of the shared app the generators use (segchecks.ensure_streams): the two fixtures plus synthetic
# streams that each contribute one shape of stored media – syn1 irregular durations; syn2 90 kHz, audio without
# tfdt boxes and longer than the reference; syn3 fragments numbered from 7; syn4 audio is the (fractional)
# timing reference; syn5 fragments numbered from 0, power-of-two loop; syn7 NTSC 30000/1001; syn8 two
# segments (the minimum); syn9 stored stream defaults, one very long and one short interior segment.
# (syn6 – first decode time != 0 – is outside the proved hypotheses: ledger D25.)
# c12t1 / c12t2 (registered by ensure_streams below): timing references that do not last a whole number of
# seconds AND end with a segment shorter than that fractional second (8.8 s = 4 + 4 + 0.8; 4.5 s = 0.3 + 2 + 2
# + 0.2, also a short FIRST segment) – the tail of the media lies after floor(duration in seconds)
STREAMS = ("bbb", "tears", "syn1", "syn2", "syn3", "syn4", "syn5", "syn7", "syn8", "syn9", "c12t1", "c12t2")
# track ids each stream offers (content type by track id); video (1) is always needed:
# create_period() asserts a video adaptation set
TRACKS = {
    "bbb": {1: "video", 2: "audio", 3: "audio", 4: "text"},
    "tears": {1: "video", 2: "audio"},
}
for _s in ("syn1", "syn2", "syn3", "syn4", "syn5", "syn6", "syn7", "syn8", "syn9", "c12t1", "c12t2"):
    TRACKS[_s] = {1: "video", 2: "audio"}
_counter = itertools.count(1)
UTC = datetime.timezone.utc


@dataclass
class PDef:
    pid: str
    stream: str
    start_us: int
    duration_us: int
    tracks: list

    def json(self):
        return dataclasses.asdict(self)


@dataclass
class Defn:
    periods: list
    name: str = ""
    pks: dict = field(default_factory=dict)     # pid -> Period.pk once created

    def json(self):
        return {"periods": [p.json() for p in self.periods]}

    @staticmethod
    def from_json(js):
        return Defn([PDef(**p) for p in js["periods"]])

    def defs_arg(self):
        if not self.periods:
            return "-"
        return ",".join(f"{p.pid}:{p.duration_us}" for p in self.periods)

    def total_us(self):
        """total *presentation* duration (what the builders tile the timeline with)"""
        return sum(quantise(p.duration_us) for p in self.periods)


_OWN_STREAMS = False


def ensure_streams(app: appboot.App):
    """the C12-only synthetic streams (fractional-second reference with a short last / first segment)"""
    global _OWN_STREAMS
    if _OWN_STREAMS:
        return
    import mp4synth
    v = mp4synth.make_track("video", 240, [960, 960, 192], samples_per_segment=[4, 4, 2], seed=1201, track_id=1)
    a = mp4synth.make_track("audio", 48000, [192512, 191488, 38400], samples_per_segment=[188, 187, 50],
                            seed=1202, track_id=2, sample_durations_in="trun")
    mp4synth.register(app, "c12t1", "C12 8.8 s, last segment 0.8 s", {"c12t1_v1": v, "c12t1_a1": a},
                      timing_from="c12t1_v1")
    v = mp4synth.make_track("video", 1000, [300, 2000, 2000, 200], samples_per_segment=[3, 4, 4, 2], seed=1203,
                            track_id=1)
    a = mp4synth.make_track("audio", 44100, [13230, 88200, 88200, 8820], samples_per_segment=[15, 90, 90, 10],
                            seed=1204, track_id=2, sample_durations_in="trun")
    mp4synth.register(app, "c12t2", "C12 4.5 s, first 0.3 s, last 0.2 s", {"c12t2_v1": v, "c12t2_a1": a},
                      timing_from="c12t2_v1")
    _OWN_STREAMS = True


def quantise(us: int) -> int:
    """a stored Period duration as the manifest presents it: rounded half up to a millisecond
    (the resolution of xs:duration text)"""
    return (us + 500) // 1000 * 1000


def td(us: int) -> datetime.timedelta:
    return datetime.timedelta(microseconds=us)


def td_us(d: datetime.timedelta) -> int:
    return (d.days * 86400 + d.seconds) * 1_000_000 + d.microseconds


def create(app: appboot.App, defn: Defn, name: str | None = None) -> Defn:
    """create the multi-period stream through the application's DB models"""
    defn.name = name or f"c12mps{next(_counter)}"
    with app.ctx() as models:
        from dashlive.mpeg.dash.content_role import ContentRole
        mps = models.MultiPeriodStream(name=defn.name, title=f"C12 {defn.name}")
        models.db.session.add(mps)
        rows = []
        for idx, p in enumerate(defn.periods, start=1):
            stream = models.Stream.get(directory=p.stream)
            assert stream is not None, p.stream
            prd = models.Period(pid=p.pid, parent=mps, ordering=idx, stream=stream,
                                start=td(p.start_us), duration=td(p.duration_us))
            models.db.session.add(prd)
            rows.append((p, prd))
            main_audio = True
            for tid in p.tracks:
                ct = models.ContentType.get(name=TRACKS[p.stream][tid])
                role = ContentRole.MAIN
                if TRACKS[p.stream][tid] == "audio":
                    role = ContentRole.MAIN if main_audio else ContentRole.ALTERNATE
                    main_audio = False
                models.db.session.add(models.AdaptationSet(
                    period=prd, track_id=tid, role=role, content_type=ct))
        models.db.session.commit()
        defn.pks = {p.pid: prd.pk for p, prd in rows}
    return defn


def delete(app: appboot.App, defn: Defn):
    with app.ctx() as models:
        mps = models.MultiPeriodStream.get(name=defn.name)
        if mps is not None:
            models.db.session.delete(mps)
            models.db.session.commit()


class Capture:
    """records the `mpd` object (ManifestContext) every manifest template is rendered with"""

    def __init__(self, app: appboot.App):
        import flask
        self.last = None
        self._sig = flask.template_rendered
        self._app = app.app
        self._fn = self._rec

    def _rec(self, sender, template, context, **kw):
        if "mpd" in context and hasattr(context["mpd"], "periods"):
            self.last = context["mpd"]

    def __enter__(self):
        self._sig.connect(self._fn, self._app)
        return self

    def __exit__(self, *a):
        self._sig.disconnect(self._fn, self._app)
        return False


@dataclass
class Built:
    """what the real period builders produced for one manifest request"""
    status: int
    periods: list = None          # [(id, start_us, dur_us|None)]
    media_duration_us: int | None = None
    ast_us: int | None = None
    E_us: int | None = None
    tsbd_s: int | None = None
    body: bytes = b""


def render(client, cap: Capture, clock, url: str, now) -> Built:
    clock.set(now)
    cap.last = None
    r = client.get(url)
    b = Built(status=r.status_code, body=r.data)
    ctx = cap.last
    if r.status_code != 200 or ctx is None:
        return b
    b.periods = [(p.id, td_us(p.start), td_us(p.duration) if p.duration is not None else None)
                 for p in ctx.periods]
    md = getattr(ctx, "mediaDuration", None)
    if isinstance(md, datetime.timedelta):
        b.media_duration_us = td_us(md)
    if getattr(ctx, "options", None) is not None and ctx.options.mode == "live":
        b.ast_us = segchecks.us_since_epoch(ctx.availabilityStartTime)
        b.E_us = td_us(ctx.elapsedTime)
        b.tsbd_s = int(ctx.timeShiftBufferDepth)
    return b


# ------------------------------------------------------------------ property-text arithmetic

def float_start_ref(start_us: int, ref_ts: int) -> int:
    """the one float step the handler performs on the period's source offset"""
    return int(math.floor(td(start_us).total_seconds() * ref_ts))


def nearest_candidates(durs: list, ts: int, start_us: int, ref_ts: int) -> set:
    """stored segments (0-based) whose start is nearest the Period's source offset, in exact
    rational arithmetic.  The service takes the offset on the grid of the stream's timing
    reference (floor to a reference tick, e.g. 1/240 s, then floor to a track tick, and the
    half of an odd duration is floored): the position it compares is up to
    e = ts/ref_ts + 2 track ticks below the exact one, which moves the *difference* of two
    distances by up to 2e – any start within that of the best counts as nearest."""
    starts = [0]
    for d in durs[:-1]:
        starts.append(starts[-1] + d)
    # distances scaled by 10^6 (exact): |P_j * 10^6 - start_us * ts|
    dist = [abs(p * 1_000_000 - start_us * ts) for p in starts]
    best = min(dist)
    tol = 2 * (2 + -(-ts // ref_ts)) * 1_000_000
    return {j for j, x in enumerate(dist) if x <= best + tol}


def offset_inside_source(durs: list, ts: int, start_us: int) -> bool:
    """the Period's source offset lies in the stored media of this track"""
    return start_us * ts < sum(durs) * 1_000_000


def admitted(sd: int, ts: int, dur_us: int) -> int:
    """how many numbers a Period of `dur_us` admits for SegmentTemplate@duration=sd,
    @timescale=ts: segment k is admitted when it starts inside the Period"""
    if dur_us <= 0:
        return 0
    return -(-(dur_us * ts) // (sd * 1_000_000))


def model_i0(durs: list, R: int, tc: int) -> int:
    """generator-side copy of the selection rule (used only to keep generated definitions
    inside the proved hypotheses, never as an oracle): least i with P_i + d_i//2 >= tc"""
    if tc >= R:
        return len(durs)
    p = 0
    for i, d in enumerate(durs):
        if p + d // 2 >= tc:
            return i
        p += d
    return len(durs)


def track_tc(t, start_us: int) -> int:
    s = float_start_ref(start_us, t.ref_ts)
    if t.ts != t.ref_ts:
        s = s * t.ts // t.ref_ts
    return s


def tracks_of(app, p: PDef) -> list:
    """segchecks.Track of every clear media file the period's adaptation sets select"""
    trk = segchecks.tracks(app, p.stream)
    with app.ctx() as models:
        s = models.Stream.get(directory=p.stream)
        names = [mf.name for mf in s.media_files if mf.track_id in p.tracks and not mf.encrypted]
    return [trk[n] for n in sorted(names)]


def max_fit_us(app, p_stream: str, tracks: list, start_us: int) -> int:
    """largest duration (µs, whole ms) a Period at this source offset may have and stay inside
    hypothesis `hfit` of mps_admitted_partial for every selected track; 0 if the offset
    itself is outside (some track would refuse the Period)"""
    trk = segchecks.tracks(app, p_stream)
    with app.ctx() as models:
        s = models.Stream.get(directory=p_stream)
        sel = [trk[mf.name] for mf in s.media_files if mf.track_id in tracks and not mf.encrypted]
    best = None
    for t in sel:
        i0 = model_i0(t.durs, t.R, track_tc(t, start_us))
        if i0 >= len(t.durs):
            return 0
        m = (len(t.durs) - i0) * t.sd * 1_000_000 // t.ts
        best = m if best is None else min(best, m)
    return (best or 0) // 1000 * 1000


# ------------------------------------------------------------------ generators

def gen_tracks(rng, stream: str) -> list:
    ids = [1]
    others = [t for t in TRACKS[stream] if t != 1]
    for t in others:
        if rng.random() < .6:
            ids.append(t)
    return ids


def gen_offset(rng, app, stream: str) -> int:
    """source offsets on and off segment boundaries (µs)"""
    trk = segchecks.tracks(app, stream)
    t = rng.choice(list(trk.values()))
    starts = [0]
    for d in t.durs[:-1]:
        starts.append(starts[-1] + d)
    j = rng.randrange(len(starts))
    base = starts[j] * 1_000_000 // t.ts
    k = rng.random()
    if k < .3:
        return base
    if k < .5:     # around the half-segment point where the nearest start flips
        half = (starts[j] + t.durs[j] // 2) * 1_000_000 // t.ts
        return max(0, half + rng.choice([-1001, -1, 0, 1, 2, 999, 1001]))
    if k < .7:
        return max(0, base + rng.choice([-1, 1, -1000, 1000, 333, 500_000]))
    return rng.randrange(0, max(1, sum(t.durs) * 1_000_000 // t.ts))


def gen_inside(rng, app, n_periods: int | None = None) -> Defn:
    """1..4 periods over the four streams, offsets on/off boundaries, track subsets, whole-ms
    durations – inside every hypothesis of Props/C12.lean (offset selects a stored segment
    on every selected track, `hfit`, total duration > 0)"""
    n = n_periods or rng.choice([1, 2, 2, 3, 4])
    out = []
    for i in range(n):
        for _ in range(50):
            stream = rng.choice(STREAMS)
            tracks = gen_tracks(rng, stream)
            start = gen_offset(rng, app, stream)
            mx = max_fit_us(app, stream, tracks, start)
            if mx >= 1000:
                break
        else:
            stream, tracks, start = "bbb", [1, 2], 4_000_000
            mx = max_fit_us(app, stream, tracks, start)
        k = rng.random()
        if k < .3:
            dur = mx
        elif k < .55:
            dur = max(1000, (mx // 4_000_000) * 4_000_000 // rng.choice([1, 1, 2])) if mx >= 4_000_000 else mx
        elif k < .8:
            dur = rng.randrange(1, mx // 1000 + 1) * 1000
        else:
            dur = max(1000, min(mx, rng.choice([1000, 500_000, 1_999_000, 4_000_000, 4_001_000, 7_999_000])))
        dur = dur // 1000 * 1000
        if rng.random() < .3:      # stored durations need not be whole milliseconds (fix 983f9d5)
            dur = max(1, dur + rng.randrange(-500, 500))
        out.append(PDef(pid=gen_pid(rng, i), stream=stream, start_us=start, duration_us=dur, tracks=tracks))
    return Defn(out)


def gen_pid(rng, i: int) -> str:
    k = rng.random()
    if k < .6:
        return f"p{i + 1}"
    if k < .8:
        return rng.choice(["a", "per", "x.y", "p-", "P"]) + f"_{i}"     # pids that contain '_'
    return rng.choice(["p", "p_1", "1", "p_1_2"]) + "x" * i


def gen_builder_only(rng, app) -> Defn:
    """definitions for the `periods` channel: the period builders do not look at the media,
    so durations are arbitrary µs values (zero allowed as long as the total is positive) and
    offsets are arbitrary"""
    n = rng.choice([1, 2, 3, 4, 5, 6])
    out = []
    for i in range(n):
        stream = rng.choice(STREAMS)
        k = rng.random()
        if k < .15:
            dur = 0
        elif k < .4:
            dur = rng.randrange(1, 60) * 1_000_000
        elif k < .7:
            dur = rng.randrange(1, 90_000_000)
        elif k < .85:
            dur = rng.randrange(1, 3000) * 1000
        else:
            dur = rng.choice([1, 999, 1_000_001, 3_600_000_000, 86_400_000_000])
        out.append(PDef(pid=gen_pid(rng, i), stream=stream, start_us=rng.randrange(0, 30_000_000),
                        duration_us=dur, tracks=gen_tracks(rng, stream)))
    if sum(quantise(p.duration_us) for p in out) < n * 500_000:      # keep the live lists short
        out[rng.randrange(n)].duration_us = rng.randrange(1, 20) * 1_000_000 + rng.choice([0, 0, 1, 999_999])
    return Defn(out)


def gen_clock(rng):
    year = rng.choice([2021, 2023, 2024, 2031, 2038])
    return datetime.datetime(year, rng.randrange(1, 13), rng.randrange(1, 28), rng.randrange(24),
                             rng.randrange(60), rng.randrange(60),
                             rng.choice([0, 0, 250_000, 500_000, rng.randrange(10 ** 6)]), tzinfo=UTC)


def gen_live_query(rng, now: datetime.datetime, total_us: int, max_periods: int = 60):
    """(query string, description) – start/depth options; the depth is chosen so that the
    manifest lists at most ~max_periods Periods"""
    opts = []
    kind = rng.choice(["default", "epoch", "now", "today", "month", "year", "explicit", "explicit", "explicit"])
    if kind == "explicit":
        age = rng.choice([rng.randrange(1, 400), rng.randrange(400, 100_000), rng.randrange(10 ** 5, 10 ** 8)])
        st = (now - datetime.timedelta(seconds=age)).replace(microsecond=0)
        opts.append("start=" + st.strftime("%Y-%m-%dT%H:%M:%SZ"))
    elif kind != "default":
        opts.append("start=" + kind)
    return opts, kind


def depth_for(rng, defn: Defn, max_periods: int = 50) -> int:
    """a depth option that keeps the number of listed Periods around max_periods"""
    n = max(1, len(defn.periods))
    cap = max(1, defn.total_us() * max_periods // (n * 1_000_000))
    return max(1, min(cap, rng.choice([5, 20, 30, 60, 120, 600, 1800])))


def live_periods_needed(defn: Defn, depth: int) -> int:
    """upper estimate of the Period elements a live manifest with this depth needs (the service
    refuses more than 2000 with 404, fix e70c912)"""
    d = max(1, defn.total_us())
    return len(defn.periods) * (3 + depth * 1_000_000 // d)
