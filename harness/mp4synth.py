"""mp4synth – an independent fragmented-MP4 *writer* for synthetic media (trusted base).

Shares no code with `dashlive` (stdlib only; `register` merely calls the
`appboot.App` object it is handed).  Written from ISO/IEC 14496-12 / 23001-7;
the only bytes copied from the repository's fixtures are the two minimal codec
configuration records (`avcC` of tears_v1.mp4, `esds` of bbb_a1.mp4) so that
dashlive's codec-string code accepts the sample entries.

Public API
----------
make_track(kind='video'|'audio', timescale=..., durations=[...], samples_per_segment=4, ...)
        -> bytes of a complete file:
           ftyp moov{mvhd trak{tkhd mdia{mdhd hdlr minf{vmhd|smhd dinf{dref{url }} stbl{stsd stts stsc stsz stco}}}} mvex{[mehd] trex}}
           then per segment:  [styp] [sidx] [emsg*] moof{mfhd traf{tfhd [tfdt] trun [saiz saio senc]}} mdat
           (`traf_order='senc_first'` gives the fixture order tfhd [tfdt] saiz saio senc trun;
            `emsg_first=True` puts the emsg boxes before the sidx)
layout(data) -> list of dicts, one per media segment, with the byte ranges the
           writer produced (segment start/end incl. leading styp/sidx/emsg, moof, mdat payload).
           Computed by re-reading the top-level box headers only.
register(app, directory, title, tracks: dict[name -> bytes], **kw) -> stream pk
           writes <blob folder>/<directory>/<name>.mp4 and registers the stream through
           `app.add_stream` (real `Mp4Atom.load` + `Representation.load` indexing).
           NOTE media-file names are unique across *all* streams in dash-live: pick
           distinct names per stream.
DEFAULT_KID, PIFF_UUID constants.

What dashlive's indexer makes of the result: `Representation.load` starts a
segment at each `moof` and extends it over following `mdat`/`sidx`/`free`
boxes, so with `with_sidx=True` the indexed segment k is `moof mdat [styp] sidx`
(the sidx written in front of segment k+1), the last one `moof mdat`; the boxes
in front of the first moof belong to the init segment.

Payload bytes are pseudo-random (seeded), so byte-identity of an mdat payload is
a meaningful check.  Video samples are framed as one 4-byte-length-prefixed NAL
unit (IDR for the first sample of a segment) so that NAL walkers do not choke.
"""
from __future__ import annotations

import random
import struct
from pathlib import Path
from typing import Iterable, Optional, Sequence, Union

PIFF_UUID = bytes.fromhex("a2394f525a9b4f14a2446c427c648df4")
DEFAULT_KID = "1ab45440532c439994dc5c5ad9584bac"      # the fixture KID (a key for it can be computed by the server)

# avcC of tests/fixtures/tears/tears_v1.mp4 (Baseline@3.1, 384x90 SPS/PPS), payload only
_AVCC = bytes.fromhex("0142c01fffe1001d6742c01fd901837e4ffc0024004122000003000200000300601e30649001000468cb8cb2")
# esds payload (version/flags + ES_Descriptor: AAC-LC 44.1 kHz stereo) of tests/fixtures/bbb/bbb_a1.mp4
_ESDS = bytes.fromhex("00000000031c00020004144015000000000178c0000178c00505121056e500060102")


# ------------------------------------------------------------------ primitives

def box(typ: Union[str, bytes], *payload: bytes) -> bytes:
    t = typ.encode("latin-1") if isinstance(typ, str) else typ
    body = b"".join(payload)
    return struct.pack(">I4s", 8 + len(body), t) + body


def full(typ: str, version: int, flags: int, *payload: bytes) -> bytes:
    return box(typ, struct.pack(">I", (version << 24) | (flags & 0xffffff)), *payload)


def u8(v): return struct.pack(">B", v)
def u16(v): return struct.pack(">H", v)
def u32(v): return struct.pack(">I", v)
def s32(v): return struct.pack(">i", v)
def u64(v): return struct.pack(">Q", v)


_MATRIX = b"".join(u32(x) for x in (0x10000, 0, 0, 0, 0x10000, 0, 0, 0, 0x40000000))


def _lang(code: str) -> bytes:
    v = 0
    for ch in code[:3].ljust(3, "d"):
        v = (v << 5) | ((ord(ch) - 0x60) & 0x1f)
    return u16(v)


# ------------------------------------------------------------------ init segment

def _stsd(kind: str, encrypted: bool, iv_size: int, kid: bytes, width: int, height: int,
          sample_rate: int, channels: int) -> bytes:
    sinf = b""
    if encrypted:
        orig = b"avc1" if kind == "video" else b"mp4a"
        tenc = full("tenc", 0, 0, b"\0\0", u8(1), u8(iv_size), kid)
        sinf = box("sinf", box("frma", orig), full("schm", 0, 0, b"cenc", u32(0x10000)),
                   box("schi", tenc))
    if kind == "video":
        entry = box(
            "encv" if encrypted else "avc1",
            b"\0" * 6, u16(1),                       # reserved, data_reference_index
            b"\0" * 16,                              # pre_defined / reserved
            u16(width), u16(height), u32(0x480000), u32(0x480000), u32(0), u16(1),
            b"\0" * 32, u16(0x18), u16(0xffff),
            box("avcC", _AVCC), sinf)
    else:
        entry = box(
            "enca" if encrypted else "mp4a",
            b"\0" * 6, u16(1), b"\0" * 8, u16(channels), u16(16), u32(0), u32(sample_rate << 16),
            box("esds", _ESDS), sinf)
    return full("stsd", 0, 0, u32(1), entry)


def _moov(kind, timescale, track_id, total_duration, with_mehd, encrypted, iv_size, kid,
          width, height, lang, trex_duration, trex_size, trex_flags) -> bytes:
    mvhd = full("mvhd", 0, 0, u32(0), u32(0), u32(1000), u32(0), u32(0x10000), u16(0x100), b"\0" * 10,
                _MATRIX, b"\0" * 24, u32(track_id + 1))
    tkhd = full("tkhd", 0, 3, u32(0), u32(0), u32(track_id), u32(0), u32(0), b"\0" * 8,
                u16(0), u16(0), u16(0 if kind == "video" else 0x100), u16(0), _MATRIX,
                u32((width if kind == "video" else 0) << 16), u32((height if kind == "video" else 0) << 16))
    mdhd = full("mdhd", 0, 0, u32(0), u32(0), u32(timescale), u32(0), _lang(lang), u16(0))
    hdlr = full("hdlr", 0, 0, u32(0), b"vide" if kind == "video" else b"soun", b"\0" * 12,
                (b"VideoHandler" if kind == "video" else b"SoundHandler") + b"\0")
    mhd = full("vmhd", 0, 1, b"\0" * 8) if kind == "video" else full("smhd", 0, 0, b"\0" * 4)
    dinf = box("dinf", full("dref", 0, 0, u32(1), full("url ", 0, 1)))
    stbl = box("stbl", _stsd(kind, encrypted, iv_size, kid, width, height, 44100, 2),
               full("stts", 0, 0, u32(0)), full("stsc", 0, 0, u32(0)),
               full("stsz", 0, 0, u32(0), u32(0)), full("stco", 0, 0, u32(0)))
    trak = box("trak", tkhd, box("mdia", mdhd, hdlr, box("minf", mhd, dinf, stbl)))
    mehd = b""
    if with_mehd:
        mehd = full("mehd", 0, 0, u32(total_duration * 1000 // timescale))
    trex = full("trex", 0, 0, u32(track_id), u32(1), u32(trex_duration), u32(trex_size), u32(trex_flags))
    return box("moov", mvhd, trak, box("mvex", mehd, trex))


# ------------------------------------------------------------------ media segments

def _split(total: int, n: int) -> list[int]:
    """n sample durations summing to `total` (last sample takes the remainder)"""
    base = total // n
    out = [base] * n
    out[-1] += total - base * n
    return out


def _sample_bytes(rng: random.Random, kind: str, size: int, first: bool) -> bytes:
    body = rng.randbytes(size)
    if kind == "video" and size >= 5:
        hdr = 0x65 if first else 0x41               # IDR slice / non-IDR reference slice
        body = u32(size - 4) + u8(hdr) + body[5:]
    return body


def make_track(kind: str = "video", timescale: Optional[int] = None,
               durations: Sequence[int] = (960, 960, 960, 960),
               samples_per_segment: Union[int, Sequence[int]] = 4,
               first_decode_time: int = 0, with_tfdt: bool = True, tfdt_version: Optional[int] = None,
               with_sidx: bool = False, with_styp: bool = False,
               with_emsg: Union[bool, int] = False, emsg_first: bool = False, emsg_version: int = 0,
               encrypted: bool = False, iv_size: int = 8, kid: Union[str, bytes] = DEFAULT_KID,
               subsamples: Optional[bool] = None, saio_version: int = 0, saiz_default: bool = True,
               default_base_is_moof: bool = True, base: Optional[str] = None,
               track_id: int = 1, start_number: int = 1, seq_step: int = 1, payload_size: int = 200, seed: int = 0,
               payload_bytes: Optional[Sequence[Optional[int]]] = None,
               largesize: Sequence[str] = (), moof_pssh: Union[bool, str] = False,
               senc_override: Union[bool, int] = False, aux_info_type: Union[bool, str] = False,
               size0_last: Union[bool, str] = False,
               with_mehd: bool = True, traf_order: str = "trun_first",
               sample_durations_in: str = "trun", trun_data_offset: bool = True,
               trun_first_sample_flags: Optional[bool] = None, trun_cto: bool = False,
               width: int = 384, height: int = 90, lang: str = "und",
               extra_traf_box: bool = False) -> bytes:
    """Build a complete fragmented MP4 file.

    kind                 'video' (avc1/encv + avcC) or 'audio' (mp4a/enca + esds)
    timescale            media timescale (default 240 video / 44100 audio)
    durations            per-segment durations in ticks (sum of the segment's sample durations)
    samples_per_segment  int or per-segment list
    start_number/seq_step  mfhd sequence numbers start_number, start_number+seq_step, … (a step of 2 or 3 is what
                         de-multiplexing a multi-track fragmented file leaves behind)
    first_decode_time    tfdt of the first segment (later ones accumulate the durations)
    with_tfdt            write a tfdt in every traf; tfdt_version 0/1 (None: 1 iff the value needs 64 bit)
    with_styp/with_sidx  leading styp / sidx box per media segment
    with_emsg            number (or True=1) of stored emsg boxes in front of each moof;
                         emsg_first puts them before the sidx; emsg_version 0/1
    encrypted            enca/encv + sinf{frma schm schi{tenc}}; per segment saiz, saio, senc
      iv_size 8|16, kid (hex or 16 bytes); subsamples (default: video yes, audio no);
      saio_version 0|1; saiz_default: use default_sample_info_size when all entries are equal
    base                 how sample data is addressed:
        'moof'             tfhd flag default-base-is-moof (also default_base_is_moof=True)
        'explicit'         tfhd base_data_offset = absolute file position of the moof (also default_base_is_moof=False)
        'explicit-segment' tfhd base_data_offset = 0 and offsets relative to the moof start
                           (= position of the moof inside a segment that starts at the moof)
        'implicit'         neither flag (base = start of the enclosing moof per 14496-12 8.8.7)
        'absolute'         classic absolute-file-offset addressing: tfhd base_data_offset = 0 (start of the
                           file) and trun.data_offset / saio offset = absolute file position of the payload /
                           of the first senc entry
        'absolute-lead'    tfhd base_data_offset = absolute file position of the segment's first leading box
                           (styp/sidx/emsg; = the moof position when there is none), offsets relative to it –
                           a base in front of the moof
        'explicit-mdat'    tfhd base_data_offset = absolute file position of the first payload byte and a
                           trun *without* data_offset field (clear tracks only: saio offsets are unsigned)
    payload_size         average sample size in bytes (sizes are pseudo-random in [½, 1½]·payload_size)
    senc_override        senc flag 0x1 ("override track encryption defaults"): the senc (and a stored PIFF
                         clone) carries AlgorithmID(3) IV_size(1) KID(16) in front of sample_count.  True: the
                         IV size of tenc; 8 or 16: the sample entries use that IV size (may differ from tenc)
    aux_info_type        saiz and saio carry aux_info_type 'cenc' + aux_info_type_parameter 0 (flags 0x1);
                         'saiz' / 'saio': only that box
    size0_last           the LAST box of the file uses the implied-size form (size field 0 = "extends to the
                         end of the file", 14496-12 4.2): True / 'mdat' – the mdat of the last segment;
                         'free' – a trailing `free` box behind the last mdat
    largesize            box types written with the 64-bit `largesize` header form (size field 1 + 8 byte
                         size): any of 'mdat', 'moof'
    moof_pssh            a version-1 `pssh` box (system id = Common PSSH, one KID) as a child of every moof:
                         True/'after' behind the traf, 'before' between mfhd and traf
    payload_bytes        per segment: exact total mdat payload length (None: from payload_size); split
                         pseudo-randomly over the segment's samples (each >= 5 bytes) – for size classes
                         (segments around a reader's cache window, very large segments)
    traf_order           'trun_first': tfhd [tfdt] trun saiz saio senc; 'senc_first': tfhd [tfdt] saiz saio senc trun;
                         or (encrypted tracks) any comma separated permutation of trun,saiz,saio,senc with an
                         optional `piff` (a stored PIFF uuid clone of the senc), e.g. 'trun,senc,saiz,saio'
                         (senc in front of saiz/saio) or 'trun,senc,piff,saiz,saio' 
    sample_durations_in  'trun' per-sample, 'tfhd' default in tfhd (needs equal durations, else falls back
                         to 'trun' for that segment), 'trex' default only in trex (same fallback)
    trun_data_offset     write the data_offset field (False only makes sense with an explicit base at the mdat: not used)
    trun_first_sample_flags  (default: video) first-sample-flags in trun; trun_cto: composition offsets (v0)
    extra_traf_box       add an opaque `sbgp`-like box (type 'free') after tfdt, as the fixtures have
    """
    assert kind in ("video", "audio")
    rng = random.Random(f"mp4synth:{seed}:{kind}:{track_id}")
    if timescale is None:
        timescale = 240 if kind == "video" else 44100
    if isinstance(kid, str):
        kid = bytes.fromhex(kid)
    assert len(kid) == 16 and iv_size in (8, 16)
    if base is None:
        base = "moof" if default_base_is_moof else "explicit"
    assert base in ("moof", "explicit", "explicit-segment", "implicit", "explicit-mdat", "absolute",
                    "absolute-lead")
    if base == "explicit-mdat":
        assert not encrypted, "explicit-mdat addressing is only generated for clear tracks"
        trun_data_offset = False
    nseg = len(durations)
    if isinstance(samples_per_segment, int):
        samples_per_segment = [samples_per_segment] * nseg
    assert len(samples_per_segment) == nseg and all(n >= 1 for n in samples_per_segment)
    if subsamples is None:
        subsamples = kind == "video"
    if trun_first_sample_flags is None:
        trun_first_sample_flags = kind == "video"
    n_emsg = int(with_emsg)
    trex_dur = 0
    if sample_durations_in == "trex":
        # the value used when a segment has equal sample durations matching it
        d0, n0 = durations[0], samples_per_segment[0]
        trex_dur = d0 // n0
    sflags_sync, sflags_nonsync = 0x02000000, 0x01010000

    ftyp = box("ftyp", b"iso6", u32(1), b"iso6", b"dash")
    moov = _moov(kind, timescale, track_id, sum(durations), with_mehd, encrypted, iv_size, kid,
                 width, height, lang, trex_dur, 0, sflags_nonsync if kind == "video" else sflags_sync)
    out = bytearray(ftyp + moov)

    decode_time = first_decode_time
    for k in range(nseg):
        n = samples_per_segment[k]
        durs = _split(durations[k], n)
        sizes = [max(5, rng.randrange(max(1, payload_size // 2), payload_size * 3 // 2 + 1)) for _ in range(n)]
        if payload_bytes is not None and payload_bytes[k] is not None:
            total = payload_bytes[k]
            assert total >= 5 * n, "payload_bytes too small for the number of samples"
            # random split of `total` into n parts of at least 5 bytes
            cuts = sorted(rng.randrange(0, total - 5 * n + 1) for _ in range(n - 1))
            edges = [0] + cuts + [total - 5 * n]
            sizes = [5 + edges[i + 1] - edges[i] for i in range(n)]
        payload = b"".join(_sample_bytes(rng, kind, sizes[i], i == 0) for i in range(n))
        if "mdat" in largesize:
            mdat = struct.pack(">I4sQ", 1, b"mdat", 16 + len(payload)) + payload
        else:
            mdat = box("mdat", payload)
        mdat_hdr = len(mdat) - len(payload)
        tail = b""
        if k == nseg - 1 and size0_last:
            if size0_last == "free":
                tail = struct.pack(">I4s", 0, b"free") + rng.randbytes(11)
            else:
                assert "mdat" not in largesize
                mdat = struct.pack(">I4s", 0, b"mdat") + payload

        where = sample_durations_in
        if where != "trun" and len(set(durs)) != 1:
            where = "trun"
        if where == "trex" and durs[0] != trex_dur:
            where = "tfhd"

        # ---- boxes in front of the moof
        styp = box("styp", b"msdh", u32(0), b"msdh", b"msix") if with_styp else b""
        emsgs = b""
        for e in range(n_emsg):
            data = rng.randbytes(rng.randrange(4, 24))
            eid = (start_number + k) * 10 + e
            if emsg_version == 0:
                emsgs += full("emsg", 0, 0, b"urn:verif:synth\0", f"{e}".encode() + b"\0",
                              u32(timescale), u32(0), u32(durations[k]), u32(eid), data)
            else:
                emsgs += full("emsg", 1, 0, u32(timescale), u64(decode_time), u32(durations[k]), u32(eid),
                              b"urn:verif:synth\0", f"{e}".encode() + b"\0", data)

        # ---- traf content with placeholders, sizes are independent of the offset values
        tf_flags = 0
        tf_body = u32(track_id)
        if base == "moof":
            tf_flags |= 0x020000
        elif base in ("explicit", "explicit-segment", "explicit-mdat", "absolute", "absolute-lead"):
            tf_flags |= 0x000001
            tf_body += u64(0)                        # patched below
        if where == "tfhd":
            tf_flags |= 0x000008
            tf_body += u32(durs[0])
        tr_flags = 0x000200
        if trun_data_offset:
            tr_flags |= 0x000001
        if trun_first_sample_flags:
            tr_flags |= 0x000004
        if where == "trun":
            tr_flags |= 0x000100
        if trun_cto:
            tr_flags |= 0x000800

        def trun_box(data_offset: int) -> bytes:
            b = u32(n)
            if tr_flags & 1:
                b += s32(data_offset)
            if tr_flags & 4:
                b += u32(sflags_sync)
            for i in range(n):
                if tr_flags & 0x100:
                    b += u32(durs[i])
                b += u32(sizes[i])
                if tr_flags & 0x800:
                    b += u32(0)
            return full("trun", 0, tr_flags, b)

        tfdt = b""
        if with_tfdt:
            v = tfdt_version if tfdt_version is not None else (1 if decode_time >= 1 << 32 else 0)
            tfdt = full("tfdt", v, 0, u64(decode_time) if v else u32(decode_time))
        extra = box("free", rng.randbytes(20)) if extra_traf_box else b""

        entry_iv = senc_override if (senc_override and senc_override is not True) else iv_size
        enc_entries: list[bytes] = []
        if encrypted:
            for i in range(n):
                e = rng.randbytes(entry_iv)
                if subsamples:
                    clear = min(sizes[i], 5 + rng.randrange(0, 8))
                    e += u16(1) + u16(clear) + u32(sizes[i] - clear)
                enc_entries.append(e)

        def enc_boxes(saio_offset: int) -> tuple[bytes, bytes, bytes]:
            lens = [len(e) for e in enc_entries]
            if saiz_default and len(set(lens)) == 1:
                saiz = full("saiz", 0, 0, u8(lens[0]), u32(n))
            else:
                saiz = full("saiz", 0, 0, u8(0), u32(n), bytes(lens))
            aux = u32(0x63656e63) + u32(0)
            if aux_info_type in (True, "saiz"):
                saiz = full("saiz", saiz[8], 1, aux, saiz[12:])
            saio_flags = 1 if aux_info_type in (True, "saio") else 0
            saio = full("saio", saio_version, saio_flags, aux if saio_flags else b"", u32(1),
                        u64(saio_offset) if saio_version else u32(saio_offset))
            sflags = (2 if subsamples else 0) | (1 if senc_override else 0)
            ovr = (b"\0\0\1" + u8(entry_iv) + kid) if senc_override else b""
            senc = full("senc", 0, sflags, ovr, u32(n), *enc_entries)
            return saiz, saio, senc

        def moof_box(base_value: int, data_offset: int, saio_offset: int) -> tuple[bytes, int]:
            """returns (moof bytes, offset of the first senc sample entry inside the moof or -1)"""
            body = tf_body
            if tf_flags & 1:
                body = u32(track_id) + u64(base_value) + tf_body[12:]
            tfhd = full("tfhd", 0, tf_flags, body)
            parts = [tfhd, tfdt, extra]
            senc_at = -1
            if encrypted:
                saiz, saio, senc = enc_boxes(saio_offset)
                names = {"senc_first": "saiz,saio,senc,trun", "trun_first": "trun,saiz,saio,senc"}.get(
                    traf_order, traf_order).split(",")
                assert sorted(n for n in names if n != "piff") == ["saio", "saiz", "senc", "trun"], traf_order
                # a stored PIFF sample-encryption uuid box: same payload as the senc box
                piff = box("uuid", PIFF_UUID, senc[8:])
                avail = {"saiz": saiz, "saio": saio, "senc": senc, "piff": piff, "trun": trun_box(data_offset)}
                parts += [avail[n] for n in names]
                idx = parts.index(senc)
                senc_at = 8 + 16 + 8 + sum(len(p) for p in parts[:idx]) + 16 + (20 if senc_override else 0)   # moof hdr, mfhd, traf hdr, …, senc hdr+vf+[override]+count
            else:
                parts.append(trun_box(data_offset))
            traf = box("traf", *parts)
            mfhd = full("mfhd", 0, 0, u32(start_number + k * seq_step))
            pssh = b""
            if moof_pssh:
                pssh = full("pssh", 1, 0, bytes.fromhex("1077efecc0b24d02ace33c1e52e2fb4b"), u32(1), kid, u32(0))
            kids_ = [mfhd, pssh, traf] if moof_pssh == "before" else [mfhd, traf, pssh]
            shift = len(pssh) if moof_pssh == "before" else 0
            if "moof" in largesize:
                body = b"".join(kids_)
                return struct.pack(">I4sQ", 1, b"moof", 16 + len(body)) + body, (senc_at + 8 + shift if senc_at >= 0 else -1)
            return box("moof", *kids_), (senc_at + shift if senc_at >= 0 else -1)

        probe, senc_at = moof_box(0, 0, 0)
        moof_len = len(probe)
        lead = styp + (emsgs if emsg_first else b"")
        sidx = b""
        if with_sidx:
            first_offset = 0 if emsg_first else len(emsgs)
            sidx = full("sidx", 0, 0, u32(track_id), u32(timescale), u32(decode_time & 0xffffffff),
                        u32(first_offset), u16(0), u16(1),
                        u32(moof_len + len(mdat)), u32(durations[k]), u32(0x90000000))
        lead += sidx + (b"" if emsg_first else emsgs)
        moof_pos = len(out) + len(lead)
        base_value = {"moof": moof_pos, "implicit": moof_pos, "explicit": moof_pos, "explicit-segment": 0,
                      "explicit-mdat": moof_pos + moof_len + 8, "absolute": 0, "absolute-lead": len(out)}[base]
        # position of the moof relative to the base
        rel = moof_pos - base_value if base in ("absolute", "absolute-lead") else 0
        data_offset = rel + moof_len + mdat_hdr
        saio_offset = rel + senc_at if encrypted else 0
        moof, _ = moof_box(base_value, data_offset, saio_offset)
        assert len(moof) == moof_len
        out += lead + moof + mdat + tail
        decode_time += durations[k]
    return bytes(out)


# ------------------------------------------------------------------ layout

def layout(data: bytes) -> list[dict]:
    """byte ranges of the media segments as written: every run of top-level boxes
    ending in `mdat` after the moov: {'start','end','moof','moof_size','mdat','payload_start','payload_end','lead':[types]}"""
    pos, n = 0, len(data)
    segs, cur, seen_moov = [], None, False
    while pos < n:
        size, typ = struct.unpack(">I4s", data[pos:pos + 8])
        hdr = 8
        if size == 1:
            size = struct.unpack(">Q", data[pos + 8:pos + 16])[0]
            hdr = 16
        elif size == 0:
            size = n - pos
        t = typ.decode("latin-1")
        if t == "moov":
            seen_moov = True
        elif seen_moov:
            if cur is None:
                cur = {"start": pos, "lead": []}
            if t == "moof":
                cur["moof"], cur["moof_size"] = pos, size
            elif t == "mdat":
                cur.update(mdat=pos, payload_start=pos + hdr, payload_end=pos + size, end=pos + size)
                segs.append(cur)
                cur = None
            else:
                cur["lead"].append(t)
        pos += size
    return segs


# ------------------------------------------------------------------ registration

def register(app, directory: str, title: str, tracks: dict, timing_from: Optional[str] = None) -> int:
    """write the tracks into the application's scratch blob folder and register
    them as one stream.  `app` is an `appboot.App`; `tracks` maps media-file name
    (unique across all streams!) to the file bytes.  Returns the stream pk."""
    dest = Path(app.blob_folder) / directory
    dest.mkdir(parents=True, exist_ok=True)
    files = []
    for name, data in tracks.items():
        p = dest / f"{name}.mp4"
        p.write_bytes(data)
        files.append((name, p))
    return app.add_stream(directory, title, files, real_index=True, timing_from=timing_from)


# ------------------------------------------------------------------ self-test

def _selftest() -> int:
    """`/venv/bin/python harness/mp4synth.py` – write a few synthetic streams, have the REAL
    dashlive index them (`Mp4Atom.load` + `Representation.load` through appboot) and fetch the
    vod manifest, the init segment and every media segment (expect 200 each).  Only this
    function touches dashlive; the writer itself does not."""
    import os
    import sys
    here = Path(__file__).resolve().parent
    for p in (str(here.parent / "shims"), os.environ.get("DASHLIVE_REPO", "/repo"), str(here)):
        if p not in sys.path:
            sys.path.insert(0, p)
    import appboot
    import mp4walk
    app = appboot.App()
    bad = 0
    n = 0
    variants = [
        dict(), dict(with_tfdt=False), dict(with_styp=True, with_sidx=True, with_emsg=2),
        dict(encrypted=True), dict(encrypted=True, iv_size=16, traf_order="senc_first", saio_version=1),
        dict(base="explicit"), dict(base="implicit", sample_durations_in="tfhd"),
        dict(base="explicit-mdat"), dict(base="absolute", encrypted=True, payload_size=600),
        dict(base="absolute-lead", with_styp=True, with_sidx=True),
        dict(encrypted=True, traf_order="trun,senc,saiz,saio"), dict(encrypted=True, traf_order="senc,piff,saio,saiz,trun"),
        dict(first_decode_time=2 ** 32 + 7, encrypted=True, with_sidx=True),
    ]
    with appboot.Clock("2024-01-01T00:00:00Z"):
        for i, kw in enumerate(variants):
            d = f"synthtest{i}"
            v = make_track(kind="video", durations=[960, 1000, 900, 960], samples_per_segment=[4, 5, 3, 4], seed=i, **kw)
            a = make_track(kind="audio", track_id=2, durations=[88200] * 4, samples_per_segment=20, seed=100 + i,
                           **{k: x for k, x in kw.items()})
            mp4walk.walk(v), mp4walk.walk(a)           # the independent reader accepts the independent writer
            register(app, d, d, {f"{d}_v": v, f"{d}_a": a})
            c = app.client()
            q = "?drm=all" if kw.get("encrypted") else ""
            urls = [f"/dash/vod/{d}/hand_made.mpd{q}"]
            for name, ext in ((f"{d}_v", "m4v"), (f"{d}_a", "m4a")):
                urls.append(f"/dash/vod/{d}/{name}/init.{ext}{q}")
                urls += [f"/dash/vod/{d}/{name}/{k}.{ext}{q}" for k in range(1, 5)]
            for u in urls:
                r = c.get(u)
                n += 1
                if r.status_code != 200:
                    bad += 1
                    print("FAIL", r.status_code, u)
                elif not u.split("?")[0].endswith(".mpd"):
                    mp4walk.walk(r.data)
    print(f"mp4synth selftest: {n} requests, {bad} not 200")
    return 1 if bad else 0


if __name__ == "__main__":
    raise SystemExit(_selftest())
