"""C14 helpers for the SCTE-35 part: signal generator, the text format shared with
the Lean driver (lean/DashLive/Driver/Events.lean), adapters to the real
`dashlive.scte35` classes, and an *independent* splice_info_section reader +
CRC-32/MPEG-2 (written from SCTE 35 / ISO 13818-1, not from dashlive) used by
the Layer-C oracle.

A signal is a plain dict:
  {table_id, section_syntax_indicator, private_indicator, sap_type, protocol_version,
   encrypted_packet, encryption_algorithm, pts_adjustment, cw_index, tier,
   command: None | {"time_signal": pts|None}
                 | {"splice_insert": {splice_event_id, cancel, out_of_network_indicator,
                                      splice_immediate_flag, splice_time: "x"|None|int,
                                      components: [(tag, pts|None)], break_duration: None|(ar, dur),
                                      unique_program_id, avail_num, avails_expected}},
   descriptors: [("avail", ident, id) | ("time", ident, s, ns, off) |
                 ("seg", ident, {...SegDesc fields...})]}
"""
from __future__ import annotations

CUEI = 0x43554549
SUBSEG_TYPES = (0x34, 0x36, 0x38, 0x3A)

HDR_FIELDS = [("table_id", 8), ("section_syntax_indicator", 1), ("private_indicator", 1),
              ("sap_type", 2), ("protocol_version", 8), ("encrypted_packet", 1),
              ("encryption_algorithm", 6), ("pts_adjustment", 33), ("cw_index", 8), ("tier", 12)]

SEG_DEFAULT = dict(cancel=False, dnr=True, web=True, blk=True, arch=True, devr=3, duration=None,
                   upid_type=0x0F, upid=b"", type=0, num=0, exp=0, sub=0, subexp=0)


# ------------------------------------------------------------------ generator

def _val(rng, bits: int) -> int:
    """a value of the given width, biased to the boundaries"""
    top = (1 << bits) - 1
    k = rng.random()
    if k < .2:
        return 0
    if k < .4:
        return top
    if k < .5:
        return 1
    if k < .6:
        return top - 1
    if k < .7:
        return 1 << (bits - 1)
    return rng.randrange(0, top + 1)


def _bool(rng) -> bool:
    return rng.random() < .5


def gen_splice_time(rng):
    return None if rng.random() < .2 else _val(rng, 33)


def gen_insert(rng) -> dict:
    si = dict(splice_event_id=_val(rng, 32), cancel=False, out_of_network_indicator=True,
              splice_immediate_flag=False, splice_time="x", components=[], break_duration=None,
              unique_program_id=0, avail_num=0, avails_expected=0)
    if rng.random() < .12:
        si["cancel"] = True
        return si
    si["out_of_network_indicator"] = _bool(rng)
    si["unique_program_id"] = _val(rng, 16)
    si["avail_num"] = _val(rng, 8)
    si["avails_expected"] = _val(rng, 8)
    if rng.random() < .6:
        si["break_duration"] = (_bool(rng), _val(rng, 33))
    if rng.random() < .7:
        si["splice_time"] = gen_splice_time(rng)           # program_splice_flag = 1
    else:
        si["splice_time"] = "x"                            # component mode
        n = rng.choice([0, 1, 1, 2, 3, 7])
        si["components"] = [(_val(rng, 8), gen_splice_time(rng)) for _ in range(n)]
        si["splice_immediate_flag"] = rng.random() < .3    # immediate only without a program splice_time
    return si


def gen_seg(rng) -> dict:
    d = dict(SEG_DEFAULT)
    d["event_id"] = _val(rng, 32)
    if rng.random() < .12:
        d["cancel"] = True
        return d
    if rng.random() < .5:
        d.update(dnr=False, web=_bool(rng), blk=_bool(rng), arch=_bool(rng), devr=_val(rng, 2))
    if rng.random() < .6:
        d["duration"] = _val(rng, 40)
    if rng.random() < .6:
        n = rng.choice([0, 1, 8, 12, 16, 255]) if rng.random() < .8 else rng.randrange(0, 200)
        if d["dnr"] is True and rng.random() < .5:
            n = min(n, 40)
        d["upid"] = bytes(rng.randrange(256) for _ in range(min(n, 180)))
        d["upid_type"] = _val(rng, 8)
    d["type"] = rng.choice(list(SUBSEG_TYPES) + [0x35, 0x37, 0x10, 0x22, 0x00, 0xFF]) \
        if rng.random() < .8 else _val(rng, 8)
    d["num"] = _val(rng, 8)
    d["exp"] = _val(rng, 8)
    if d["type"] in SUBSEG_TYPES:
        d["sub"] = _val(rng, 8)
        d["subexp"] = _val(rng, 8)
    return d


def gen_descriptor(rng):
    k = rng.random()
    ident = CUEI if rng.random() < .7 else _val(rng, 32)
    if k < .3:
        return ("avail", ident, _val(rng, 32))
    if k < .45:
        return ("time", ident, _val(rng, 48), _val(rng, 32), _val(rng, 16))
    return ("seg", ident, gen_seg(rng))


def gen_signal(rng) -> dict:
    sig = {name: (_bool(rng) if bits == 1 else _val(rng, bits)) for name, bits in HDR_FIELDS}
    if rng.random() < .6:   # the values the server itself uses
        sig.update(table_id=0xFC, section_syntax_indicator=False, cw_index=0xFF, tier=0xFFF,
                   protocol_version=0, encryption_algorithm=0)
    sig["encrypted_packet"] = False          # H: encryption is not supported by the encoder
    k = rng.random()
    if k < .15:
        sig["command"] = None
    elif k < .35:
        sig["command"] = {"time_signal": gen_splice_time(rng)}
    else:
        sig["command"] = {"splice_insert": gen_insert(rng)}
    nd = rng.choice([0, 0, 1, 1, 1, 2, 3, 5])
    ds = []
    budget = 3500      # keep section_length inside its 12 bits (H: lengths fit their fields)
    for _ in range(nd):
        d = gen_descriptor(rng)
        sz = 6 + (len(d[2]["upid"]) + 30 if d[0] == "seg" else 16)
        if sz > budget:
            break
        budget -= sz
        ds.append(d)
    sig["descriptors"] = ds
    return sig


def features(sig: dict) -> set:
    f = set()
    c = sig["command"]
    if c is None:
        f.add("null")
    elif "time_signal" in c:
        f.add("time_signal" if c["time_signal"] is not None else "time_signal_no_pts")
    else:
        si = c["splice_insert"]
        if si["cancel"]:
            f.add("insert_cancel")
        else:
            f.add("insert_components" if si["splice_time"] == "x" else
                  ("insert_program" if si["splice_time"] is not None else "insert_program_no_pts"))
            if si["splice_immediate_flag"]:
                f.add("insert_immediate")
            if si["break_duration"]:
                f.add("break_duration")
    for d in sig["descriptors"]:
        f.add("desc_" + d[0])
        if d[0] == "seg":
            s = d[2]
            if s["cancel"]:
                f.add("seg_cancel")
            else:
                f.add("seg_restricted" if not s["dnr"] else "seg_unrestricted")
                if s["upid"]:
                    f.add("seg_upid")
                if s["type"] in SUBSEG_TYPES:
                    f.add("seg_subsegments")
    f.add(f"descriptors={min(len(sig['descriptors']), 3)}")
    return f


# ------------------------------------------------------------------ driver text format

def b01(b) -> str:
    return "1" if b else "0"


def _st(p) -> str:
    return "-" if p is None else str(p)


def fmt_command(c) -> str:
    if c is None:
        return "null"
    if "time_signal" in c:
        return "time," + _st(c["time_signal"])
    si = c["splice_insert"]
    st = "x" if si["splice_time"] == "x" else _st(si["splice_time"])
    comps = "|".join(f"{t}:{_st(p)}" for t, p in si["components"]) or "x"
    bd = "x" if si["break_duration"] is None else f"{b01(si['break_duration'][0])}:{si['break_duration'][1]}"
    return (f"insert,{si['splice_event_id']},{b01(si['cancel'])},{b01(si['out_of_network_indicator'])},"
            f"{b01(si['splice_immediate_flag'])},{st},{comps},{bd},{si['unique_program_id']},"
            f"{si['avail_num']},{si['avails_expected']}")


def fmt_descriptor(d) -> str:
    if d[0] == "avail":
        return f"avail,{d[1]},{d[2]}"
    if d[0] == "time":
        return f"time,{d[1]},{d[2]},{d[3]},{d[4]}"
    s = d[2]
    dur = "x" if s["duration"] is None else str(s["duration"])
    return (f"seg,{d[1]},{s['event_id']},{b01(s['cancel'])},{b01(s['dnr'])},{b01(s['web'])},{b01(s['blk'])},"
            f"{b01(s['arch'])},{s['devr']},{dur},{s['upid_type']},{bytes(s['upid']).hex() or '-'},{s['type']},"
            f"{s['num']},{s['exp']},{s['sub']},{s['subexp']}")


def fmt_signal(sig: dict) -> str:
    hdr = ",".join(b01(sig[n]) if bits == 1 else str(sig[n]) for n, bits in HDR_FIELDS)
    ds = ";".join(fmt_descriptor(d) for d in sig["descriptors"]) or "x"
    return f"{hdr} {fmt_command(sig['command'])} {ds}"


# ------------------------------------------------------------------ real classes

def to_real(sig: dict):
    """build the real `BinarySignal` object"""
    from dashlive.scte35.binarysignal import BinarySignal
    from dashlive.scte35.splice_insert import SpliceInsert
    from dashlive.scte35 import descriptors as D
    kw = {n: sig[n] for n, _ in HDR_FIELDS}
    c = sig["command"]
    if c is not None and "time_signal" in c:
        kw["time_signal"] = {"pts": c["time_signal"]}
    elif c is not None:
        si = c["splice_insert"]
        if si["cancel"]:
            a = dict(splice_event_id=si["splice_event_id"], splice_event_cancel_indicator=True)
        else:
            a = dict(splice_event_id=si["splice_event_id"], splice_event_cancel_indicator=False,
                     out_of_network_indicator=si["out_of_network_indicator"],
                     splice_immediate_flag=si["splice_immediate_flag"],
                     splice_time=None if si["splice_time"] == "x" else {"pts": si["splice_time"]},
                     components=[{"tag": t, "splice_time": {"pts": p}} for t, p in si["components"]],
                     break_duration=None if si["break_duration"] is None else
                     {"auto_return": si["break_duration"][0], "duration": si["break_duration"][1]},
                     unique_program_id=si["unique_program_id"], avail_num=si["avail_num"],
                     avails_expected=si["avails_expected"])
        kw["splice_insert"] = SpliceInsert(**a)
    ds = []
    for d in sig["descriptors"]:
        if d[0] == "avail":
            ds.append(D.SpliceDescriptor.from_kwargs(0, identifier=d[1], provider_avail_id=d[2]))
        elif d[0] == "time":
            ds.append(D.SpliceDescriptor.from_kwargs(3, identifier=d[1], TAI_seconds=d[2], TAI_ns=d[3],
                                                     UTC_offset=d[4]))
        else:
            s = d[2]
            if s["cancel"]:
                ds.append(D.SpliceDescriptor.from_kwargs(
                    2, identifier=d[1], segmentation_event_id=s["event_id"],
                    segmentation_event_cancel_indicator=True))
            else:
                a = dict(identifier=d[1], segmentation_event_id=s["event_id"],
                         segmentation_event_cancel_indicator=False,
                         delivery_not_restricted_flag=s["dnr"], segmentation_duration=s["duration"],
                         segmentation_upid_type=s["upid_type"], segmentation_upid=bytes(s["upid"]),
                         segmentation_type=s["type"], segment_num=s["num"], segments_expected=s["exp"],
                         sub_segment_num=s["sub"], sub_segments_expected=s["subexp"])
                if not s["dnr"]:
                    a.update(web_delivery_allowed_flag=s["web"], no_regional_blackout_flag=s["blk"],
                             archive_allowed_flag=s["arch"], device_restrictions=s["devr"])
                ds.append(D.SpliceDescriptor.from_kwargs(2, **a))
    kw["descriptors"] = ds
    return BinarySignal(**kw)


def real_parse(data: bytes) -> dict:
    from dashlive.scte35.binarysignal import BinarySignal
    from dashlive.utils.buffered_reader import BufferedReader
    return BinarySignal.parse(BufferedReader(None, data=data), size=len(data))


def from_parsed(p: dict) -> dict:
    """the kwargs dict returned by the real `BinarySignal.parse` → signal dict
    (absent keys of cancelled structures take the class defaults)"""
    sig = {n: p[n] for n, _ in HDR_FIELDS}
    if p.get("splice_schedule") is not None:
        raise ValueError("splice_schedule outside the model")
    if p.get("splice_insert") is not None:
        si = p["splice_insert"]
        if si["splice_event_cancel_indicator"]:
            c = dict(splice_event_id=si["splice_event_id"], cancel=True, out_of_network_indicator=True,
                     splice_immediate_flag=False, splice_time="x", components=[], break_duration=None,
                     unique_program_id=0, avail_num=0, avails_expected=0)
        else:
            st = si["splice_time"]
            bd = si["break_duration"]
            c = dict(splice_event_id=si["splice_event_id"], cancel=False,
                     out_of_network_indicator=si["out_of_network_indicator"],
                     splice_immediate_flag=si["splice_immediate_flag"],
                     splice_time="x" if st is None else st["pts"],
                     components=[(x["tag"], x["splice_time"]["pts"]) for x in si["components"]],
                     break_duration=None if bd is None else (bd["auto_return"], bd["duration"]),
                     unique_program_id=si["unique_program_id"], avail_num=si["avail_num"],
                     avails_expected=si["avails_expected"])
        sig["command"] = {"splice_insert": c}
    elif p.get("time_signal") is not None:
        sig["command"] = {"time_signal": p["time_signal"]["pts"]}
    else:
        sig["command"] = None
    ds = []
    for d in p["descriptors"]:
        if d["tag"] == 0:
            ds.append(("avail", d["identifier"], d["provider_avail_id"]))
        elif d["tag"] == 3:
            ds.append(("time", d["identifier"], d["TAI_seconds"], d["TAI_ns"], d["UTC_offset"]))
        elif d["tag"] == 2:
            s = dict(SEG_DEFAULT)
            s["event_id"] = d["segmentation_event_id"]
            if d["segmentation_event_cancel_indicator"]:
                s["cancel"] = True
            else:
                s.update(dnr=d["delivery_not_restricted_flag"], web=d["web_delivery_allowed_flag"],
                         blk=d["no_regional_blackout_flag"], arch=d["archive_allowed_flag"],
                         devr=d["device_restrictions"], duration=d["segmentation_duration"],
                         upid_type=d["segmentation_upid_type"], upid=bytes(d["segmentation_upid"]),
                         type=d["segmentation_type"], num=d["segment_num"], exp=d["segments_expected"],
                         sub=d.get("sub_segment_num", 0), subexp=d.get("sub_segments_expected", 0))
            ds.append(("seg", d["identifier"], s))
        else:
            raise ValueError(f"descriptor tag {d['tag']} outside the model")
    sig["descriptors"] = ds
    return sig


def fmt_parsed(p: dict) -> str:
    """canonical text of a real parse result – same format as the driver's `scte35parse`"""
    sig = from_parsed(p)
    lens = ",".join(str(d["length"]) for d in p["descriptors"]) or "x"
    # descriptor_loop_length is read but not returned by the real parser: `*` here, and the
    # model's value is compared with the independent reader's instead (see strip_loop_len)
    return (f"{fmt_signal(sig)} {p['section_length']} {p['splice_command_length']} "
            f"{p['splice_command_type']} * {lens} {p['crc']} {b01(p['crc_valid'])}")


def strip_loop_len(model_line: str):
    """(`line with the descriptor_loop_length token replaced by *`, loop length) of a driver
    `scte35parse` answer"""
    t = model_line.split(" ")
    if len(t) != 10:
        return model_line, None
    ll = t[6]
    t[6] = "*"
    return " ".join(t), int(ll)


# ------------------------------------------------------------------ independent reader (oracle)

def crc32_mpeg2(data: bytes) -> int:
    """bit-serial CRC-32/MPEG-2 (ISO/IEC 13818-1 Annex A): poly 0x04C11DB7, init all ones"""
    reg = 0xFFFFFFFF
    for byte in data:
        for i in range(7, -1, -1):
            bit = (byte >> i) & 1
            top = (reg >> 31) & 1
            reg = (reg << 1) & 0xFFFFFFFF
            if top ^ bit:
                reg ^= 0x04C11DB7
    return reg


class BitReader:
    def __init__(self, data: bytes):
        self.v = int.from_bytes(data, "big")
        self.n = len(data) * 8
        self.pos = 0

    def u(self, k: int) -> int:
        if self.pos + k > self.n:
            raise EOFError("out of bits")
        shift = self.n - self.pos - k
        self.pos += k
        return (self.v >> shift) & ((1 << k) - 1)

    def skip(self, k: int):
        self.u(k)


def _read_splice_time(r: BitReader):
    if r.u(1):
        r.skip(6)
        return r.u(33)
    r.skip(7)
    return None


def decode_section(data: bytes) -> dict:
    """SCTE 35 splice_info_section, read from the standard (tables 5, 9, 10, 13, 16, 20).
    Lengths are *used* here (unlike dashlive's parser): the command occupies exactly
    splice_command_length bytes, the descriptor loop descriptor_loop_length bytes, every
    descriptor descriptor_length bytes, and the section ends section_length bytes after the
    length field.  Returns a signal dict + the raw lengths."""
    r = BitReader(data)
    out = {}
    out["table_id"] = r.u(8)
    out["section_syntax_indicator"] = bool(r.u(1))
    out["private_indicator"] = bool(r.u(1))
    out["sap_type"] = r.u(2)
    section_length = r.u(12)
    if 3 + section_length != len(data):
        raise ValueError(f"section_length {section_length} but {len(data) - 3} bytes follow")
    out["protocol_version"] = r.u(8)
    out["encrypted_packet"] = bool(r.u(1))
    out["encryption_algorithm"] = r.u(6)
    out["pts_adjustment"] = r.u(33)
    out["cw_index"] = r.u(8)
    out["tier"] = r.u(12)
    cmd_len = r.u(12)
    cmd_type = r.u(8)
    cmd_start = r.pos
    if cmd_type == 0:
        out["command"] = None
    elif cmd_type == 6:
        out["command"] = {"time_signal": _read_splice_time(r)}
    elif cmd_type == 5:
        si = dict(splice_event_id=r.u(32), cancel=bool(r.u(1)), out_of_network_indicator=True,
                  splice_immediate_flag=False, splice_time="x", components=[], break_duration=None,
                  unique_program_id=0, avail_num=0, avails_expected=0)
        r.skip(7)
        if not si["cancel"]:
            si["out_of_network_indicator"] = bool(r.u(1))
            psf = r.u(1)
            df = r.u(1)
            si["splice_immediate_flag"] = bool(r.u(1))
            r.skip(4)
            if psf and not si["splice_immediate_flag"]:
                si["splice_time"] = _read_splice_time(r)
            if not psf:
                n = r.u(8)
                for _ in range(n):
                    tag = r.u(8)
                    # NOTE the standard omits the component splice_time when splice_immediate_flag
                    # is set; dashlive always codes it – the oracle follows the bytes dashlive
                    # documents (identity of encode/parse is what C14 states)
                    si["components"].append((tag, _read_splice_time(r)))
            if df:
                ar = bool(r.u(1))
                r.skip(6)
                si["break_duration"] = (ar, r.u(33))
            si["unique_program_id"] = r.u(16)
            si["avail_num"] = r.u(8)
            si["avails_expected"] = r.u(8)
        out["command"] = {"splice_insert": si}
    else:
        raise ValueError(f"splice_command_type {cmd_type} not supported by the oracle")
    if (r.pos - cmd_start) != 8 * cmd_len:
        raise ValueError(f"splice_command_length {cmd_len} but the command is {(r.pos - cmd_start) / 8} bytes")
    loop_len = r.u(16)
    loop_end = r.pos + 8 * loop_len
    ds, dlens = [], []
    while r.pos < loop_end:
        tag = r.u(8)
        dlen = r.u(8)
        dstart = r.pos
        ident = r.u(32)
        if tag == 0:
            ds.append(("avail", ident, r.u(32)))
        elif tag == 3:
            ds.append(("time", ident, r.u(48), r.u(32), r.u(16)))
        elif tag == 2:
            s = dict(SEG_DEFAULT)
            s["event_id"] = r.u(32)
            s["cancel"] = bool(r.u(1))
            r.skip(7)
            if not s["cancel"]:
                psf = r.u(1)
                df = r.u(1)
                s["dnr"] = bool(r.u(1))
                if s["dnr"]:
                    r.skip(5)
                else:
                    s["web"], s["blk"], s["arch"] = bool(r.u(1)), bool(r.u(1)), bool(r.u(1))
                    s["devr"] = r.u(2)
                if not psf:
                    raise ValueError("component segmentation not supported by the oracle")
                if df:
                    s["duration"] = r.u(40)
                s["upid_type"] = r.u(8)
                ul = r.u(8)
                s["upid"] = bytes(r.u(8) for _ in range(ul))
                s["type"] = r.u(8)
                s["num"] = r.u(8)
                s["exp"] = r.u(8)
                if s["type"] in SUBSEG_TYPES:
                    s["sub"] = r.u(8)
                    s["subexp"] = r.u(8)
            ds.append(("seg", ident, s))
        else:
            raise ValueError(f"descriptor tag {tag} not supported by the oracle")
        if r.pos - dstart != 8 * dlen:
            raise ValueError(f"descriptor_length {dlen} but the descriptor body is {(r.pos - dstart) / 8} bytes")
        dlens.append(dlen)
    if r.pos != loop_end:
        raise ValueError("descriptor_loop_length does not end on a descriptor boundary")
    out["descriptors"] = ds
    crc = r.u(32)
    if r.pos != r.n:
        raise ValueError("bytes after the CRC")
    return {"sig": out, "section_length": section_length, "splice_command_length": cmd_len,
            "splice_command_type": cmd_type, "descriptor_loop_length": loop_len,
            "descriptor_lengths": dlens, "crc": crc,
            "crc_valid": crc32_mpeg2(data) == 0 and crc32_mpeg2(data[:-4]) == crc}


def norm(sig: dict) -> dict:
    """comparison form of a signal dict (bytes → hex, tuples → lists)"""
    import json
    def enc(o):
        if isinstance(o, (bytes, bytearray)):
            return {"hex": bytes(o).hex()}
        if isinstance(o, tuple):
            return list(o)
        raise TypeError(type(o))
    return json.loads(json.dumps(sig, default=enc, sort_keys=True))


def signal_from_json(j: dict) -> dict:
    """inverse of `norm` (replay files / corpus / ledger)"""
    sig = dict(j)
    c = sig.get("command")
    if c and "splice_insert" in c:
        si = dict(c["splice_insert"])
        si["components"] = [tuple(x) for x in si["components"]]
        if si["break_duration"] is not None:
            si["break_duration"] = tuple(si["break_duration"])
        sig["command"] = {"splice_insert": si}
    ds = []
    for d in sig.get("descriptors", []):
        d = list(d)
        if d[0] == "seg":
            s = dict(d[2])
            u = s.get("upid", b"")
            if isinstance(u, dict):
                u = bytes.fromhex(u["hex"])
            elif isinstance(u, str):
                u = bytes.fromhex(u)
            s["upid"] = u
            d[2] = s
        ds.append(tuple(d))
    sig["descriptors"] = ds
    return sig
