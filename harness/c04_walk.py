"""Independent minimal ISO-BMFF box walker for the C04 oracle.

Written from ISO/IEC 14496-12 (box header forms, which boxes are containers and
how many bytes of fields precede their children), *not* from dashlive: nothing is
imported from /repo and nothing is shared with the Lean model.

`walk(data)` returns the list of top-level `Node`s or raises `WalkError` when a
size field does not fit or the children of a container do not exactly fill it.
"""
from __future__ import annotations

import dataclasses
import struct

# containers whose payload is just a sequence of boxes
PURE_CONTAINERS = {
    b"moov", b"trak", b"mdia", b"minf", b"stbl", b"mvex", b"moof", b"traf", b"sinf", b"schi",
    b"udta", b"edts", b"dinf", b"mfra",
}
# containers with a fixed number of field bytes before the first child
VISUAL = {b"avc1", b"avc3", b"hev1", b"hvc1", b"encv"}
AUDIO = {b"mp4a", b"enca", b"ec-3", b"ac-3"}
PREFIX = {b"stsd": 8, b"wvtt": 8}
PREFIX.update({k: 78 for k in VISUAL})
PREFIX.update({k: 28 for k in AUDIO})


class WalkError(Exception):
    pass


@dataclasses.dataclass
class Node:
    type: bytes              # four-character code
    usertype: bytes          # 16 bytes for uuid boxes, else b''
    pos: int                 # offset of the first header byte
    size: int                # total size (resolved)
    header: int              # header length
    size_field: int          # the raw 32-bit size field (0 / 1 are the special forms)
    children: list | None    # None for leaves

    @property
    def end(self) -> int:
        return self.pos + self.size

    def name(self) -> str:
        if self.type == b"uuid":
            return "UUID(" + self.usertype.hex() + ")"
        return self.type.decode("latin-1")

    def find(self, *types: bytes):
        """first descendant (pre-order) with one of the given types"""
        for c in self.children or []:
            if c.type in types:
                return c
            r = c.find(*types)
            if r is not None:
                return r
        return None

    def flat(self):
        yield self
        for c in self.children or []:
            yield from c.flat()


def _cstr_end(data: bytes, pos: int, end: int) -> int:
    i = data.find(b"\0", pos, end)
    if i < 0:
        raise WalkError(f"unterminated string at {pos}")
    return i + 1


def header(data: bytes, pos: int, end: int):
    if end - pos < 8:
        raise WalkError(f"{end - pos} stray bytes at {pos}")
    size_field, typ = struct.unpack_from(">I4s", data, pos)
    hdr = 8
    size = size_field
    if size_field == 1:
        if end - pos < 16:
            raise WalkError(f"truncated largesize at {pos}")
        size = struct.unpack_from(">Q", data, pos + 8)[0]
        hdr = 16
    elif size_field == 0:
        size = len(data) - pos
    user = b""
    if typ == b"uuid":
        user = data[pos + hdr:pos + hdr + 16]
        hdr += 16
    if size < hdr:
        raise WalkError(f"box {typ!r} at {pos}: size {size} smaller than its header {hdr}")
    if pos + size > end:
        raise WalkError(f"box {typ!r} at {pos}: size {size} runs past the end of its parent ({end})")
    return Node(typ, user, pos, size, hdr, size_field, None)


def walk(data: bytes, pos: int = 0, end: int | None = None, depth: int = 0) -> list[Node]:
    if end is None:
        end = len(data)
    out = []
    while pos < end:
        n = header(data, pos, end)
        first = None
        if n.type in PURE_CONTAINERS:
            first = n.pos + n.header
        elif n.type in PREFIX:
            first = n.pos + n.header + PREFIX[n.type]
        elif n.type == b"stpp":
            p = n.pos + n.header + 8
            for _ in range(3):
                p = _cstr_end(data, p, n.end)
            first = p
        if first is not None:
            if first > n.end:
                raise WalkError(f"container {n.type!r} at {n.pos} too small for its fields")
            if depth > 64:
                raise WalkError("nesting too deep")
            n.children = walk(data, first, n.end, depth + 1)   # raises unless children fill exactly
        out.append(n)
        pos = n.end
    if pos != end:
        raise WalkError(f"children end at {pos}, parent ends at {end}")
    return out


# ---- the two pieces of context a senc box needs (ISO/IEC 23001-7) ----

def saiz_info(data: bytes, traf: Node):
    """(default_sample_info_size, [sizes]) of the first saiz in a traf, or None"""
    s = traf.find(b"saiz")
    if s is None:
        return None
    p = s.pos + s.header
    flags = int.from_bytes(data[p + 1:p + 4], "big")
    p += 4
    if flags & 1:
        p += 8
    default = data[p]
    count = struct.unpack_from(">I", data, p + 1)[0]
    sizes = list(data[p + 5:p + 5 + count]) if default == 0 else []
    return default, sizes


def tenc_iv_size(data: bytes, nodes: list[Node]):
    for top in nodes:
        for n in top.flat():
            if n.type == b"tenc":
                return data[n.pos + n.header + 4 + 3]
    return None
