"""C15 credential lifecycle: scenarios of logins, token refreshes, API/HTML logouts, account
deletions, server restarts and clock jumps run over HTTP against the real application under a
fully controlled clock (application, models/token.py and the JWT libraries), and on the Lean
model `DashLive.Life` (driver channel `lifecycle`).

A credential is probed by what it can DO: `a`/`r` – the access token (for `r`: the access token
`GET /api/refresh/access` hands out for the refresh token) is used from a cookie-less client to
change the owner's own account (POST /api/users/<own pk>); `c` – the session cookie is used from
a fresh client to change a stream's defaults.  accepted <=> the database fingerprint changed.
"""
from __future__ import annotations

import html
import re

import c15_world

ACCOUNTS = {"user": 1, "media": 2, "admin": 3}
DAY = 86400


def op_text(op) -> str:
    t = op[0]
    if t == "L":
        return f"L{ACCOUNTS[op[1]]}"
    if t in ("F", "H", "r", "c"):
        return f"{t}{op[1]}"
    if t in ("O", "a"):
        return f"{t}{op[1]}.{op[2]}"
    if t == "D":
        return f"D{ACCOUNTS[op[1]]}"
    if t == "T":
        return f"T{op[1]}"
    return "P"


def model_line(ops) -> str:
    return "lifecycle 1,2,3 " + ";".join(op_text(o) for o in ops)


def scenario(account: str, j1: int, inval: str, j2: int) -> list:
    """login; a second access token; J1 passes; (fresh access token;) invalidation; J2 passes;
    every credential of the login is probed; a new login must work (unless the account is gone)"""
    ops = [("L", account), ("F", 0)]
    if j1:
        ops.append(("T", j1))
    steps = {"none": [], "api-logout": [("F", 0), ("O", 0, 2)], "html-logout": [("H", 0)],
             "delete": [("D", account)], "restart": [("P",)],
             "restart+api-logout": [("P",), ("F", 0), ("O", 0, 2)],
             "api-logout+restart": [("F", 0), ("O", 0, 2), ("P",)]}[inval]
    ops += steps
    if j2:
        ops.append(("T", j1 + j2))
    ops += [("a", 0, 0), ("a", 0, 1), ("a", 0, 2), ("r", 0)]
    if account != "user":
        ops.append(("c", 0))
    ops += [("L", account), ("a", 1, 0)]
    return ops


def grid(thorough: bool):
    j1s = [0, 960, 7 * DAY + 60, 30 * DAY + 60] + ([600, 7200, 8 * DAY, 29 * DAY] if thorough else [])
    j2s = [0, 960] + ([7 * DAY] if thorough else [])
    out = []
    for account in ("media", "user", "admin"):
        for j1 in j1s:
            for inval in ("none", "api-logout", "html-logout", "delete", "restart",
                          "restart+api-logout", "api-logout+restart"):
                if inval == "delete" and account == "admin":
                    continue
                for j2 in j2s:
                    if j1 + j2 > 30 * DAY + 2000 and inval == "html-logout":
                        continue
                    out.append({"account": account, "j1": j1, "inval": inval, "j2": j2,
                                "ops": scenario(account, j1, inval, j2)})
    # exact lifetime boundaries (access JWT 900 s, refresh row 7 d – visible at a restart –, refresh JWT 30 d,
    # session cookie 31 d), one second before / on / after
    for j1 in (899, 900, 901, 30 * DAY - 1, 30 * DAY, 30 * DAY + 1, 31 * DAY - 1, 31 * DAY, 31 * DAY + 1):
        out.append({"account": "media", "j1": j1, "inval": "none", "j2": 0, "ops": scenario("media", j1, "none", 0)})
    for j1 in (7 * DAY - 1, 7 * DAY, 7 * DAY + 1):
        for inval in ("none", "restart"):
            out.append({"account": "media", "j1": j1, "inval": inval, "j2": 0,
                        "ops": scenario("media", j1, inval, 0)})
    return out


def run(w, ops) -> tuple[list[str], list[dict], list[dict]]:
    """execute on the real application; returns (outputs, oracle failures, trace)"""
    app = w.app
    w.restore()
    logins: list[dict | None] = []
    outs, fails, trace = [], [], []
    logged_out: dict[str, int] = {}      # account -> number of logins that existed at its last logout
    deleted: set[str] = set()
    presented: set[tuple[int, int]] = set()
    nprobe = [0]

    def bearer(tok):
        return {"Authorization": f"Bearer {tok}"}

    def self_edit(account, tok) -> bool:
        nprobe[0] += 1
        pk = w.ids["users"][account]
        before = w.user_rows()
        app.test_client().post(f"/api/users/{pk}", headers=bearer(tok), json={
            "username": account, "mustChange": False, "email": f"life{nprobe[0]}@dashlive.unit.test",
            "password": "", "confirmPassword": "",
            # an admin editing itself re-submits its groups: keep them as they are
            "userGroup": account in ("user", "media"), "mediaGroup": account == "media",
            "adminGroup": account == "admin"})
        return w.user_rows() != before

    with c15_world.controlled_clock(jwt=True) as clock:
        now = 0
        for op in ops:
            t = op[0]
            rec = {"op": op_text(op), "at_seconds": now}
            if t == "T":
                now = op[1]
                clock.at(now)
                out = "done"
                rec["what"] = f"clock = start + {now} s"
            elif t == "L":
                cl = app.test_client()
                r = w.a.login(cl, c15_world.CREDS[op[1]])
                if r.status_code == 200 and r.json.get("success"):
                    ck = cl.get_cookie("session")
                    logins.append({"account": op[1], "access": [r.json["accessToken"]["jwt"]],
                                   "refresh": r.json["refreshToken"]["jwt"], "cookie": ck.value if ck else None})
                    out = "ok"
                else:
                    logins.append(None)
                    out = "refused"
                rec["what"] = f"POST /api/login as {op[1]} -> login #{len(logins) - 1}"
            elif t == "F":
                lg = logins[op[1]] if op[1] < len(logins) else None
                out = "refused"
                if lg:
                    r = app.test_client().get("/api/refresh/access", headers=bearer(lg["refresh"]))
                    rec["status"] = r.status_code
                    if r.status_code == 200 and r.json.get("accessToken"):
                        lg["access"].append(r.json["accessToken"]["jwt"])
                        out = "ok"
                rec["what"] = f"GET /api/refresh/access with the refresh token of login #{op[1]}"
            elif t == "O":
                lg = logins[op[1]] if op[1] < len(logins) else None
                out = "refused"
                if lg and op[2] < len(lg["access"]):
                    r = app.test_client().delete("/api/login", headers=bearer(lg["access"][op[2]]))
                    rec["status"] = r.status_code
                    if r.status_code == 204:
                        out = "ok"
                        logged_out[lg["account"]] = len(logins)
                        presented.add((op[1], op[2]))
                rec["what"] = f"DELETE /api/login (API logout) with access token #{op[2]} of login #{op[1]}"
            elif t == "H":
                lg = logins[op[1]] if op[1] < len(logins) else None
                if lg and lg["cookie"]:
                    cl = app.test_client()
                    cl.set_cookie("session", lg["cookie"], domain="localhost")
                    rec["status"] = cl.get("/logout").status_code
                    if lg["account"] not in deleted:
                        logged_out[lg["account"]] = len(logins)
                out = "done"
                rec["what"] = f"GET /logout (HTML logout) with the session cookie of login #{op[1]}"
            elif t == "D":
                cl = app.test_client()
                r = w.a.login(cl, c15_world.CREDS["admin"])
                r2 = cl.delete(f"/api/users/{w.ids['users'][op[1]]}",
                               headers=bearer(r.json["accessToken"]["jwt"]))
                rec["status"] = r2.status_code
                deleted.add(op[1])
                out = "done"
                rec["what"] = f"an admin deletes account {op[1]}"
            elif t == "P":
                with app.app_context():
                    w.models.Token.prune_database(all_csrf=True, session=w.models.db.session)
                    w.models.db.session.remove()
                out = "done"
                rec["what"] = "server restart (prune_database as create_app does)"
            else:
                lg = logins[op[1]] if op[1] < len(logins) else None
                acc = False
                if lg:
                    account = lg["account"]
                    if t == "a":
                        if op[2] < len(lg["access"]):
                            acc = self_edit(account, lg["access"][op[2]])
                        rec["what"] = f"access token #{op[2]} of login #{op[1]} used to change {account}'s account"
                    elif t == "r":
                        r = app.test_client().get("/api/refresh/access", headers=bearer(lg["refresh"]))
                        rec["status"] = r.status_code
                        if r.status_code == 200 and r.json.get("accessToken"):
                            acc = self_edit(account, r.json["accessToken"]["jwt"])
                        rec["what"] = (f"refresh token of login #{op[1]} -> GET /api/refresh/access -> the access "
                                       f"token obtained used to change {account}'s account")
                    else:
                        cl = app.test_client()
                        cl.set_cookie("session", lg["cookie"], domain="localhost")
                        spk = w.ids["spk"]
                        g = cl.get(f"/stream/{spk}/defaults")
                        m = re.search(r'<input[^>]*name="csrf_token"[^>]*>', g.text)
                        before = w.db_fingerprint()
                        if m:
                            nprobe[0] += 1
                            tok = html.unescape(re.search(r'value="([^"]+)"', m.group(0)).group(1))
                            cl.post(f"/stream/{spk}/defaults", data={"csrf_token": tok, "depth": str(40 + nprobe[0])})
                        acc = w.db_fingerprint() != before
                        rec["what"] = f"session cookie of login #{op[1]} used to change a stream's defaults"
                    # oracle: a logged-out or deleted identity is anonymous
                    why = None
                    if acc:
                        if account in deleted:
                            why = "a credential of a deleted account changed persistent state"
                        elif logged_out.get(account, 0) > op[1]:
                            if t == "r":
                                why = "a refresh token issued before the logout still yields an access token that changes state"
                            elif t == "a" and (op[1], op[2]) in presented:
                                why = "the access token the API logout was called with still changes state"
                            # other access tokens (<= 15 min, stateless) and copies of the session cookie:
                            # open findings D14g / D14f, exercised through the ledger witnesses only
                    if why:
                        fails.append({"clause": why, "at": len(outs)})
                out = "accepted" if acc else "refused"
            rec["result"] = out
            outs.append(out)
            trace.append(rec)
    w.restore()
    return outs, fails, trace
