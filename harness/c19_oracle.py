"""Independent ISO-8601 / XML-Schema readers for the C19 oracle.

Written from the lexical definitions of `xs:duration` and `xs:dateTime`
(XML Schema part 2, §3.2.6 and §3.2.7) as hand-rolled scanners.  Nothing here
imports dashlive or mirrors the Lean model: no regular expression of the
implementation is reused, values are exact integers / Fractions, the calendar
is a day count written here.
"""
from __future__ import annotations

from fractions import Fraction

DIGITS = "0123456789"


class Lexical(Exception):
    pass


class _Scan:
    def __init__(self, text: str):
        self.t, self.i = text, 0

    def peek(self) -> str:
        return self.t[self.i] if self.i < len(self.t) else ""

    def take(self, ch: str) -> bool:
        if self.peek() == ch and ch:
            self.i += 1
            return True
        return False

    def digits(self) -> str:
        j = self.i
        while j < len(self.t) and self.t[j] in DIGITS:
            j += 1
        out, self.i = self.t[self.i:j], j
        return out

    def done(self) -> bool:
        return self.i == len(self.t)


def read_duration(text: str) -> dict:
    """xs:duration  ::=  '-'? 'P' (nY)? (nM)? (nD)? ('T' (nH)? (nM)? (n('.'n)?S)?)?
    with at least one field, and at least one time field after a 'T'.
    Returns the fields (ints; `seconds` as a Fraction) that are present."""
    s = _Scan(text)
    out: dict = {"negative": s.take("-")}
    if not s.take("P"):
        raise Lexical("no P designator")
    count = 0
    for unit, key in (("Y", "years"), ("M", "months"), ("D", "days")):
        mark = s.i
        d = s.digits()
        if d and s.take(unit):
            out[key] = int(d)
            count += 1
        else:
            s.i = mark
    if s.take("T"):
        tcount = 0
        for unit, key in (("H", "hours"), ("M", "minutes")):
            mark = s.i
            d = s.digits()
            if d and s.take(unit):
                out[key] = int(d)
                tcount += 1
            else:
                s.i = mark
        mark = s.i
        d = s.digits()
        if d:
            frac = ""
            if s.take("."):
                frac = s.digits()
                if not frac:
                    raise Lexical("decimal point without fraction digits")
            if not s.take("S"):
                raise Lexical("seconds without S designator")
            out["seconds"] = Fraction(int(d + frac), 10 ** len(frac))
            out["fraction_digits"] = len(frac)
            tcount += 1
        else:
            s.i = mark
        if tcount == 0:
            raise Lexical("T without a time field")
        count += tcount
    if not s.done():
        raise Lexical(f"trailing text at {s.i}")
    if count == 0:
        raise Lexical("no field")
    return out


def duration_micros(fields: dict) -> Fraction:
    """value in microseconds of a day-time duration (no years / months)"""
    if "years" in fields or "months" in fields:
        raise Lexical("year/month fields have no fixed length")
    secs = (Fraction(fields.get("days", 0)) * 86400 + fields.get("hours", 0) * 3600
            + fields.get("minutes", 0) * 60 + fields.get("seconds", Fraction(0)))
    if fields.get("negative"):
        secs = -secs
    return secs * 1000000


def _leap(y: int) -> bool:
    return y % 4 == 0 and (y % 100 != 0 or y % 400 == 0)


_CUM = (0, 31, 59, 90, 120, 151, 181, 212, 243, 273, 304, 334)
_DIM = (31, 28, 31, 30, 31, 30, 31, 31, 30, 31, 30, 31)


def day_number(y: int, m: int, d: int) -> int:
    """days since 0001-01-01 (proleptic Gregorian), counted from whole years"""
    y1 = y - 1
    n = 365 * y1 + y1 // 4 - y1 // 100 + y1 // 400 + _CUM[m - 1] + (d - 1)
    if m > 2 and _leap(y):
        n += 1
    return n


EPOCH_DAY = day_number(1970, 1, 1)


def read_datetime(text: str) -> dict:
    """xs:dateTime ::= yyyy '-' mm '-' dd 'T' hh ':' mm ':' ss ('.' s+)? (Z | (+|-) hh ':' mm)?
    (year: four or more digits).  Returns fields, the fraction as a Fraction
    of a second, `offset` in minutes (None when absent) and the instant in
    microseconds since 1970-01-01T00:00:00Z (absent zone read as UTC)."""
    s = _Scan(text)

    def fixed(n: int, what: str, at_least: bool = False) -> int:
        d = s.digits()
        if len(d) < n or (len(d) != n and not at_least):
            raise Lexical(f"{what}: expected {n} digits, got {d!r}")
        return int(d)

    def lit(ch: str) -> None:
        if not s.take(ch):
            raise Lexical(f"expected {ch!r} at {s.i}")

    year = fixed(4, "year", at_least=True)
    lit("-")
    month = fixed(2, "month")
    lit("-")
    day = fixed(2, "day")
    lit("T")
    hour = fixed(2, "hour")
    lit(":")
    minute = fixed(2, "minute")
    lit(":")
    second = fixed(2, "second")
    frac = Fraction(0)
    nfrac = 0
    if s.take("."):
        f = s.digits()
        if not f:
            raise Lexical("decimal point without digits")
        frac, nfrac = Fraction(int(f), 10 ** len(f)), len(f)
    offset = None
    if s.take("Z"):
        offset = 0
    elif s.peek() in ("+", "-") and s.peek():
        sign = -1 if s.peek() == "-" else 1
        s.i += 1
        oh = fixed(2, "zone hour")
        lit(":")
        om = fixed(2, "zone minute")
        if om > 59:
            raise Lexical("zone minute out of range")
        offset = sign * (oh * 60 + om)
    if not s.done():
        raise Lexical(f"trailing text at {s.i}")
    if not (1 <= month <= 12):
        raise Lexical("month out of range")
    dim = _DIM[month - 1] + (1 if month == 2 and _leap(year) else 0)
    if not (1 <= day <= dim) or year < 1:
        raise Lexical("day out of range")
    if hour > 23 or minute > 59 or second > 59:
        raise Lexical("time out of range")
    minutes = ((day_number(year, month, day) - EPOCH_DAY) * 24 + hour) * 60 + minute - (offset or 0)
    instant = (Fraction(minutes) * 60 + second + frac) * 1000000
    return {"year": year, "month": month, "day": day, "hour": hour, "minute": minute,
            "second": second, "fraction": frac, "fraction_digits": nfrac, "offset": offset,
            "instant": instant}
