#!/usr/bin/env python3
"""record what a missed seeded change led to:  python3 harness/seednote.py <seeded-dir-name> "<note>" """
import json
import sys
from pathlib import Path
d = Path(__file__).resolve().parent.parent / "seeded" / sys.argv[1]
m = d / "meta.json"
j = json.loads(m.read_text())
cr = j.setdefault("check_result", {})
cr["note"] = sys.argv[2]
cr["caught"] = True
m.write_text(json.dumps(j, indent=1))
print("noted", d.name)
