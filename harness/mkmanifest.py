#!/venv/bin/python
"""Regenerate /verif/MANIFEST.json from the table below (keeps it schema-valid)."""
import json
from pathlib import Path

VERIF = Path(__file__).resolve().parent.parent
PY = "/venv/bin/python"

import importlib
import sys
sys.dont_write_bytecode = True
import os
for _p in (str(VERIF / "shims"), os.environ.get("DASHLIVE_REPO", "/repo"), str(Path(__file__).resolve().parent)):
    sys.path.insert(0, _p)   # property modules may import the repo or third-party packages at top level


def claimed():
    """property -> (design section, level text, level note, technique), read from
    each harness/props/cNN.py that sets CLAIM = True and MANIFEST_ENTRY = {...}"""
    out = {}
    for f in sorted((VERIF / "harness" / "props").glob("c[0-9]*.py")):
        mod = importlib.import_module(f"props.{f.stem}")
        if not getattr(mod, "CLAIM", False):
            continue
        e = mod.MANIFEST_ENTRY
        out[mod.PROP] = (e["design_ref"], e["level_text"], e["level_note"], e["technique"])
    return out


CLAIMED = claimed()

PENDING_REASON = ("check not built yet in this round (the technique applies, see DESIGN.md section 7); "
                  "listed here only because it is not claimed at this commit")


def main():
    props = [json.loads(l)["id"] for l in (VERIF / "properties.jsonl").read_text().splitlines() if l.strip()]
    checks = []
    for pid in props:
        if pid not in CLAIMED:
            continue
        ref, text, note, tech = CLAIMED[pid]
        checks.append({
            "property_id": pid,
            "quick_cmd": f"{PY} harness/check.py {pid} --tier quick",
            "thorough_cmd": f"{PY} harness/check.py {pid} --tier thorough",
            "evidence_file": f"evidence/{pid}.json",
            "replay_cmd_template": f"{PY} harness/check.py {pid} --replay {{path}}",
            "engine": "lean4-proof+correspondence",
            "level_claimed": {"category": "proof", "text": text, "design_ref": f"DESIGN.md §{ref}"},
            "level_note": note,
            "technique": tech,
        })
    hooks_commits = []
    m = {
        "version": 1,
        "setup_cmd": f"{PY} harness/setup.py",
        "hooks": {
            "guard": "DASHLIVE_VERIF",
            "enable": "no source hooks are needed: checks import /repo in-process with /verif/shims on PYTHONPATH "
                      "and control the clock from the harness (DASHLIVE_VERIF=1 is set by check.py but read by nothing in /repo)",
            "baseline_off_cmd": "cd /repo && /venv/bin/python -m pytest -ra -q -p no:cacheprovider --timeout=900 --continue-on-collection-errors",
            "source_commits": hooks_commits,
            "add_only": True,
        },
        "engines": [{
            "name": "lean4-proof+correspondence",
            "path": "harness/check.py",
            "serves_properties": sorted(CLAIMED),
            "kind_free_text": "Lean 4 theorems about executable models (lean/DashLive), regenerated tables, "
                              "differential correspondence against the real Python code, Layer-C oracle search",
        }],
        "checks": checks,
        "notes": "See DESIGN.md. Fix commits in /repo are recorded in known_findings.json (status=fixed).",
        "not_applicable": [{"property_id": p, "reason": PENDING_REASON} for p in props if p not in CLAIMED],
    }
    (VERIF / "MANIFEST.json").write_text(json.dumps(m, indent=1) + "\n")
    print("MANIFEST.json:", len(checks), "checks,", len(m["not_applicable"]), "not claimed")


if __name__ == "__main__":
    main()
