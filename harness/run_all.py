#!/usr/bin/env python3
"""Run every check registered in MANIFEST.json (quick or thorough) with the given seeds and
print one line per run.  Used by the coordinator before committing evidence:
    python3 harness/run_all.py --tier quick --seeds 0,1,2 [--only C01,C02]
Exit 0 iff every run exited 0 and printed no VIOLATION line."""
import argparse
import json
import os
import subprocess
import sys
import time
from pathlib import Path

V = Path(__file__).resolve().parent.parent


def main():
    ap = argparse.ArgumentParser()
    ap.add_argument("--tier", default="quick")
    ap.add_argument("--seeds", default="0")
    ap.add_argument("--only")
    a = ap.parse_args()
    man = json.loads((V / "MANIFEST.json").read_text())
    bad = 0
    for c in man["checks"]:
        pid = c["property_id"]
        if a.only and pid not in a.only.split(","):
            continue
        cmd = c["quick_cmd"] if a.tier == "quick" else c.get("thorough_cmd", c["quick_cmd"])
        for seed in a.seeds.split(","):
            t0 = time.time()
            env = dict(os.environ, VERIF_SEED=seed, VERIF_TIER=a.tier)
            p = subprocess.run(cmd, shell=True, cwd=V, env=env, text=True, capture_output=True)
            out = p.stdout + p.stderr
            viol = [ln for ln in out.splitlines() if ln.startswith("VIOLATION")]
            known = sum(1 for ln in out.splitlines() if ln.startswith("KNOWN-FINDING"))
            ok = p.returncode == 0 and not viol
            bad += 0 if ok else 1
            print(f"{pid} tier={a.tier} seed={seed} exit={p.returncode} {time.time() - t0:6.1f}s "
                  f"known_findings={known} {'OK' if ok else 'ALARM ' + (viol[0] if viol else out[-300:])}", flush=True)
    return 1 if bad else 0


if __name__ == "__main__":
    sys.exit(main())
