"""Shared test environment of the C11 / C10 checks: the real Flask application
(appboot) with

* the fixture streams `bbb` (clear + `*_enc` encrypted tracks) and `tears`;
* `mk`: a copy of the encrypted bbb tracks whose stored representations list TWO
  key ids (the fixture KID + KID_B) – exercises pssh version 1 / WRMHEADER 4.2
  through HTTP; every track of an adaptation set has the same key set;
* `m3`: as `mk` with THREE key ids per track;
* `mx`: as `mk`, but only ONE of the two video tracks lists the second key id
  (the adaptation set's key set is larger than one track's) – used for the ledger
  witness of the manifest/init mismatch only;
* `va`: video tracks with the fixture KID, audio track = a copy of bbb_a1_enc whose tenc
  default_KID (the only place the key id occurs in the file) is rewritten to KID_C – the
  video and the audio adaptation set of one period use DIFFERENT single key ids;
* `nl`: encrypted bbb tracks on a stream WITHOUT stored licence URLs (the code falls back to its
  built-in default);
* `lay`: clear and encrypted video tracks whose stored init segments have permuted / extended
  moov and mvex layouts (c10_layout.py);
* `lu1`..`lu6`: streams whose STORED licence URLs cover the URL content classes (percent escapes, `+`,
  `& ; =`, place holders incl. `{kids}`, unicode, long, stray braces);
* `sd`: DRM selection, PlayReady licence URL and version stored as *stream defaults*;
* extra rows in the `key` table (computed and non-computed keys) for the ClearKey
  licence checks;
* a multi-period stream `c10mps` (period 1 = bbb, period 2 = tears, period 3 = mk).

Nothing in /repo or in the fixtures is modified: files are hard-linked into the
scratch blob folder by appboot and the patched representation JSON lives in a
temporary directory.
"""
from __future__ import annotations

import atexit
import binascii
import datetime
import json
import shutil
import tempfile
from pathlib import Path

import appboot

KID_A = bytes.fromhex("1ab45440532c439994dc5c5ad9584bac")    # the fixture key id
KID_B = bytes.fromhex("c001de8e567b5fcfbc22c565ed5bda24")
KID_D = bytes.fromhex("0f1e2d3c4b5a69788796a5b4c3d2e1f0")
KID_C = bytes.fromhex("a0d1c2e3f4054617b8291a0b1c2d3e4f")    # key id of the audio track of stream `va`
MPS_NAME = "c10mps"

# extra licence-server keys: (kid, key or None for a computed key)
EXTRA_KEYS = [
    (bytes.fromhex("00000000000000000000000000000001"), None),
    (bytes.fromhex("fffefdfcfbfaf9f8f7f6f5f4f3f2f1f0"), bytes.fromhex("0123456789abcdeffedcba9876543210")),
    (bytes.fromhex("3e3f3e3f3e3f3e3fbebfbebffbfffbff"), bytes.fromhex("fbff3e3ffbefbe3f00ff10ef20df30cf")),  # b64 with + and /
    (bytes.fromhex("a1a2a3a4b1b2c1c2d1d2e1e2e3e4e5e6"), None),
]

# licence URLs stored per stream (Stream.playready_la_url / marlin_la_url), one per URL content class
STORED_LA_URLS = {
    "lu1": "https://lic.example.com/pr/rightsmanager.asmx?cfg=%7Bab%7D&token=a%2Bb+c%26d&path=%2Fx%2Fy",   # %xx escapes and +
    "lu2": "https://lic.example.com/pr?cfg={cfgs}&kid={default_kid}&pct=%25%20%2F&amp=a&b;c=d==e",          # place holders, & ; =
    "lu3": "https://l\u00efc.example.com/\u8def\u5f84/\u00e9?q=\u00fc+1;x=2&y==3#\U0001f511",                      # unicode / IDN
    "lu4": "https://lic.example.com/long/" + "seg%2Bment+%26/" * 90 + "?cfg={cfgs}",                        # long
    "lu5": "http://lic.example.com/a+b?c=d+e&f=%26%3D%3B&g={foo}{0}{{x}}#frag%23",                          # + and stray braces
    "lu6": "https://lic.example.com/k?kids={kids}&d={default_kid}",                                        # {kids}
}

# stream `sd`: options stored as *stream defaults* (Stream.defaults), not given in the URL
SD_DEFAULTS = {"drmSelection": "playready-moov-pro,clearkey-cenc",
               "playready": {"licenseUrl": "https://sd.example.com/lic?cfg={cfgs}&t=a%2Bb+c&amp;d", "version": 3.0}}

_ENV = None


class Env:
    def __init__(self):
        self.app = appboot.get_app(("bbb", "tears"))
        self.tmp = Path(tempfile.mkdtemp(prefix="c11-env-"))
        atexit.register(shutil.rmtree, str(self.tmp), True)
        self._add_multikey_stream("mk", {"v6_enc": [KID_A, KID_B], "v7_enc": [KID_A, KID_B],
                                         "a1_enc": [KID_A, KID_B]})
        self._add_multikey_stream("mx", {"v6_enc": [KID_A], "v7_enc": [KID_A, KID_B],
                                         "a1_enc": [KID_A]})
        # three key ids per track (pssh version 1 with three KIDs, WRMHEADER 4.2 with three KID elements)
        self._add_multikey_stream("m3", {"v6_enc": [KID_A, KID_B, KID_D], "a1_enc": [KID_A, KID_B, KID_D]})
        self._add_split_key_stream()
        self._add_no_la_stream()
        self.layout_tracks = self._add_layout_stream()
        self._add_stored_la_streams()
        self._add_defaults_stream()
        self._add_extra_keys()
        self.mps_periods = self._add_mps()

    # ------------------------------------------------------------------ streams
    def _add_multikey_stream(self, directory: str, tracks: dict[str, list[bytes]]):
        src_dir = appboot.FIXTURES / "bbb"
        files = []
        for suffix, kids in tracks.items():
            stem = f"{directory}_{suffix}"
            js = json.loads((src_dir / f"rep-bbb_{suffix}.json").read_text())
            js["id"] = stem
            js["filename"] = f"{stem}.mp4"
            js["kids"] = [k.hex() for k in kids]
            (self.tmp / f"rep-{stem}.json").write_text(json.dumps(js))
            files.append((stem, src_dir / f"bbb_{suffix}.mp4"))
        self.app.add_stream(directory, f"multi key {directory}", files, real_index=False,
                            rep_cache=lambda s: self.tmp / f"rep-{s}.json")

    def _add_split_key_stream(self):
        """stream `va`: video adaptation set with KID_A, audio adaptation set with KID_C"""
        src_dir = appboot.FIXTURES / "bbb"
        files = []
        for suffix, kid in (("v6_enc", KID_A), ("v7_enc", KID_A), ("a1_enc", KID_C)):
            stem = f"va_{suffix}"
            js = json.loads((src_dir / f"rep-bbb_{suffix}.json").read_text())
            js["id"] = stem
            js["filename"] = f"{stem}.mp4"
            js["kids"] = [kid.hex()]
            js["default_kid"] = kid.hex()
            (self.tmp / f"rep-{stem}.json").write_text(json.dumps(js))
            src = src_dir / f"bbb_{suffix}.mp4"
            if kid != KID_A:
                data = src.read_bytes()
                assert data.count(KID_A) == 1, "the fixture key id is expected once (tenc default_KID)"
                src = self.tmp / f"{stem}.mp4"
                src.write_bytes(data.replace(KID_A, kid))
            files.append((stem, src))
        self.app.add_stream("va", "video and audio keys differ", files, real_index=False,
                            rep_cache=lambda s: self.tmp / f"rep-{s}.json")

    def _add_no_la_stream(self):
        """stream `nl`: encrypted bbb tracks, NO stored PlayReady / Marlin licence URL"""
        self._add_multikey_stream("nl", {"v6_enc": [KID_A], "a1_enc": [KID_A]})
        with self.app.ctx() as m:
            st = m.Stream.get(directory="nl")
            st.playready_la_url = None
            st.marlin_la_url = None
            m.db.session.commit()

    def _add_stored_la_streams(self):
        """streams lu1..lu6: encrypted bbb tracks, each with its own stored PlayReady / Marlin licence URL"""
        for directory, url in STORED_LA_URLS.items():
            self._add_multikey_stream(directory, {"v6_enc": [KID_A], "a1_enc": [KID_A]})
            with self.app.ctx() as m:
                st = m.Stream.get(directory=directory)
                st.playready_la_url = url
                st.marlin_la_url = url.replace("https://", "ms3://").replace("http://", "ms3://")
                m.db.session.commit()

    def _add_defaults_stream(self):
        self._add_multikey_stream("sd", {"v6_enc": [KID_A], "a1_enc": [KID_A]})
        with self.app.ctx() as m:
            st = m.Stream.get(directory="sd")
            st.defaults = json.loads(json.dumps(SD_DEFAULTS))
            m.db.session.commit()

    def stream_defaults(self) -> dict[str, dict]:
        """stream directory -> stored defaults (JSON column), read straight from the table"""
        with self.app.ctx() as m:
            rows = m.db.session.execute(m.db.text("SELECT directory, defaults FROM Stream")).all()
        out = {}
        for d, v in rows:
            if isinstance(v, (str, bytes)):
                v = json.loads(v)
            out[d] = v or {}
        return out

    def stored_la_urls(self) -> dict[str, str | None]:
        """stream directory -> stored PlayReady licence URL, read straight from the table"""
        with self.app.ctx() as m:
            rows = m.db.session.execute(m.db.text("SELECT directory, playready_la_url FROM Stream")).all()
        return {d: u for d, u in rows}

    def _add_layout_stream(self):
        """stream `lay`: copies of bbb_v6 (clear) and bbb_v6_enc (encrypted) whose stored init segments
        have their moov / mvex children arranged differently (see c10_layout.variants)"""
        import c10_layout
        src_dir = appboot.FIXTURES / "bbb"
        files, names = [], []
        for base in ("bbb_v6", "bbb_v6_enc"):
            data = (src_dir / f"{base}.mp4").read_bytes()
            cut = c10_layout.first_moof(data)
            js0 = json.loads((src_dir / f"rep-{base}.json").read_text())
            assert js0["segments"][0]["pos"] == 0 and js0["segments"][0]["size"] == cut
            for vname, init in c10_layout.variants(data[:cut]).items():
                stem = f"lay_{vname}_{'enc' if base.endswith('enc') else 'clr'}"
                js = json.loads(json.dumps(js0))
                js["id"] = stem
                js["filename"] = f"{stem}.mp4"
                delta = len(init) - cut
                js["segments"][0]["size"] = len(init)
                for seg in js["segments"][1:]:
                    seg["pos"] += delta
                (self.tmp / f"rep-{stem}.json").write_text(json.dumps(js))
                path = self.tmp / f"{stem}.mp4"
                path.write_bytes(init + data[cut:])
                files.append((stem, path))
                names.append(stem)
        self.app.add_stream("lay", "stored layout variety", files, real_index=False,
                            rep_cache=lambda s: self.tmp / f"rep-{s}.json")
        return names

    def _add_extra_keys(self):
        from dashlive.drm.playready import PlayReady
        with self.app.ctx() as m:
            for kid, key in EXTRA_KEYS:
                if m.Key.get(hkid=kid.hex()) is not None:
                    continue
                computed = key is None
                if key is None:
                    key = bytes(PlayReady.generate_content_key(kid))
                m.db.session.add(m.Key(hkid=kid.hex(), hkey=key.hex(), computed=computed))
            m.db.session.commit()

    def _add_mps(self):
        from dashlive.mpeg.dash.content_role import ContentRole
        out = []
        with self.app.ctx() as m:
            mps = m.MultiPeriodStream(name=MPS_NAME, title="C10/C11 multi-period stream")
            m.db.session.add(mps)
            for idx, (directory, secs) in enumerate((("bbb", 20), ("tears", 24), ("mk", 12), ("lay", 12), ("sd", 12)), start=1):
                stream = m.Stream.get(directory=directory)
                prd = m.Period(pid=f"p{idx}", parent=mps, ordering=idx, stream=stream,
                               start=datetime.timedelta(seconds=0),
                               duration=datetime.timedelta(seconds=secs))
                m.db.session.add(prd)
                seen = set()
                for mf in m.MediaFile.search(stream=stream):
                    key = (mf.content_type, mf.track_id)
                    if key in seen or mf.content_type not in ("video", "audio"):
                        continue
                    seen.add(key)
                    ct = m.ContentType.get(name=mf.content_type)
                    m.db.session.add(m.AdaptationSet(
                        period=prd, track_id=mf.track_id, role=ContentRole.MAIN, content_type=ct))
            m.db.session.commit()
            for prd in mps.periods:
                out.append((prd.pk, prd.stream.directory))
        return out

    # ------------------------------------------------------------------ queries
    def stored_keys(self) -> dict[bytes, tuple[bytes, bool]]:
        """kid -> (key, computed) read straight from the key table (read once: the checks never
        change the table after the environment is built)"""
        if getattr(self, "_keys_cache", None) is not None:
            return dict(self._keys_cache)
        self._keys_cache = self._stored_keys()
        return dict(self._keys_cache)

    def _stored_keys(self) -> dict[bytes, tuple[bytes, bool]]:
        with self.app.ctx() as m:
            rows = m.db.session.execute(m.db.text("SELECT hkid, hkey, computed FROM key")).all()
        out = {}
        for hkid, hkey, computed in rows:
            if isinstance(hkey, bytes):
                hkey = hkey.decode("ascii")
            if isinstance(hkid, bytes):
                hkid = hkid.decode("ascii")
            out[bytes.fromhex(hkid)] = (bytes.fromhex(hkey), bool(computed))
        return out

    def media(self):
        """cached: the media table does not change after the environment is built"""
        if getattr(self, "_media_cache", None) is None:
            self._media_cache = self._media()
        return [dict(m) for m in self._media_cache]

    def _media(self):
        """[(stream directory, media name, content_type, encrypted, kids (bytes), default_kid,
        init_pos, init_size, blob path)]"""
        out = []
        with self.app.ctx() as m:
            for mf in m.MediaFile.all():
                r = mf.representation
                kids = [bytes.fromhex(k.hex) for k in r.kids] if r.encrypted else []
                dk = bytes.fromhex(r.default_kid) if (r.encrypted and r.default_kid) else None
                out.append(dict(stream=mf.stream.directory, name=mf.name, content_type=mf.content_type,
                                encrypted=bool(r.encrypted), kids=kids, default_kid=dk,
                                init_pos=r.segments[0].pos, init_size=r.segments[0].size,
                                path=str(self.app.blob_folder / mf.stream.directory / f"{mf.name}.mp4"),
                                track_id=mf.track_id))
        return out


def get_env() -> Env:
    global _ENV
    if _ENV is None:
        _ENV = Env()
    return _ENV
