#!/venv/bin/python
"""Translator for C05: the `{{ … }}` interpolation sites of the manifest, patch,
segment, DRM and event templates  →  lean/DashLive/Gen/TemplateSites.lean

For every site: file, line, XML context, source expression, filter chain, whether
Jinja autoescaping is on for the file, and the *kind* of value written there.

* Sites and filter chains come from Jinja's own lexer and parser (`Environment.lex`
  / `.parse`), not from a regular expression.
* The XML context is found by running a small lexical scanner over the literal
  template text (`data` tokens) of the file: `text` (character data), `attrDq` /
  `attrSq` (inside a double/single quoted attribute value), `other` (inside a tag
  but outside a value, or inside a comment / PI / CDATA section).  `{% … %}` blocks
  are transparent: every branch of the control blocks in these templates leaves the
  scanner in the state it entered (checked at run time by the `site_table` channel,
  which renders marked copies of the templates and looks where each site lands).
* autoescape follows `flask.Flask.select_jinja_autoescape` (on for .xml, off for .mpd).
* `kind` – HAND-WRITTEN, TRUSTED classification of source expressions (`KIND`
  below), cross-checked dynamically by the same channel (sentinel strings put into
  every stored / requested string must come out only at sites of kind `untrusted`;
  sites of kind uint / duration / dateTime must render text of that lexical class).
  An expression this file does not know is classified `untrusted`, so a new site
  has to be escaped before the obligation `sites_escaped` closes again.

Byte-stable: the output is a function of the template sources only.
"""
from __future__ import annotations

import os
import re
import sys
from pathlib import Path

import jinja2
from jinja2 import nodes

VERIF = Path(__file__).resolve().parent.parent
OUT = VERIF / "lean" / "DashLive" / "Gen" / "TemplateSites.lean"
GLOBS = ["manifests/*.mpd", "patches/*.xml", "segment/*.xml", "drm/*.xml", "events/*.xml"]

FILTERS = {"isoDuration", "isoDateTime", "xmlSafe", "safe", "base64", "uuid", "trueFalse",
           "frameRateFraction", "join", "default", "sortedAttributes", "length", "toJson"}

# --------------------------------------------------------------------------------------
# TRUSTED, hand-written: what kind of value a source expression is.
#   untrusted    text that comes from the database or from the request: stream / multi-period
#                title, licence URLs, query values, URLs built from the Host header, the
#                request URL and query string, ids taken from database rows
#   uint / int   Python int computed by the code (bit rates, sizes, time stamps, counters)
#   enumCode     one of finitely many strings written in the source code
#   media        text the indexer derived from the media file (codec string, ISO-639 language,
#                sample aspect ratio); not settable through any request
#   fraction     frame rate rendered by frameRateFraction
#   base64 / hex / uuid   binary data rendered in that alphabet
#   markup       XML produced by the code itself and marked |safe
# duration / dateTime are assigned from the last filter (isoDuration / isoDateTime).
KIND = {
    "untrusted": [
        "title", "request_uri", "mpd.locationURL", "mpd.patch.location", "mpd.mpd_id",
        "period.baseURL", "mpd.period.baseURL", "period.id", "mpd.period.id", "rep.id", "rep.baseURL",
        "adp.initURL", "adp.mediaURL", "mpd.video.initURL", "mpd.video.mediaURL",
        "audio.initURL", "audio.mediaURL", 'adp.mediaURL.replace("$RepresentationID$", rep.id)',
        "mpd.timeSource.value", "DRM.clearkey.laurl", "stream.value", "la_url", "elt.value",
    ],
    "uint": [
        "mpd.patch.ttl", "adp.id", "audio.id", "adp.maxWidth", "adp.maxHeight", "adp.contentComponent.id",
        "adp.numChannels", "adp.timescale", "audio.timescale", "rep.timescale", "adp.start_number",
        "rep.start_number", "rep.segment_duration", "adp.segment_duration", "adp.presentationTimeOffset",
        "rep.width", "rep.height", "rep.sampleRate", "rep.numChannels", "rep.bitrate", "rep.startWithSAP",
        "adp.startWithSAP", "mpd.video.minBitrate", "mpd.video.maxBitrate", "mpd.video.minWidth",
        "mpd.video.maxWidth", "mpd.video.minHeight", "mpd.video.maxHeight", "audio.minBitrate",
        "audio.maxBitrate", "loop.index", "seg.duration", "seg.repeat", "seg.start", "seg.count - 1",
        "segList.timescale", "segList.duration", "segList.init.start", "segList.init.end", "seg.end",
        "segDurations.timescale", "stream.timescale", "stream.presentationTimeOffset", "event.duration",
        "event.id", "event.presentationTime", "adp.accessibility.value",
    ],
    "enumCode": [
        "mpd.profiles", "mpd.timeSource.schemeIdUri", "adp.mimeType", "adp.content_type",
        "adp.segmentAlignment", "adp.par", "adp.contentComponent.content_type", "adp.role",
        "adp.accessibility.schemeIdUri", "DRM.clearkey.scheme_id", "DRM.playready.scheme_id",
        "stream.schemeIdUri", "event.contentEncoding", "kid.alg", "rep.scanType", "elt.tag",
    ],
    "media": [
        "rep.codecs", "adp.codecs", "rep.lang", "adp.lang", "rep.language", "adp.language", "rep.sar",
    ],
    "fraction": ["adp.maxFrameRate", "rep.frameRate"],
    "base64": [
        "DRM.clearkey.cenc(adp.default_kid).encode()", "DRM.playready.cenc(adp.default_kid).encode()",
        "DRM.playready.pro(adp.default_kid)", "default_kid", "checksum", "kid.checksum", "kid.kid", "binary",
        "event.messageData",
    ],
    "hex": ["kid.hex"],
    "uuid": ["adp.default_kid"],
    "markup": ["event.data", "elt.attributes"],
}
KIND_OF = {e: k for k, es in KIND.items() for e in es}
LEAN_KIND = {"untrusted": "untrusted", "uint": "uint", "enumCode": "enumCode", "media": "media",
             "fraction": "fraction", "base64": "base64", "hex": "hex", "uuid": "uuid", "markup": "markup",
             "duration": "duration", "dateTime": "dateTime"}


def repo() -> Path:
    return Path(os.environ.get("DASHLIVE_REPO", "/repo"))


def template_files() -> list[Path]:
    root = repo() / "templates"
    out = []
    for g in GLOBS:
        out += sorted(root.glob(g))
    return out


def autoescape_for(name: str) -> bool:
    import flask
    return bool(flask.Flask("c05-gen").select_jinja_autoescape(name))


class Scanner:
    """lexical XML state over the literal text of a template"""

    def __init__(self):
        self.state = "content"

    def feed(self, text: str):
        i, n = 0, len(text)
        while i < n:
            st = self.state
            if st == "content":
                j = text.find("<", i)
                if j < 0:
                    return
                if text.startswith("<!--", j):
                    self.state, i = "comment", j + 4
                elif text.startswith("<![CDATA[", j):
                    self.state, i = "cdata", j + 9
                elif text.startswith("<?", j):
                    self.state, i = "pi", j + 2
                else:
                    self.state, i = "tag", j + 1
            elif st == "tag":
                m = re.compile(r"[\"'>]").search(text, i)
                if not m:
                    return
                self.state = {'"': "dq", "'": "sq", ">": "content"}[m.group()]
                i = m.end()
            elif st in ("dq", "sq"):
                j = text.find('"' if st == "dq" else "'", i)
                if j < 0:
                    return
                self.state, i = "tag", j + 1
            else:
                end = {"comment": "-->", "pi": "?>", "cdata": "]]>"}[st]
                j = text.find(end, i)
                if j < 0:
                    return
                self.state, i = "content", j + len(end)

    def context(self) -> str:
        return {"content": "text", "dq": "attrDq", "sq": "attrSq"}.get(self.state, "other")


def split_filters(env: jinja2.Environment, expr_src: str):
    """→ (base expression text, [filter names innermost first])"""
    tree = env.parse("{{ " + expr_src + " }}")
    out = tree.body[0]
    assert isinstance(out, nodes.Output) and len(out.nodes) == 1, expr_src
    node = out.nodes[0]
    chain = []
    while isinstance(node, nodes.Filter):
        chain.append(node.name)
        node = node.node
    chain.reverse()
    # the base expression as text: cut the source at the top-level '|' of the first filter
    depth, quote, cut = 0, None, len(expr_src)
    for i, ch in enumerate(expr_src):
        if quote:
            if ch == quote:
                quote = None
        elif ch in "\"'":
            quote = ch
        elif ch in "([{":
            depth += 1
        elif ch in ")]}":
            depth -= 1
        elif ch == "|" and depth == 0:
            cut = i
            break
    base = expr_src[:cut].strip() if chain else expr_src.strip()
    return base, chain


def classify(base: str, chain: list[str]) -> str:
    if chain and chain[-1] == "isoDuration":
        return "duration"
    if chain and chain[-1] == "isoDateTime":
        return "dateTime"
    if chain and chain[-1] == "trueFalse":
        return "enumCode"
    return KIND_OF.get(re.sub(r"\s+", " ", base), "untrusted")


def scan() -> list[dict]:
    """every interpolation site of the templates, in file / source order"""
    env = jinja2.Environment()
    env.filters.update({f: (lambda *a, **k: "") for f in FILTERS})
    sites = []
    for path in template_files():
        rel = str(path.relative_to(repo()))
        src = path.read_text()
        sc = Scanner()
        auto = autoescape_for(path.name)
        toks = list(env.lex(src))
        i = 0
        while i < len(toks):
            lineno, typ, val = toks[i]
            if typ == "data":
                sc.feed(val)
            elif typ == "variable_begin":
                j = i + 1
                parts = []
                while toks[j][1] != "variable_end":
                    parts.append(toks[j][2])
                    j += 1
                expr_src = "".join(parts).strip()
                base, chain = split_filters(env, expr_src)
                sites.append({"file": rel, "line": lineno, "ctx": sc.context(), "expr": base,
                              "source": expr_src, "filters": chain, "autoescape": auto,
                              "kind": classify(base, chain)})
                i = j
            i += 1
    return sites


def lean_str(s: str) -> str:
    return '"' + s.replace("\\", "\\\\").replace('"', '\\"') + '"'


def render(sites: list[dict]) -> str:
    lines = [
        "import DashLive.Model.Xml",
        "/-! GENERATED by harness/gen_template_sites.py from /repo/templates – do not edit.",
        "One `Site` per `{{ … }}` interpolation of the manifest, patch, segment, DRM and event",
        "templates, in file / source order.  `kind` is the hand-written classification of the",
        "source expression (trusted; cross-checked by the `site_table` channel). -/",
        "namespace DashLive.Gen.TemplateSites",
        "open DashLive.Xml",
        "",
        "def sites : List Site := [",
    ]
    rows = []
    for s in sites:
        fl = "[" + ", ".join("." + (f if f in FILTERS else "other") for f in s["filters"]) + "]"
        rows.append(
            f"  {{ file := {lean_str(s['file'])}, line := {s['line']}, ctx := .{s['ctx']}, "
            f"expr := {lean_str(s['expr'])}, filters := {fl}, "
            f"autoescape := {'true' if s['autoescape'] else 'false'}, kind := .{LEAN_KIND[s['kind']]} }}")
    lines.append(",\n".join(rows))
    lines += ["]", "", "end DashLive.Gen.TemplateSites", ""]
    return "\n".join(lines)


def main():
    text = render(scan())
    if not OUT.exists() or OUT.read_text() != text:
        OUT.parent.mkdir(parents=True, exist_ok=True)
        OUT.write_text(text)


if __name__ == "__main__":
    sys.dont_write_bytecode = True
    main()
    print(OUT)
