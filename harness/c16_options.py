"""C16 channel `opt_errors`: the real `from_string` of every registered option on
type-confused, boundary and hostile arguments – the *class* of the outcome (value /
exception type) against the Lean model (`c16opt`), and `calculate_options` as a whole
(`GET /time/xsd?<query>`: 400 iff the model says ValueError) against `c16calc`.

Oracle (the property, independent of the model): a `str` argument makes a registered
`from_string` return, raise `ValueError` (every handler answers 400) or – `drm` only –
`KeyError` (swallowed by `convert_options`); `/time/<method>` never answers ≥ 500.
"""
from __future__ import annotations

import re
import urllib.parse

import c16_http

NONSTR = {"none": None, "int0": 0, "int1": 5, "float0": 0.0, "float1": 1.5, "true": True, "false": False,
          "bytes": b"x", "list": ["a"], "dict": {"a": 1}}

EXTRA = ["9" * 5000, "99999999999999999999-01-01T00:00:00Z", "2024-01-01T00:00:00+99999999999999999:00",
         "404=" + "9" * 5000, "503=99999999999999999999-01-01T00:00:00Z", "503=P99999999999Y", "1e400",
         "all-" + "x" * 10, "ALL-CENC", "all-cenc-", "clearkey-cenc-cenc", "1_000", "1__0", "_1", "1_", "0x1f", "1.",
         ".5", "1e5", "1E-5", "1e", "e5", " 1.5 ", "infinity", "-nan", "+inf", "in", "1.5.5", "1_0.5", "1._5",
         "404 = 1", " 404=1", "404=1 ", "404=1,", ",404=1", "404=1;503=2", "404==1", "404= 1", "+404=+1",
         "4_04=1_0", "PT5S", "P1DT", "PT1H2M3.5S", "P", "PT", "PT5", "PT5:", "P1Y", "2024-03-05T10:20:30Z",
         "2024-03-05T10:20:30", "2024-03-05T10:20:30+05:30", "2024-03-05T10:20:30+24:00", "2024-03-05T10:20:30-23:59",
         "2024-03-05T10:20:60Z", "2024-02-30T00:00:00Z", "0000-01-01T00:00:00Z", "10000-01-01T00:00:00Z",
         "2024-3-5T1:2:3Z", "2024-03-05T10:20:30.123456789Z", "2024-03-05T10:20:.5Z", "2024-03-05T10:20:5.Z",
         "2024-03-05T10:20:.Z", "2024-03-05T10:20:30z", "T", "P T", "none", "NONE", "None", "", " ", "\t1\n",
         "1\x1f", "\x0c7", "true", "TRUE", "on", "1", "playready-pro", "playready-PRO", "playready-", "-", "--",
         ",", ",,", "a,,b", "none,ping", "ping,NONE", "all", "ALL", "allx", "nonexistent", "none-foo", "all-pro-moov-cenc",
         "all-pro-foo", "%41", "a+b", "a%2", "%zz%41", "=", "==", "a=b=c", "é", "٣", "٣=1", "503=٣", "\U0001F600",
         "2024-03-05", "05/03/2024", "10:20:30Z", "24:00:00Z", "Z", "1/1/1", "2024-13-01", "99:99:99Z"]

# texts from_isodatetime hands to strptime (no `T`, no leading `P`) – the model answers `other`
TAGS = sorted(NONSTR)
LONG_DIGITS = re.compile(r"[0-9_]{4000}")


def kind_code(kind: str) -> str:
    """gen_options' Lean term → the driver's kind token"""
    k = kind.strip("()").lstrip(".")
    parts = k.split()
    if len(parts) == 2:
        return f"{parts[0]}:{parts[1].strip('()')}"
    return parts[0]


def is_ascii(s: str) -> bool:
    return all(ord(c) < 128 for c in s)


def options():
    """[(cgi name, DashOption, kind token)] in registry order"""
    import gen_options
    from dashlive.server.options.repository import OptionsRepository
    kinds = {r["cgi"]: r["kind"] for r in gen_options.dump()["rows"]}
    cmap = OptionsRepository.get_cgi_map()
    return [(name, cmap[name], kind_code(kinds[name])) for name in sorted(cmap)]


def real_outcome(opt, arg) -> str:
    try:
        opt.from_string(arg)
        return "ok"
    except Exception as e:      # noqa: BLE001 – the type is the observation
        return type(e).__name__


def mutate_text(rng, s: str) -> str:
    k = rng.random()
    if not s or k < .2:
        return s + rng.choice(["", " ", "x", "0", "-", ",", "=", "T", "Z", "_", ".", "e", "\x00"])
    i = rng.randrange(len(s))
    if k < .5:
        return s[:i] + s[i + 1:]
    if k < .8:
        return s[:i] + rng.choice("0123456789-+=,.:TZP_ eE") + s[i + 1:]
    return s[:i] + s[i:] * 2


def text_pool(rng, n_random: int) -> list:
    base = list(dict.fromkeys(c16_http.GENERIC + c16_http.INT_EDGE + c16_http.DATES + c16_http.ERRSPECS + EXTRA))
    out = list(base)
    for _ in range(n_random):
        out.append(mutate_text(rng, rng.choice(base)))
    return list(dict.fromkeys(out))


# ------------------------------------------------------------------ calculate_options as a whole

def gen_calc_query(rng, names, pool, kinds) -> list:
    """queries whose date-time values keep to the modelled part of from_isodatetime"""
    q = c16_http.gen_query(rng, names, pool, kinds=kinds)
    return [[k, v] for k, v in q if is_ascii(k) and is_ascii(v) and not LONG_DIGITS.search(v)]


def query_string(q: list) -> str:
    return "&".join(f"{urllib.parse.quote(k, safe='')}={urllib.parse.quote(v, safe='')}" for k, v in q)
