#!/venv/bin/python
"""MANIFEST.setup_cmd: regenerate the tables translated from /repo, then build
every Lean module (models, lemmas, property theorems) and the driver."""
import sys
sys.dont_write_bytecode = True
import os
from pathlib import Path
HERE = Path(__file__).resolve().parent
for p in (str(HERE.parent / "shims"), os.environ.get("DASHLIVE_REPO", "/repo"), str(HERE)):
    sys.path.insert(0, p)
import common

def main():
    try:
        import gen_all
        gen_all.main()
    except ImportError:
        pass
    import gen_main
    gen_main.main()
    # root module = every model, lemma, generated table and property file present
    lean = common.LEAN
    mods = []
    for sub in ("Model", "Gen", "Lemmas", "Props"):
        for f in sorted((lean / "DashLive" / sub).rglob("*.lean")):
            mods.append(str(f.relative_to(lean))[:-5].replace("/", "."))
    (lean / "DashLive.lean").write_text(
        "-- Root of the `DashLive` library (written by harness/setup.py: every module present).\n"
        + "".join(f"import {m}\n" for m in mods))
    ok, out = common.lake_build(["DashLive", "driver"] + [f"driver_{p.lower()}" for p in sorted(gen_main.DRIVER_MODULES)])
    print(out[-3000:])
    return 0 if ok else 1

if __name__ == "__main__":
    sys.exit(main())
