#!/usr/bin/env python3
"""Re-run every seeded change (seeded/*/patch.diff) against the *current* checks and record the
outcome in its meta.json under `final_sweep` (DESIGN.md §14 is regenerated from it by
mkdesign_tables.py).  For each change: a scratch worktree of /repo HEAD outside /repo and /verif,
`git apply`, the registered quick check of its property with DASHLIVE_REPO pointing at the
worktree (evidence goes to evidence/scratch), the demo on the modified and on a clean tree,
worktree removed.  Sequential on purpose: the translators write into the shared lean/ tree.

    python3 harness/seedsweep.py [--only C01,C02] [--seed 0] [--official]

`--official` follows the brief's protocol literally instead (git -C /repo apply <file>; run; undo with
git -C /repo apply -R) – only when nothing else is using /repo.
"""
import argparse
import json
import os
import re
import subprocess
import sys
import time
from pathlib import Path

V = Path(__file__).resolve().parent.parent
PY = "/venv/bin/python"


def sh(cmd, **kw):
    return subprocess.run(cmd, text=True, capture_output=True, **kw)


def main():
    ap = argparse.ArgumentParser()
    ap.add_argument("--only")
    ap.add_argument("--seed", default="0")
    ap.add_argument("--official", action="store_true")
    ap.add_argument("--missing", action="store_true", help="only changes with no final_sweep at the current /repo HEAD")
    a = ap.parse_args()
    head = sh(["git", "-C", "/repo", "rev-parse", "--short", "HEAD"]).stdout.strip()
    wt = Path(f"/tmp/seedsweep-wt-{os.getpid()}")
    clean = Path(f"/tmp/seedsweep-clean-{os.getpid()}")
    for p in (wt, clean):
        sh(["git", "-C", "/repo", "worktree", "remove", "--force", str(p)])
    sh(["git", "-C", "/repo", "worktree", "add", "-q", "--detach", str(clean), "HEAD"])
    rows = []
    try:
        for d in sorted((V / "seeded").iterdir()):
            mp = d / "meta.json"
            if not mp.exists():
                continue
            meta = json.loads(mp.read_text())
            pid = re.match(r"C\d\d", meta.get("property") or d.name).group(0)
            if a.only and pid not in a.only.split(","):
                continue
            if a.missing and (meta.get("final_sweep") or {}).get("repo_head") == head \
                    and (meta.get("final_sweep") or {}).get("exit") is not None:
                continue
            t0 = time.time()
            res = {"repo_head": head, "seed": int(a.seed)}
            if a.official:
                target = Path("/repo")
                r = sh(["git", "-C", "/repo", "apply", str(d / "patch.diff")])
            else:
                sh(["git", "-C", "/repo", "worktree", "add", "-q", "--detach", str(wt), "HEAD"])
                target = wt
                r = sh(["git", "-C", str(wt), "apply", str(d / "patch.diff")])
            if r.returncode != 0:
                res["error"] = "patch does not apply: " + r.stderr.strip()[:200]
            else:
                env = dict(os.environ, VERIF_SEED=a.seed)
                if not a.official:
                    env["DASHLIVE_REPO"] = str(wt)
                p = sh([PY, "harness/check.py", pid, "--tier", "quick"], cwd=V, env=env)
                out = p.stdout + p.stderr
                viol = next((ln for ln in out.splitlines() if ln.startswith("VIOLATION")), None)
                res.update(check=pid, exit=p.returncode, violation_line=viol,
                           failing_input=bool(viol) and "no-failing-input-found" not in viol)
                dm = sh([PY, str(d / "demo.py"), str(target)])
                dc = sh([PY, str(d / "demo.py"), str(clean)])
                res.update(demo_modified=dm.returncode, demo_clean=dc.returncode)
            if a.official:
                sh(["git", "-C", "/repo", "apply", "-R", str(d / "patch.diff")])
                st = sh(["git", "-C", "/repo", "status", "--porcelain"]).stdout.strip()
                if st:
                    print("WARNING: /repo not clean after undo:", st, flush=True)
            else:
                sh(["git", "-C", "/repo", "worktree", "remove", "--force", str(wt)])
            res["wall_s"] = round(time.time() - t0, 1)
            meta["final_sweep"] = res
            mp.write_text(json.dumps(meta, indent=1))
            rows.append((d.name, res))
            print(f"{d.name}: exit={res.get('exit')} failing_input={res.get('failing_input')} "
                  f"demo={res.get('demo_modified')}/{res.get('demo_clean')} {res.get('error', '')} {res['wall_s']}s",
                  flush=True)
    finally:
        sh(["git", "-C", "/repo", "worktree", "remove", "--force", str(clean)])
        sh(["git", "-C", "/repo", "worktree", "remove", "--force", str(wt)])
        # restore the generated Lean files for /repo itself (every check also regenerates its own)
        sys.path.insert(0, str(V / "harness"))
        import common
        with common.lake_lock():
            sh([PY, "harness/gen_all.py"], cwd=V)
    missed = [n for n, r in rows if r.get("exit") != 1]
    print(f"{len(rows)} seeded changes, {len(rows) - len(missed)} reported as VIOLATION; not reported: {missed}")
    return 0


if __name__ == "__main__":
    sys.exit(main())
