"""C04: structured generators of well-formed ISO-BMFF trees and their token form.

A tree is what the Lean model calls a `Box`:

    ("N", typ, large, [children])                 container
    ("L", typ, large, kind, fields)               leaf; `fields` is a dict

`typ` is already the token the driver reads: 8 hex digits (four-character code)
or `u` + 32 hex digits (uuid).  `tokens(tree)` is the pre-order token stream of
`lean/DashLive/Driver/Box.lean`; the same canonical stream is produced from the
real objects by `c04_impl.impl_tokens`, so results are compared as strings.

Generators stay inside the hypotheses of the theorems (`X.Wf`, `BoxesWf`) and
inside what the library treats as one consistent fragment: one `traf` with one
`trun` whose data starts at the first byte of the following `mdat`, a `saio`
with one entry that points at the first `senc` sample, `saiz` sizes that match
the `senc` samples.  The regions outside are replayed from the ledger only.
"""
from __future__ import annotations

import struct

import c04_pool as P

PIFF = "ua2394f525a9b4f14a2446c427c648df4"
CONTAINERS = ["moov", "trak", "traf", "moof", "minf", "mvex", "mdia", "schi", "sinf", "stbl", "udta"]
LEAF_KINDS = {"ftyp": "ftyp", "styp": "ftyp", "mfhd": "mfhd", "tfhd": "tfhd", "tfdt": "tfdt",
              "trun": "trun", "saiz": "saiz", "saio": "saio", "senc": "senc", "tenc": "tenc",
              "pssh": "pssh", "mehd": "mehd", "trex": "trex", "sidx": "sidx", "emsg": "emsg",
              "dec3": "dec3"}
UNKNOWN_CODES = ["free", "skip", "mdat", "abcd", "wide", "zzzz", "Xy_1"]


def cc(name: str) -> str:
    return name.encode("latin-1").hex()


def typ_name(typ: str) -> str:
    """atom_type as the library spells it"""
    if typ.startswith("u"):
        return "UUID(" + typ[1:] + ")"
    return bytes.fromhex(typ).decode("latin-1")


def kind_of(typ: str) -> str:
    if typ.startswith("u"):
        return "senc" if typ == PIFF else "opaque"
    name = bytes.fromhex(typ).decode("latin-1")
    if name in CONTAINERS:
        return "container"
    return LEAF_KINDS.get(name, "opaque")


def hx(b: bytes) -> str:
    return bytes(b).hex() or "-"


def lst(items, f=str) -> str:
    items = list(items)
    return ",".join(f(x) for x in items) if items else "-"


def payload_tokens(kind: str, f: dict) -> list[str]:
    v, fl = str(f.get("version", 0)), str(f.get("flags", 0))
    if kind == "mfhd":
        return ["mfhd", v, fl, str(f["sequence_number"])]
    if kind == "tfdt":
        return ["tfdt", v, fl, str(f["base_media_decode_time"])]
    if kind == "mehd":
        return ["mehd", v, fl, str(f["fragment_duration"])]
    if kind == "trex":
        return ["trex", v, fl] + [str(f[k]) for k in (
            "track_id", "default_sample_description_index", "default_sample_duration",
            "default_sample_size", "default_sample_flags")]
    if kind == "tenc":
        return ["tenc", v, fl, str(f["is_encrypted"]), str(f["iv_size"]), hx(f["default_kid"])]
    if kind == "ftyp":
        return ["ftyp", hx(f["major_brand"]), str(f["minor_version"]), lst(f["compatible_brands"], hx)]
    if kind == "tfhd":
        return ["tfhd", v, fl] + [str(f[k]) for k in (
            "track_id", "base_data_offset", "sample_description_index", "default_sample_duration",
            "default_sample_size", "default_sample_flags")]
    if kind == "trun":
        return ["trun", v, fl, str(f["sample_count"]), str(f["data_offset"]), str(f["first_sample_flags"]),
                lst(f["samples"], lambda s: ":".join(str(x) for x in s))]
    if kind == "saiz":
        return ["saiz", v, fl, str(f["aux_info_type"]), str(f["aux_info_type_parameter"]),
                str(f["default_sample_info_size"]), str(f["sample_count"]), lst(f["sample_info_sizes"])]
    if kind == "saio":
        return ["saio", v, fl, str(f["aux_info_type"]), str(f["aux_info_type_parameter"]), lst(f["offsets"])]
    if kind == "senc":
        def samp(s):
            iv, subs = s
            return hx(iv) + "/" + ("+".join(f"{c}:{e}" for c, e in subs) if subs else "-")
        return ["senc", v, fl, str(f["algorithm_id"]), str(f["iv_size"]), hx(f["kid"]), lst(f["samples"], samp)]
    if kind == "pssh":
        return ["pssh", v, fl, hx(f["system_id"]), lst(f["key_ids"], hx), hx(f["data"])]
    if kind == "sidx":
        return ["sidx", v, fl, str(f["reference_id"]), str(f["timescale"]),
                str(f["earliest_presentation_time"]), str(f["first_offset"]),
                lst(f["references"], lambda r: ":".join(str(x) for x in r))]
    if kind == "emsg":
        return ["emsg", v, fl, hx(f["scheme_id_uri"]), hx(f["value"]), str(f["timescale"]),
                str(f["presentation_time_delta"]), str(f["presentation_time"]), str(f["event_duration"]),
                str(f["event_id"]), hx(f["data"])]
    if kind == "dec3":
        return ["dec3", str(f["data_rate"]), lst(f["substreams"], lambda u: ":".join(str(x) for x in u)),
                "-" if f["ext"] is None else f"{f['ext'][0]}:{f['ext'][1]}"]
    if kind == "opaque":
        return ["opaque", hx(f["data"])]
    raise ValueError(kind)


def tokens(tree) -> list[str]:
    if tree[0] == "N":
        _, typ, large, kids = tree
        out = ["N", typ, "1" if large else "0", str(len(kids))]
        for k in kids:
            out += tokens(k)
        return out
    _, typ, large, kind, f = tree
    return ["L", typ, "1" if large else "0"] + payload_tokens(kind, f)


def forest_tokens(forest) -> list[str]:
    out = []
    for t in forest:
        out += tokens(t)
    return out


# ------------------------------------------------------------------ values

def bnd(rng, bits: int) -> int:
    """boundary-biased unsigned value of the given width"""
    top = (1 << bits) - 1
    k = rng.random()
    if k < .18:
        return 0
    if k < .30:
        return 1
    if k < .45:
        return top
    if k < .55:
        return 1 << (bits - 1)
    if k < .62:
        return top - 1
    if k < .70 and bits > 8:
        return (1 << (bits // 2)) + rng.randrange(3) - 1
    return rng.randrange(top + 1)


def sbnd(rng, bits: int = 32) -> int:
    lo, hi = -(1 << (bits - 1)), (1 << (bits - 1)) - 1
    k = rng.random()
    if k < .15:
        return lo
    if k < .30:
        return hi
    if k < .45:
        return -1
    if k < .55:
        return 0
    return rng.randrange(lo, hi + 1)


def rbytes(rng, n: int) -> bytes:
    return bytes(rng.randrange(256) for _ in range(n))


def ascii4(rng) -> bytes:
    return bytes(rng.choice(b"abcdefghijklmnopqrstuvwxyz0123456789 ") for _ in range(4))


def utf8_str(rng) -> bytes:
    """UTF-8 text without NUL: empty, ASCII, and multi-byte characters"""
    k = rng.random()
    if k < .15:
        return b""
    alphabet = "abcXYZ:/.-_0189 urn"
    if k > .6:
        alphabet += "éß€日本𝄞 "
    return "".join(rng.choice(alphabet) for _ in range(rng.randrange(1, 14))).encode("utf-8")


def vflags(rng, versions=(0,), junk=True):
    v = rng.choice(versions)
    f = 0 if rng.random() < .5 or not junk else bnd(rng, 24)
    return v, f


# ------------------------------------------------------------------ leaves

def gen_fields(kind: str, rng, big: bool = False, ctx_iv: int = 8) -> dict:
    n_max = 40 if big else 6
    if kind == "mfhd":
        v, f = vflags(rng, (0, 0, 0, 1, 255))
        return dict(version=v, flags=f, sequence_number=bnd(rng, 32))
    if kind in ("tfdt", "mehd"):
        v, f = vflags(rng, (0, 0, 1, 1, 2, 255))
        name = "base_media_decode_time" if kind == "tfdt" else "fragment_duration"
        return {"version": v, "flags": f, name: bnd(rng, 64 if v == 1 else 32)}
    if kind == "trex":
        v, f = vflags(rng)
        return dict(version=v, flags=f, track_id=bnd(rng, 32), default_sample_description_index=bnd(rng, 32),
                    default_sample_duration=bnd(rng, 32), default_sample_size=bnd(rng, 32),
                    default_sample_flags=bnd(rng, 32))
    if kind == "tenc":
        v, f = vflags(rng, (0, 0, 1))
        return dict(version=v, flags=f, is_encrypted=rng.choice([0, 1, 1, bnd(rng, 24)]),
                    iv_size=rng.choice([8, 16, 0, bnd(rng, 8)]), default_kid=P.fixed(rng, 16))
    if kind == "ftyp":
        return dict(major_brand=ascii4(rng), minor_version=bnd(rng, 32),
                    compatible_brands=[ascii4(rng) for _ in range(rng.choice([0, 0, 1, 2, 5, n_max]))])
    if kind == "tfhd":
        v, _ = vflags(rng)
        f = 0
        for bit in (0, 1, 3, 4, 5, 16, 17):
            if rng.random() < .5:
                f |= 1 << bit
        if rng.random() < .15:
            f |= rng.choice([0x40, 0x80, 0x800000, 0x4])
        opt = lambda bit, bits: bnd(rng, bits) if f >> bit & 1 else 0  # noqa: E731
        return dict(version=v, flags=f, track_id=bnd(rng, 32), base_data_offset=opt(0, 64),
                    sample_description_index=opt(1, 32), default_sample_duration=opt(3, 32),
                    default_sample_size=opt(4, 32), default_sample_flags=opt(5, 32))
    if kind == "trun":
        v = rng.choice([0, 0, 1, 1, 2])
        f = 0
        for bit in (0, 2, 8, 9, 10, 11):
            if rng.random() < .5:
                f |= 1 << bit
        if f & 0x4 and f & 0x400:            # ISO 14496-12: not both
            f &= ~rng.choice([0x4, 0x400])
        if rng.random() < .1:
            f |= rng.choice([0x2, 0x10, 0x8000])
        n = rng.choice([0, 1, 1, 2, 3, n_max])
        samples = []
        for _ in range(n):
            cto = 0
            if f & 0x800:
                cto = sbnd(rng) if v != 0 else bnd(rng, 32)
            samples.append((bnd(rng, 32) if f & 0x100 else 0, bnd(rng, 32) if f & 0x200 else 0,
                            bnd(rng, 32) if f & 0x400 else 0, cto))
        return dict(version=v, flags=f, sample_count=n, data_offset=sbnd(rng) if f & 1 else 0,
                    first_sample_flags=bnd(rng, 32) if f & 4 else 0, samples=samples)
    if kind == "saiz":
        v, _ = vflags(rng)
        f = rng.choice([0, 1, 1, 0x800001, 2])
        d = rng.choice([0, 0, 8, 16, bnd(rng, 8)])
        sizes = [bnd(rng, 8) for _ in range(rng.choice([0, 1, 3, n_max]))] if d == 0 else []
        if sizes and rng.random() < .3:
            sizes = [rng.choice([8, 16, 1, 255])] * len(sizes)   # the long spelling of a constant size
        return dict(version=v, flags=f, aux_info_type=bnd(rng, 32) if f & 1 else 0,
                    aux_info_type_parameter=bnd(rng, 32) if f & 1 else 0, default_sample_info_size=d,
                    sample_count=len(sizes) if d == 0 else bnd(rng, 32), sample_info_sizes=sizes)
    if kind == "saio":
        v = rng.choice([0, 0, 1, 1, 7])
        f = rng.choice([0, 1, 1, 0x10])
        return dict(version=v, flags=f, aux_info_type=bnd(rng, 32) if f & 1 else 0,
                    aux_info_type_parameter=bnd(rng, 32) if f & 1 else 0,
                    offsets=[bnd(rng, 32 if v == 0 else 64) for _ in range(rng.choice([0, 2, 3, n_max]))])
    if kind == "pssh":
        v = rng.choice([0, 0, 1, 1, 2])
        _, f = vflags(rng)
        kids = [P.fixed(rng, 16) for _ in range(rng.choice([0, 1, 2, n_max]))] if v > 0 else []
        return dict(version=v, flags=f, system_id=P.fixed(rng, 16), key_ids=kids,
                    data=P.payload(rng, [0, 0, 1, 17, 40, 300 if big else 41]))
    if kind == "sidx":
        v = rng.choice([0, 0, 1, 1, 3])
        _, f = vflags(rng)
        w = 32 if v == 0 else 64
        refs = [(rng.randrange(2), bnd(rng, 31), bnd(rng, 32), rng.randrange(2), bnd(rng, 3), bnd(rng, 28))
                for _ in range(rng.choice([0, 1, 2, n_max]))]
        return dict(version=v, flags=f, reference_id=bnd(rng, 32), timescale=bnd(rng, 32),
                    earliest_presentation_time=bnd(rng, w), first_offset=bnd(rng, w), references=refs)
    if kind == "emsg":
        v = rng.choice([0, 1])
        _, f = vflags(rng)
        return dict(version=v, flags=f, scheme_id_uri=utf8_str(rng), value=utf8_str(rng),
                    timescale=bnd(rng, 32), presentation_time_delta=bnd(rng, 32) if v == 0 else 0,
                    presentation_time=bnd(rng, 64) if v == 1 else 0, event_duration=bnd(rng, 32),
                    event_id=bnd(rng, 32), data=P.payload(rng, [0, 0, 1, 9, 30]))
    if kind == "dec3":
        subs = []
        for _ in range(rng.choice([1, 1, 2, 3, 8])):
            dep = rng.choice([0, 0, 1, 15, bnd(rng, 4)])
            subs.append((bnd(rng, 2), bnd(rng, 5), bnd(rng, 5), bnd(rng, 3), bnd(rng, 1), dep,
                         bnd(rng, 9) if dep else 0))
        return dict(data_rate=bnd(rng, 13), substreams=subs,
                    ext=(bnd(rng, 1), bnd(rng, 8)) if rng.random() < .5 else None)
    if kind == "opaque":
        return dict(data=P.payload(rng))
    raise ValueError(kind)


def gen_cenc(rng, ctx_iv: int, big: bool):
    """a `senc` (or PIFF) box and the `saiz` that describes it"""
    v, _ = vflags(rng)
    f = 0
    alg, kid, iv = 0, b"", ctx_iv
    if rng.random() < .3:
        f |= 1
        alg, kid, iv = bnd(rng, 24), P.fixed(rng, 16), rng.choice([8, 16])
    with_subs = rng.random() < .6
    if with_subs:
        f |= 2
    if rng.random() < .1:
        f |= rng.choice([0x4, 0x100, 0x800000])
    n = rng.choice([0, 1, 2, 3, 40 if big else 5])
    samples, sizes = [], []
    for _ in range(n):
        subs = []
        if with_subs and rng.random() < .8:
            subs = [(bnd(rng, 16), bnd(rng, 32)) for _ in range(rng.choice([1, 1, 2, 3]))]
        samples.append((P.fixed(rng, iv), subs))
        sizes.append(iv + (2 + 6 * len(subs) if subs else 0))
    senc = dict(version=v, flags=f, algorithm_id=alg, iv_size=iv, kid=kid, samples=samples)
    sf = rng.choice([0, 0, 1])
    if sizes and len(set(sizes)) == 1 and rng.random() < .6:
        d, lst_, count = sizes[0], [], n
    else:
        d, lst_, count = 0, sizes, n
    saiz = dict(version=0, flags=sf, aux_info_type=0x63656e63 if sf else 0,
                aux_info_type_parameter=bnd(rng, 32) if sf else 0, default_sample_info_size=d,
                sample_count=count, sample_info_sizes=lst_)
    return senc, saiz


def maybe_large(rng) -> bool:
    return rng.random() < .12


def leaf(name_or_typ: str, kind: str, fields: dict, large=False):
    typ = name_or_typ if (len(name_or_typ) in (8, 33) and all(c in "0123456789abcdefu" for c in name_or_typ)) \
        else cc(name_or_typ)
    return ("L", typ, large, kind, fields)


def gen_unknown(rng):
    if rng.random() < .25:
        u = P.fixed(rng, 16)
        return ("L", "u" + u.hex(), maybe_large(rng), "opaque", gen_fields("opaque", rng))
    return leaf(rng.choice(UNKNOWN_CODES), "opaque", gen_fields("opaque", rng), maybe_large(rng))


TOP_LEAVES = ["ftyp", "styp", "mfhd", "tfdt", "mehd", "trex", "tenc", "pssh", "sidx", "emsg", "saiz", "saio",
              "dec3", "dec3"]


def gen_top_leaf(rng, big):
    name = rng.choice(TOP_LEAVES)
    return leaf(name, LEAF_KINDS[name], gen_fields(LEAF_KINDS[name], rng, big), maybe_large(rng))


def gen_moov(rng, big, depth=0):
    """container nest of modelled / unknown leaves (no sample description: that part
    of a moov is opaque to the model and is exercised through the fixtures)"""
    name = "moov" if depth == 0 else rng.choice(["trak", "mdia", "minf", "stbl", "mvex", "udta", "sinf", "schi"])
    kids = []
    for _ in range(rng.choice([0, 1, 2, 3, 4])):
        k = rng.random()
        if k < .35 and depth < 4:
            kids.append(gen_moov(rng, big, depth + 1))
        elif k < .8:
            n = rng.choice(["mehd", "trex", "pssh", "pssh", "mfhd", "tfdt", "sidx", "emsg"])
            kids.append(leaf(n, LEAF_KINDS[n], gen_fields(LEAF_KINDS[n], rng, big), maybe_large(rng)))
        else:
            kids.append(gen_unknown(rng))
    return ("N", cc(name), maybe_large(rng), kids)


def gen_fragment(rng, big, ctx_iv, allow_cenc=True, with_mdat=None):
    """moof (+ mdat).  Returns (boxes, cenc) where cenc = the saiz fields that
    give the senc its context, or None."""
    if with_mdat is None:
        with_mdat = rng.random() < .7
    tfhd = gen_fields("tfhd", rng, big)
    kids = [leaf("tfhd", "tfhd", tfhd, maybe_large(rng))]
    if rng.random() < .7:
        kids.append(leaf("tfdt", "tfdt", gen_fields("tfdt", rng, big), maybe_large(rng)))
    cenc = None
    group = []
    if allow_cenc and rng.random() < .55:
        senc, saiz = gen_cenc(rng, ctx_iv, big)
        cenc = saiz
        senc_typ = PIFF if rng.random() < .25 else cc("senc")
        saio = gen_fields("saio", rng, big)
        if rng.random() < .7:
            saio["offsets"] = [0] if senc["samples"] else []      # patched to the first sample
            saio["_patch"] = True
        group = [leaf("saiz", "saiz", saiz, maybe_large(rng)), leaf("saio", "saio", saio, maybe_large(rng)),
                 ("L", senc_typ, maybe_large(rng), "senc", senc)]
        if rng.random() < .3:
            # both forms of the sample encryption box (same samples): with the saiz behind them
            # the parser defers two boxes and has to put both back in place
            twin = PIFF if senc_typ != PIFF else cc("senc")
            group.append(("L", twin, maybe_large(rng), "senc", dict(senc)))
        if rng.random() < .2:
            group.append(gen_unknown(rng))
        rng.shuffle(group)
        if rng.random() < .3:
            group = [g for g in group if g[3] != "saio"]
    elif rng.random() < .3:
        group = [leaf("saiz", "saiz", gen_fields("saiz", rng, big), maybe_large(rng))]
        if rng.random() < .5:
            group.append(leaf("saio", "saio", gen_fields("saio", rng, big), maybe_large(rng)))
    n_trun = 1 if with_mdat else rng.choice([0, 1, 1, 2])
    truns = []
    for _ in range(n_trun):
        t = gen_fields("trun", rng, big)
        if with_mdat:
            t["_patch"] = True
            if not t["flags"] & 1 and not tfhd["flags"] & 1:
                t["flags"] |= 1            # otherwise the run would start at the moof itself
        truns.append(leaf("trun", "trun", t, maybe_large(rng)))
    if with_mdat and tfhd["flags"] & 1 and any(not t[4]["flags"] & 1 for t in truns):
        # the base is then the first byte of the mdat payload, behind the senc: a saio entry
        # (unsigned, relative to the base) cannot address the senc samples
        for g in group:
            if g[3] == "saio" and g[4].pop("_patch", None):
                g[4]["offsets"] = [0, 0]
    if rng.random() < .5:
        kids += group + truns
    else:
        kids += truns + group
    if rng.random() < .15:
        kids.append(gen_unknown(rng))
    moof_kids = [leaf("mfhd", "mfhd", gen_fields("mfhd", rng, big), maybe_large(rng)),
                 ("N", cc("traf"), maybe_large(rng), kids)]
    if not with_mdat and rng.random() < .2:
        # a second, clear track fragment
        moof_kids.append(("N", cc("traf"), False, [leaf("tfhd", "tfhd", gen_fields("tfhd", rng, big))]))
    boxes = [("N", cc("moof"), maybe_large(rng), moof_kids)]
    if with_mdat:
        boxes.append(leaf("mdat", "opaque", dict(data=P.payload(rng, [0, 1, 16, 64])), maybe_large(rng)))
    return boxes, cenc


def gen_forest(rng, big=False):
    """a whole input: returns (forest, ctx) with ctx = (iv_size, saiz_default, saiz_sizes)"""
    ctx_iv = rng.choice([8, 8, 16])
    forest = []
    cenc = None
    shape = rng.random()
    if shape < .30:
        for _ in range(rng.choice([1, 1, 2, 4])):
            forest.append(gen_top_leaf(rng, big) if rng.random() < .8 else gen_unknown(rng))
    elif shape < .45:
        forest.append(gen_moov(rng, big))
        if rng.random() < .5:
            forest.insert(0, gen_top_leaf(rng, big))
    else:
        if rng.random() < .5:
            forest.append(leaf("styp", "ftyp", gen_fields("ftyp", rng, big), maybe_large(rng)))
        if rng.random() < .4:
            forest.append(leaf("sidx", "sidx", gen_fields("sidx", rng, big), maybe_large(rng)))
        for _ in range(rng.choice([0, 0, 1, 2])):
            forest.append(leaf("emsg", "emsg", gen_fields("emsg", rng, big), maybe_large(rng)))
        with_mdat = rng.random() < .7
        boxes, cenc = gen_fragment(rng, big, ctx_iv, with_mdat=with_mdat)
        forest += boxes
        if rng.random() < .2:
            # every fragment of one input has an mdat or none has, and every mdat uses the same
            # header form (the library looks up "the" mdat of the file, not the one after the moof)
            more, _ = gen_fragment(rng, big, ctx_iv, allow_cenc=False, with_mdat=with_mdat)
            first_mdat = [b for b in forest if b[0] == "L" and b[1] == cc("mdat")]
            for i, b in enumerate(more):
                if b[0] == "L" and b[1] == cc("mdat"):
                    more[i] = (b[0], b[1], first_mdat[0][2], b[3], b[4])
            forest += more
    ctx = (ctx_iv, cenc["default_sample_info_size"] if cenc else 0, cenc["sample_info_sizes"] if cenc else [])
    return forest, ctx


def ctx_tokens(ctx) -> list[str]:
    return [str(ctx[0]), str(ctx[1]), lst(ctx[2])]


# ------------------------------------------------------------------ offsets that must agree with the layout

def patch_offsets(forest, nodes):
    """second pass: `nodes` is the independent walker's view of the first
    encoding.  Point every marked trun at the first byte after the mdat header
    and every marked saio at the first senc sample."""
    mdat = next((n for n in nodes if n.type == b"mdat"), None)
    for tree, node in zip(forest, nodes):
        if tree[0] != "N" or tree[1] != cc("moof"):
            continue
        moof_pos = node.pos
        target = node.end + mdat.header if mdat is not None else None
        for sub, sub_node in zip(tree[3], node.children):
            if sub[0] != "N" or sub[1] != cc("traf"):
                continue
            pairs = [(k, kn) for k, kn in zip(sub[3], sub_node.children) if k[0] == "L"]
            tfhd = next((k[4] for k, _ in pairs if k[3] == "tfhd"), None)
            truns = [k[4] for k, _ in pairs if k[3] == "trun" and k[4].get("_patch")]
            base = moof_pos
            if tfhd is not None and tfhd["flags"] & 1 and tfhd.get("_base_mode"):
                # the grid pins the explicit base: start of the file, the moof, the mdat payload
                base = {"zero": 0, "moof": moof_pos, "mdat": target}[tfhd["_base_mode"]]
                tfhd["base_data_offset"] = base
            elif tfhd is not None and tfhd["flags"] & 1:
                if any(not t["flags"] & 1 for t in truns) and target is not None:
                    base = target              # a run without data_offset starts at the base itself
                else:
                    base = moof_pos + tfhd["base_data_offset"] % 64
                tfhd["base_data_offset"] = base
            for t in truns:
                if target is not None and t["flags"] & 1:
                    t["data_offset"] = target - base
            for k, kn in pairs:
                if k[3] == "saio" and k[4].get("_patch"):
                    senc = next(((s, sn) for s, sn in pairs if s[3] == "senc" and s[1] == cc("senc")), None)
                    if senc and senc[0][4]["samples"]:
                        first = senc[1].pos + senc[1].header + 4 + (20 if senc[0][4]["flags"] & 1 else 0) + 4
                        limit = 1 << (32 if k[4]["version"] == 0 else 64)
                        assert 0 <= first - base < limit
                        k[4]["offsets"] = [first - base]
    return forest


def strip_marks(forest):
    for t in forest:
        if t[0] == "N":
            strip_marks(t[3])
        else:
            t[4].pop("_patch", None)
            t[4].pop("_rebase", None)
            t[4].pop("_base_mode", None)
    return forest


# ------------------------------------------------------------------ deterministic grid (the same for every seed)

def boundaries(bits: int) -> list[int]:
    top = (1 << bits) - 1
    pool = {0, 1, 2, top, top - 1, 1 << (bits - 1)}
    for e in (31, 32, 33, 53, 63):
        pool |= {(1 << e) - 1, 1 << e, (1 << e) + 1}
    return sorted(v for v in pool if 0 <= v <= top)


def _frag(kids, large=False):
    import random
    r = random.Random(7)
    tfhd = dict(version=0, flags=0x020000, track_id=1, base_data_offset=0, sample_description_index=0,
                default_sample_duration=0, default_sample_size=0, default_sample_flags=0)
    return [("N", cc("moof"), large, [leaf("mfhd", "mfhd", dict(version=0, flags=0, sequence_number=1)),
                                      ("N", cc("traf"), False, [leaf("tfhd", "tfhd", tfhd)] + kids)])]


GRID_FIELDS = {     # kind -> [(field, bits for version 0, bits for version 1)]
    "mfhd": [("sequence_number", 32, 32), ("flags", 24, 24)],
    "tfdt": [("base_media_decode_time", 32, 64)],
    "mehd": [("fragment_duration", 32, 64)],
    "trex": [("track_id", 32, 32), ("default_sample_description_index", 32, 32), ("default_sample_duration", 32, 32),
             ("default_sample_size", 32, 32), ("default_sample_flags", 32, 32)],
    "tenc": [("is_encrypted", 24, 24), ("iv_size", 8, 8)],
    "ftyp": [("minor_version", 32, 32)],
    "sidx": [("reference_id", 32, 32), ("timescale", 32, 32), ("earliest_presentation_time", 32, 64),
             ("first_offset", 32, 64)],
    "emsg": [("timescale", 32, 32), ("event_duration", 32, 32), ("event_id", 32, 32),
             ("presentation_time_delta", 32, None), ("presentation_time", None, 64)],
    "dec3": [("data_rate", 13, 13)],
}


def grid_cases():
    """fixed list of (label, forest, ctx): every numeric field of every modelled class at every boundary of
    its width in both versions, lists of 0/1/2/3 items, every header form, every order of the children of
    a traf, every content class in every opaque field, long payloads around power-of-two sizes"""
    import itertools
    import random
    out = []
    ctx0 = (8, 0, [])
    for kind, fields in GRID_FIELDS.items():
        for ver in (0, 1):
            r = random.Random(f"grid:{kind}:{ver}")
            for field, b0, b1 in fields:
                bits = b1 if ver else b0
                if bits is None:
                    continue
                for v in boundaries(bits):
                    f = gen_fields(kind, r)
                    if "version" in f and kind not in ("mfhd", "trex", "tenc"):
                        if f["version"] != ver:
                            f = dict(f, version=ver)
                            for fld, c0, c1 in fields:      # re-fit the width-dependent fields
                                w = c1 if ver else c0
                                f[fld] = 0 if w is None else min(f.get(fld, 0), (1 << w) - 1)
                    elif ver == 1:
                        continue
                    f[field] = v
                    name = "styp" if kind == "ftyp" and v % 2 else kind
                    out.append((f"{kind}.{field}={v}", [leaf(name, kind, f)], ctx0))
    # list lengths 0..3 and header forms
    r = random.Random("grid:lists")
    for n in (0, 1, 2, 3):
        f = gen_fields("ftyp", r); f["compatible_brands"] = [ascii4(r) for _ in range(n)]
        out.append((f"ftyp.brands#{n}", [leaf("ftyp", "ftyp", f)], ctx0))
        f = gen_fields("pssh", r); f["version"] = 1; f["key_ids"] = [P.fixed(r, 16) for _ in range(n)]
        out.append((f"pssh.key_ids#{n}", [leaf("pssh", "pssh", f)], ctx0))
        f = gen_fields("sidx", r); f["references"] = [(k % 2, boundaries(31)[-1 - k], boundaries(32)[k], 1 - k % 2, 7 - k,
                                                        boundaries(28)[-1 - k]) for k in range(n)]
        out.append((f"sidx.references#{n}", [leaf("sidx", "sidx", f)], ctx0))
        for ver in (0, 1):
            f = dict(version=ver, flags=0, aux_info_type=0, aux_info_type_parameter=0,
                     offsets=[boundaries(64 if ver else 32)[-1 - k] for k in range(n)])
            out.append((f"saio.v{ver}.offsets#{n}", [leaf("saio", "saio", f)], ctx0))
        f = dict(version=0, flags=1, aux_info_type=0x63656e63, aux_info_type_parameter=0, default_sample_info_size=0,
                 sample_count=n, sample_info_sizes=[0, 255, 8][:n])
        out.append((f"saiz.sizes#{n}", [leaf("saiz", "saiz", f)], ctx0))
        f = gen_fields("dec3", r); f["substreams"] = f["substreams"][:1] * (n + 1)
        out.append((f"dec3.substreams#{n + 1}", [leaf("dec3", "dec3", f)], ctx0))
        for ver in (0, 1):
            t = dict(version=ver, flags=0xF01, sample_count=n, data_offset=[-2**31, 2**31 - 1, -1, 0][n],
                     first_sample_flags=0,
                     samples=[(boundaries(32)[-1 - k], boundaries(32)[k], 2**32 - 1,
                               ([-2**31, 2**31 - 1, -1] if ver else [2**32 - 1, 2**31, 0])[k]) for k in range(n)])
            out.append((f"trun.v{ver}.samples#{n}", _frag([leaf("trun", "trun", t)]), ctx0))
    for kind in ("mfhd", "tfdt", "emsg", "pssh", "sidx", "dec3", "opaque"):
        f = gen_fields(kind, r)
        name = "free" if kind == "opaque" else kind
        out.append((f"{kind}.largesize", [leaf(name, kind, f, True)], ctx0))
    out.append(("uuid.largesize", [("L", "u" + P.fixed(r, 16).hex(), True, "opaque", dict(data=b"xyz"))], ctx0))
    # tfhd: each optional field alone and all together, at the boundaries
    for bit, field, bits in ((0, "base_data_offset", 64), (1, "sample_description_index", 32),
                             (3, "default_sample_duration", 32), (4, "default_sample_size", 32),
                             (5, "default_sample_flags", 32)):
        for v in boundaries(bits):
            f = dict(version=0, flags=(1 << bit) | 0x020000, track_id=2**32 - 1, base_data_offset=0,
                     sample_description_index=0, default_sample_duration=0, default_sample_size=0, default_sample_flags=0)
            f[field] = v
            out.append((f"tfhd.{field}={v}", [("N", cc("moof"), False, [("N", cc("traf"), False, [leaf("tfhd", "tfhd", f)])])], ctx0))
    # every order of the sample-encryption group around the trun (deferred parsing of senc / PIFF)
    r = random.Random("grid:order")
    senc, saiz = gen_cenc(r, 8, False)
    while not senc["samples"] or senc["flags"] & 1:
        senc, saiz = gen_cenc(r, 8, False)
    group = [leaf("saiz", "saiz", saiz), leaf("saio", "saio", dict(version=0, flags=0, aux_info_type=0,
                                                                    aux_info_type_parameter=0, offsets=[0, 0])),
             leaf("senc", "senc", senc), ("L", PIFF, False, "senc", dict(senc)),
             leaf("trun", "trun", dict(version=0, flags=0, sample_count=0, data_offset=0, first_sample_flags=0, samples=[]))]
    ctx = (8, saiz["default_sample_info_size"], saiz["sample_info_sizes"])
    for perm in itertools.permutations(range(5)):
        out.append(("traf-order:" + "".join(map(str, perm)), _frag([copy_tree(group[i]) for i in perm]), ctx))
    # senc: 0..3 samples x sub-sample counts, IV 8/16, with and without the override
    for iv in (8, 16):
        for n in (0, 1, 2, 3):
            for over in (0, 1):
                samples = [(P.fixed(r, iv), [(boundaries(16)[-1 - j], boundaries(32)[-1 - j]) for j in range(k)])
                           for k in range(n)]
                flags = 2 | over
                sf = dict(version=0, flags=flags, algorithm_id=2**24 - 1 if over else 0, iv_size=iv,
                          kid=P.fixed(r, 16) if over else b"", samples=samples)
                sizes = [iv + (2 + 6 * len(sub) if sub else 0) for _, sub in samples]
                sz = dict(version=0, flags=0, aux_info_type=0, aux_info_type_parameter=0, default_sample_info_size=0,
                          sample_count=n, sample_info_sizes=sizes)
                out.append((f"senc.iv{iv}.samples#{n}.override{over}",
                            _frag([leaf("saiz", "saiz", sz), leaf("senc", "senc", sf)]), (iv, 0, sizes)))
    # every content class in every opaque field; fixed-width fields that start with '0x'
    for cls in P.CLASSES:
        rr = random.Random("grid:" + cls)
        data = P.content(rr, cls)
        e = gen_fields("emsg", rr); e["data"] = data
        ps = gen_fields("pssh", rr); ps["data"] = data
        out.append((f"content:{cls}", [leaf("free", "opaque", dict(data=data)), leaf("emsg", "emsg", e),
                                       leaf("pssh", "pssh", ps), ("L", "u" + P.fixed(rr, 16).hex(), False, "opaque",
                                                                  dict(data=data)), leaf("mdat", "opaque", dict(data=data))], ctx0))
    for i in range(8):
        rr = random.Random(f"grid:fixed:{i}")
        ps = gen_fields("pssh", rr); ps["version"] = 1
        ps["system_id"] = (b"0x" + b"0123456789abcdef")[:16] if i == 0 else P.fixed(rr, 16)
        ps["key_ids"] = [(b"0x" + b"00112233445566")[:16], P.fixed(rr, 16)]
        te = gen_fields("tenc", rr); te["default_kid"] = b"0xdeadbeefcafe00" if i == 0 else P.fixed(rr, 16)
        out.append((f"fixed-width:{i}", [leaf("pssh", "pssh", ps), leaf("tenc", "tenc", te)], ctx0))
    # explicit tfhd.base_data_offset (flag present): 0 = start of the file (falsy but legal), the moof, the
    # mdat payload x the moof at offset 0 / behind a styp x encrypted (saiz, one-entry saio, senc) / clear
    for mode in ("zero", "moof", "mdat"):
        for prefix in (False, True):
            for enc in (False, True):
                rr = random.Random(f"grid:base:{mode}:{prefix}:{enc}")
                tf = dict(version=0, flags=0x01, track_id=1, base_data_offset=0, sample_description_index=0,
                          default_sample_duration=0, default_sample_size=0, default_sample_flags=0, _base_mode=mode)
                kids = [leaf("tfhd", "tfhd", tf), leaf("tfdt", "tfdt", dict(version=0, flags=0, base_media_decode_time=9))]
                c = ctx0
                if enc:
                    iv = b"0x" + bytes(range(6))
                    kids += [leaf("saiz", "saiz", dict(version=0, flags=0, aux_info_type=0, aux_info_type_parameter=0,
                                                       default_sample_info_size=8, sample_count=1, sample_info_sizes=[])),
                             leaf("saio", "saio", dict(version=0, flags=0, aux_info_type=0, aux_info_type_parameter=0,
                                                       offsets=[0] if mode != "mdat" else [0, 0],
                                                       **({"_patch": True} if mode != "mdat" else {}))),
                             leaf("senc", "senc", dict(version=0, flags=0, algorithm_id=0, iv_size=8, kid=b"", samples=[(iv, [])]))]
                    c = (8, 8, [])
                kids.append(leaf("trun", "trun", dict(version=0, flags=0x201, sample_count=1, data_offset=0,
                                                      first_sample_flags=0, samples=[(0, 4, 0, 0)], _patch=True)))
                forest = ([leaf("styp", "ftyp", dict(major_brand=b"msdh", minor_version=0, compatible_brands=[b"msdh"]))]
                          if prefix else []) + \
                    [("N", cc("moof"), False, [leaf("mfhd", "mfhd", dict(version=0, flags=0, sequence_number=1)),
                                               ("N", cc("traf"), False, kids)]),
                     leaf("mdat", "opaque", dict(data=b"abcd"))]
                out.append((f"explicit-base:{mode}:{'styp' if prefix else 'start'}:{'enc' if enc else 'clear'}", forest, c))
    # strings: escapes, entities, placeholders, multi-byte
    for i, txt in enumerate(["urn:a%20b+c&d;e=f", "&nbsp;&#0;&lt;", "{placeholder} }{", "0x1234", "日本語€𝄞", "", "a" * 1024]):
        e = gen_fields("emsg", random.Random(i)); e["scheme_id_uri"] = txt.encode(); e["value"] = txt[::-1].encode()
        out.append((f"string:{i}", [leaf("emsg", "emsg", e)], ctx0))
    return out


def long_payload_cases(sizes):
    out = []
    for n in sizes:
        data = bytes((i * 7 + n) & 0xFF for i in range(n))
        out.append((f"payload#{n}", [leaf("styp", "ftyp", dict(major_brand=b"msdh", minor_version=0, compatible_brands=[])),
                                     leaf("free", "opaque", dict(data=data[: n // 3])),
                                     leaf("mdat", "opaque", dict(data=data))], (8, 0, [])))
    return out


def copy_tree(t):
    import copy
    return copy.deepcopy(t)
