"""C15: turn (table row, credential/flag vector, parameter overlay) into one concrete HTTP request
against the real application, execute it, and report what can be observed.

vector (the components of `DashLive.Auth.Request`):
  session       none | user | media | admin      whose session cookie is presented
  token         none | guest | user | media | admin   whose bearer token is presented (guest = the
                access token GET /api/refresh/access issues to every visitor); independent of `session`
  refresh       the presented token is that account's refresh token (else its access token)
  ajax targetExists csrfPresent csrfOk            Booleans
  target        victim | guest | user | media | admin   the user row named in the URL (api-edit-user)
Components a row cannot realise are normalised (no loader -> the target exists; a JSON body is always
`is_ajax()` …), so that the vector handed to the Lean model describes exactly the request that was sent.
The *actor* of a vector – whose CSRF cookie/tokens, own-account fields and login body are used – is the
session's account, else the token owner's, else the anonymous visitor.
"""
from __future__ import annotations

import io
import urllib.parse

ROLES = ["user", "media", "admin"]
SESSIONS = ["none"] + ROLES
TOKENS = ["none", "guest"] + ROLES
TARGETS = ["victim", "guest"] + ROLES
BOOL_FLAGS = ["ajax", "targetExists", "csrfPresent", "csrfOk"]

USERNAMES = {}


def chain(row: dict) -> list[dict]:
    return list(reversed(row["classDecorators"])) + row["methodDecorators"] + row["bodyGuards"]


def csrf_service(row: dict) -> str | None:
    """the CSRF service the handler checks – also when the check comes after the first write
    (`lateCsrf`: then it is no guard of the chain, but the request still carries a token)"""
    for g in chain(row):
        if g["g"] in ("csrfdec", "csrfbody"):
            return g["service"]
    late = row.get("lateCsrf") or []
    return late[0] if late else None


def csrf_optional(row: dict) -> bool:
    return any(g["g"] == "csrfdec" and g["optional"] for g in chain(row))


CSRF_REFUSALS = ["csrf:tampered", "csrf:other-service", "csrf:other-cookie", "csrf:empty", "csrf:missing"]


def guard_token(g: dict) -> str:
    p = {"none": "-", "user": "u", "media": "m", "admin": "a"}
    b = lambda x: "1" if x else "0"   # noqa: E731
    k = g["g"]
    if k == "login":
        return f"login:{b(g['html'])}:{b(g['admin'])}:{p[g['perm']]}"
    if k == "jwt":
        return f"jwt:{b(g['refresh'])}:{b(g['optional'])}"
    if k == "jwtlogin":
        return f"jwtlogin:{b(g['admin'])}:{p[g['perm']]}"
    if k == "csrfdec":
        return f"csrfdec:{b(g['next'])}:{b(g['optional'])}"
    if k == "csrfbody":
        return "csrfbody"
    if k == "loader":
        return "loader"
    if k == "selforadmin":
        return f"selforadmin:{b(g['who'] == 'jwt')}"
    if k == "spa":
        return "spa"
    return "other"


def vec(session="none", token="none", refresh=False, ajax=False, targetExists=True, target="victim",
        csrfPresent=True, csrfOk=True) -> dict:
    return {"session": session, "token": token, "refresh": refresh, "ajax": ajax,
            "targetExists": targetExists, "target": target, "csrfPresent": csrfPresent, "csrfOk": csrfOk}


def veckey(v: dict) -> str:
    fl = "".join("1" if v[n] else "0" for n in BOOL_FLAGS)
    return f"{v['session']}/{v['token']}{':refresh' if v['refresh'] else ''}/{v['target']}/{fl}"


def vec_from_key(k: str) -> dict:
    s, t, e, fl = k.split("/")
    refresh = t.endswith(":refresh")
    t = t.split(":")[0]
    v = vec(session=s, token=t, refresh=refresh, target=e)
    for n, c in zip(BOOL_FLAGS, fl):
        v[n] = c == "1"
    return v


def is_shadow(x: str) -> bool:
    """s0, s1, …: the USER-group accounts with odd stored names (c15_world.SHADOWS)"""
    return x.startswith("s") and x[1:].isdigit()


def actor(v: dict) -> str:
    if v["session"] != "none":
        return v["session"]
    if v["token"] not in ("none", "guest"):
        return v["token"]
    return "anonymous"


def held(v: dict) -> set:
    """the accounts the caller has proved to hold (the guest account is nobody's)"""
    return {x for x in (v["session"], v["token"]) if x not in ("none", "guest")}


def model_ident(x: str) -> str:
    """identity class of an account in the Lean model: every USER-group-only account is `user`"""
    return "user" if is_shadow(x) else x


def model_line(row: dict, v: dict) -> str:
    gs = ",".join(guard_token(g) for g in chain(row)) or "-"
    fl = "".join("1" if v[n] else "0" for n in BOOL_FLAGS)
    session = "nobody" if v["session"] == "none" else model_ident(v["session"])
    token = model_ident(v["token"]) + (":refresh" if v["refresh"] and v["token"] != "none" else "")
    if is_shadow(v["target"]):
        # a shadow account named in the URL is the caller's own account or somebody else's
        target = "user" if v["target"] in (v["session"], v["token"]) else "nobody"
    else:
        target = "nobody" if v["target"] == "victim" else v["target"]
    return f"authz {row['kind']} {session} {token} {target} {fl} {gs}"


# ---------------------------------------------------------------------------
# URL parameters

def target_pk(w, target: str) -> int:
    if target == "victim":
        return w.ids["victim"]
    if target == "guest":
        return w.ids["guest"]
    return w.ids["users"][target]


def url_values(w, row: dict, exists: bool, target: str) -> dict:
    ids = w.ids
    route = row["route"]
    v = {
        "spk": ids["spk"], "mfid": ids["mfid"], "segnum": 1, "kpk": ids["kpk"],
        "mps_name": ids["mps"], "ppk": ids["ppk"], "stream": "bbb", "filename": ids["bbb_video"],
        "manifest": "hand_made.mpd", "mode": "vod", "segment_num": "1", "segment_time": 0,
        "ext": "m4v", "publish": 1, "method": "iso", "username": "user",
    }
    if route == "esm-wrapper":
        v["filename"] = "c15.js"
    if route in ("video", "video-mps", "mpd-patch"):
        v["manifest"] = "hand_made"
    if route == "api-edit-user":
        v["upk"] = target_pk(w, target)
    if route.startswith("mps-") or route == "video-mps":
        v["filename"] = ids["bbb_video"]
    if not exists:
        # the object the row's loader looks up does not exist
        loaders = [g["what"] for g in chain(row) if g["g"] == "loader"]
        if "stream" in loaders:
            v["spk"] = 99999
            v["stream"] = "nosuchstream"
        if "mediafile" in loaders:
            v["mfid"] = 99998
            v["filename"] = "nosuchfile"
        if "key" in loaders:
            v["kpk"] = 99997
        if "mps" in loaders:
            v["mps_name"] = "nosuchmps"
        if "manifest" in loaders:
            v["manifest"] = "nosuch.mpd"
        if "user" in loaders:
            v["upk"] = 99996
    return v


# ---------------------------------------------------------------------------
# bodies that make the state change succeed when the guards let the caller through

def username_of(w, pk: int) -> str:
    if not USERNAMES:
        USERNAMES.update({w.ids["victim"]: "c15victim", w.ids["guest"]: "_AnonymousUser_"})
        for apk, name in w.ids["all_accounts"]:
            USERNAMES.setdefault(apk, name)
    return USERNAMES.get(pk, "nobody")


def body_for(w, row: dict, role: str, values: dict):
    """(kind, payload, extra query) – kind ∈ none|form|json|multipart"""
    route, verb = row["route"], row["method"]
    ids = w.ids
    key = (route, verb)
    if key in {("add-key", "POST")}:
        return "form", {"new_key": "1", "hkid": "a1" * 16, "hkey": "b2" * 16, "computed": "off"}, {}
    if key in {("edit-key", "POST")}:
        return "form", {"new_key": "0", "hkid": ids["hkid"], "hkey": "c3" * 16, "computed": "off"}, {}
    if key in {("add-key", "PUT"), ("edit-key", "PUT")}:
        return "none", None, {"kid": "d4" * 16, "key": "e5" * 16}
    if key in {("add-stream", "POST")}:
        return "form", {"title": "C15 added stream", "prefix": "c15added", "marlin_la_url": "",
                        "playready_la_url": ""}, {}
    if key in {("add-stream", "PUT")}:
        return "json", {"title": "C15 added stream", "directory": "c15added", "marlin_la_url": "",
                        "playready_la_url": ""}, {}
    if key == ("view-stream", "POST"):
        return "form", {"title": "C15 retitled", "directory": "c15s", "marlin_la_url": "",
                        "playready_la_url": "https://c15.example/pr", "timing_ref": ""}, {}
    if key == ("edit-stream-defaults", "POST"):
        return "form", {"abr": "0", "depth": "35"}, {}
    if key == ("upload-blob", "POST"):
        return "multipart", {"file": (io.BytesIO(w.upload_bytes), "c15_t9.mp4", "video/mp4"),
                             "submit": "submit"}, {}
    if key == ("inspect-media", "POST"):
        return "multipart", {"file": (io.BytesIO(w.upload_bytes), "c15_t9.mp4", "video/mp4")}, {}
    if key == ("edit-media", "POST"):
        return "form", {"track_id": "7", "lang": "eng"}, {}
    if key == ("check-media-changes", "POST"):
        return "json", {"lang": "eng", "track_id": "3"}, {}
    if key == ("api-add-mps", "PUT"):
        return "json", {"name": "c15added", "title": "C15 added mps", "periods": []}, {}
    if key == ("api-edit-mps", "POST"):
        return "json", {"pk": ids["mps_pk"], "name": ids["mps"], "title": "C15 retitled mps",
                        "periods": [], "options": None}, {}
    if key == ("api-validate-mps", "POST"):
        return "json", {"name": "c15other", "title": "C15 other", "periods": []}, {}
    if key == ("api-list-users", "PUT"):
        return "json", {"username": "c15added", "email": "c15added@dashlive.unit.test",
                        "password": "pw-123456", "confirmPassword": "pw-123456",
                        "userGroup": True, "mustChange": False}, {}
    if key == ("api-edit-user", "POST"):
        return "json", {"username": username_of(w, values.get("upk")),
                        "email": "c15-changed@dashlive.unit.test", "mustChange": False,
                        "password": "new-pw-1234", "confirmPassword": "new-pw-1234",
                        "userGroup": True}, {}
    if key == ("api-login", "POST"):
        u, p = w.creds.get(role, ("nobody", "wrong"))
        return "json", {"username": u, "password": p, "rememberme": False}, {}
    if key == ("clearkey", "POST"):
        return "json", {"kids": ["AAAAAAAAAAAAAAAAAAAAAA"], "type": "temporary"}, {}
    if verb in ("POST", "PUT"):
        return "form", {}, {}
    return "none", None, {}


# ---------------------------------------------------------------------------
# parameter overlays: what else a role can put into a request, built from what it can
# legitimately obtain (its own account as its login JSON shows it, the JSON of objects it may
# read).  Identifiers in the BODY are deliberately combined with other identifiers in the URL.

OVERLAYS = ["minimal", "own-account", "other-ids", "full-target", "victim-ids"]


def overlay_fields(w, row: dict, role: str, name: str, values: dict) -> tuple[dict, bool]:
    """(fields, base_wins) – fields merged into the body and the query string; with
    base_wins the body that makes the change succeed keeps its own values"""
    s = w.sessions[role]
    ids = w.ids
    if name == "minimal":
        return {}, False
    if name == "own-account":
        acc = s.account
        if not acc:
            return {}, False
        groups = [g.upper() for g in acc.get("groups", [])]
        f = {"username": acc.get("username"), "mustChange": False,
             "userGroup": "USER" in groups, "mediaGroup": "MEDIA" in groups, "adminGroup": "ADMIN" in groups}
        if acc.get("pk") is not None:
            f.update({"pk": acc["pk"], "upk": acc["pk"], "id": acc["pk"], "user_pk": acc["pk"], "user": acc["pk"]})
        return {k: v for k, v in f.items() if v is not None}, False
    if name == "other-ids":
        other = s.readable.get("other_stream", {})
        f = {"pk": ids["bbb_spk"], "spk": ids["bbb_spk"], "stream": ids["bbb_spk"], "stream_pk": ids["bbb_spk"],
             "id": ids["bbb_spk"], "directory": other.get("directory", "bbb"), "mps_name": ids["mps"]}
        key = s.readable.get("key", {})
        if key.get("pk") is not None:
            f["kpk"] = key["pk"]
        return f, False
    if name == "full-target":
        route = row["route"]
        if route in ("api-edit-user", "api-list-users"):
            # the body of the caller's own edit form (what the single page application sends)
            f, _ = overlay_fields(w, row, role, "own-account", values)
            f = dict(f)
            if s.account.get("email"):
                f["email_was"] = s.account["email"]
            return f, True
        if "mps" in route:
            return dict(s.readable.get("mps", {})), True
        if "key" in route:
            return dict(s.readable.get("key", {})), True
        return dict(s.readable.get("stream", {})), True
    if name == "victim-ids":
        return {"pk": ids["victim"], "upk": ids["victim"], "id": ids["victim"], "user_pk": ids["victim"],
                "user": ids["victim"], "username": "c15victim"}, False
    raise ValueError(name)


def token_value(w, v: dict) -> str | None:
    if v["token"] == "none":
        return None
    if v["token"] == "guest":
        return None if v["refresh"] else w.sessions["anonymous"].access
    s = w.sessions[v["token"]]
    return s.refresh if v["refresh"] else s.access


def normalise(w, row: dict, v: dict) -> dict | None:
    """the vector that the concrete request will really realise; None if it cannot be built
    legitimately (a valid token for a service that no page hands to the actor; a guest refresh token)"""
    f = dict(v)
    ch = chain(row)
    kinds = {g["g"] for g in ch}
    if f["token"] == "none":
        f["refresh"] = False
    if f["token"] == "guest" and f["refresh"]:
        return None
    s = w.sessions[actor(f)]
    if "loader" not in kinds:
        f["targetExists"] = True
    if row["route"] != "api-edit-user":
        f["target"] = "victim"
    svc = csrf_service(row)
    if svc is None:
        f["csrfPresent"] = False
        f["csrfOk"] = False
    else:
        if not f["csrfPresent"]:
            f["csrfOk"] = False
        elif f["csrfOk"] and svc not in s.csrf:
            return None
    kind, _, _ = body_for(w, row, actor(f), {"upk": 0})
    if kind == "json":
        f["ajax"] = True
    return f


def tamper(tok: str) -> str:
    """flip one character of the signature part (after unquoting, so that the decoded
    token really differs)"""
    raw = urllib.parse.unquote(tok)
    i = 12 if len(raw) > 13 else len(raw) - 1
    ch = "A" if raw[i] != "A" else "B"
    return urllib.parse.quote(raw[:i] + ch + raw[i + 1:])


JWT_LOCATION_OVERLAYS = ["jwt-in-query", "jwt-in-cookie", "jwt-in-body"]
MISSING_IDS = [99990, 2 ** 31 - 1, 2 ** 31, 2 ** 63 - 1]


def _pick(row: dict, v: dict, n: int) -> int:
    """deterministic rotation of spellings over the cases (no randomness, stable across runs)"""
    return sum(ord(c) for c in row["route"] + row["method"] + veckey(v)) % n


def execute(w, row: dict, v: dict, overlay: str = "minimal", restore: bool = True) -> dict:
    """restore the snapshot (unless the case is part of a history), send the request, observe"""
    if restore:
        w.restore()
    role = actor(v)
    s = w.sessions[role]
    values = url_values(w, row, v["targetExists"], v["target"])
    if not v["targetExists"]:
        # ids of objects that do not exist: ordinary and at the 2^31 / 2^63 boundaries
        big = MISSING_IDS[_pick(row, v, len(MISSING_IDS))]
        for name in ("spk", "mfid", "kpk", "upk"):
            if isinstance(values.get(name), int) and values[name] >= 99990:
                values[name] = big
    kind, payload, query = body_for(w, row, role, values)
    query = dict(query)
    jwt_location = overlay if overlay in JWT_LOCATION_OVERLAYS else None
    csrf_variant = overlay.split(":", 1)[1] if overlay.startswith("csrf:") else None
    extra, base_wins = ({}, False) if (jwt_location or csrf_variant) else overlay_fields(w, row, role, overlay, values)
    if extra:
        if kind in ("form", "json", "multipart"):
            payload = {**extra, **payload} if base_wins else {**payload, **extra}
            if kind != "json":
                payload = {k: (v if not isinstance(v, bool) else ("on" if v else "")) for k, v in payload.items()
                           if v is not None}
        q_extra = {k: v for k, v in extra.items() if v is not None and not isinstance(v, bool)}
        query = {**q_extra, **query} if base_wins else {**query, **q_extra}
    svc = csrf_service(row)
    token = None
    flags = v
    if svc is not None and flags["csrfPresent"]:
        if flags["csrfOk"]:
            token = s.csrf[svc]
        elif svc in s.csrf:
            # an invalid token: modified / empty string / issued for another service
            how = _pick(row, v, 3)
            other = [t for k, t in sorted(s.csrf.items()) if k != svc]
            token = tamper(s.csrf[svc]) if how == 0 or (how == 2 and not other) else ("" if how == 1 else other[0])
        else:
            # the role holds no token for this service: the closest thing it owns is a
            # token for another service
            token = s.csrf.get("files") or s.csrf.get("streams")
    if csrf_variant and svc is not None:
        # one refusal reason, explicitly (the vector says: a token is present and not valid / absent)
        own = s.csrf.get(svc) or next(iter(sorted(s.csrf.values())), None)
        if csrf_variant == "tampered":
            token = tamper(own)
        elif csrf_variant == "other-service":
            token = next((t for k, t in sorted(s.csrf.items()) if k != svc), tamper(own))
        elif csrf_variant == "other-cookie":
            # a genuine, unused token for this service that the server issued against ANOTHER csrf cookie
            donor = next((w.sessions[a] for a in ("admin", "media", "user", "anonymous")
                          if a != role and svc in w.sessions[a].csrf), None)
            token = donor.csrf[svc] if donor else tamper(own)
        elif csrf_variant == "empty":
            token = ""
        else:
            token = None
    if token is not None:
        query["csrf_token"] = token
        if kind in ("form", "json", "multipart"):
            payload = dict(payload)
            payload["csrf_token"] = token
    if flags["ajax"] and kind != "json":
        # is_ajax() accepts `ajax=1` in the query string and in the form
        if kind in ("form", "multipart") and _pick(row, v, 2):
            payload = dict(payload)
            payload["ajax"] = "1"
        else:
            query["ajax"] = "1"
    with w.app.test_request_context():
        args = {k: v for k, v in values.items()}
        adapter = w.app.url_map.bind("localhost")
        rule_args = next(r for r in w.app.url_map.iter_rules() if r.endpoint == row["route"]).arguments
        path = adapter.build(row["route"], {k: args[k] for k in rule_args}, method=None)
    headers = {}
    tok = token_value(w, v)
    if tok:
        headers["Authorization"] = f"Bearer {tok}"
    client = w.app.test_client()
    if jwt_location:
        # an admin's access token presented anywhere but in the Authorization header: the application
        # only reads the header, so this caller is anonymous
        admin_tok = w.sessions["admin"].access
        if jwt_location == "jwt-in-query":
            query["jwt"] = admin_tok
            query["access_token"] = admin_tok
        elif jwt_location == "jwt-in-cookie":
            client.set_cookie("access_token_cookie", admin_tok, domain="localhost")
            client.set_cookie("access_token", admin_tok, domain="localhost")
        elif kind in ("form", "json", "multipart"):
            payload = dict(payload)
            payload["access_token"] = admin_tok
            payload["jwt"] = admin_tok
        else:
            query["access_token"] = admin_tok
    if v["session"] != "none":
        client.set_cookie("session", w.sessions[v["session"]].session_cookie, domain="localhost")
    if s.csrf_cookie:
        client.set_cookie("csrf", s.csrf_cookie, domain="localhost")
    code = w.body_code(row["route"], row["method"])
    w.hits.clear()
    kw = {"method": row["method"], "query_string": query, "headers": headers}
    if kind == "json":
        kw["json"] = payload
    elif kind == "form":
        kw["data"] = payload
    elif kind == "multipart":
        kw["data"] = payload
        kw["content_type"] = "multipart/form-data"
    resp = client.open(path, **kw)
    entered = code in w.hits
    changed = w.changes()
    changed_users = w.changed_users() if "User" in changed else []
    desc = {"method": row["method"], "path": path, "query": {k: (v if k != "csrf_token" else "<token>") for k, v in query.items()},
            "body_kind": kind, "session_cookie_of": v["session"],
            "bearer_token_of": v["token"] + (" (refresh token)" if v["refresh"] and v["token"] != "none" else ""),
            "csrf_cookie_and_tokens_of": role}
    # the request sequence that reproduces the case from scratch
    def lab(x):
        return f"{x} (USER-group account stored as {w.creds[x][0]!r}, pk {w.ids['users'][x]})" if is_shadow(x) else x
    seq = []
    if v["session"] != "none":
        seq.append(f"POST /api/login as '{lab(v['session'])}' -> session cookie"
                   + (", access and refresh token" if v["token"] == v["session"] else ""))
    if v["token"] == "guest":
        seq.append("GET /api/refresh/access without a refresh token -> access token of the guest account")
    elif v["token"] != "none" and v["token"] != v["session"]:
        seq.append(f"POST /api/login as '{v['token']}' -> its {'refresh' if v['refresh'] else 'access'} token")
    if token is not None:
        seq.append(f"GET /streams?ajax=1 as '{role}' -> csrf cookie and tokens"
                   + ("" if flags["csrfOk"] else " (token then modified / of another service)"))
    seq.append(f"{row['method']} {path} with " + ", ".join(
        [f"the session cookie of '{v['session']}'" if v["session"] != "none" else "no session cookie",
         (f"Authorization: Bearer <{'refresh' if v['refresh'] else 'access'} token of '{v['token']}'>"
          if v["token"] != "none" else "no bearer token")]) + (f", {kind} body" if kind != "none" else ""))
    desc["sequence"] = seq
    if kind in ("form", "json") and payload:
        desc["body"] = {k: (val if k != "csrf_token" else "<token>") for k, val in payload.items()
                        if isinstance(val, (str, int, bool, type(None), list))}
    desc["overlay"] = overlay
    if extra:
        desc["overlay_fields"] = {k: extra[k] for k in sorted(extra)}
    return {"status": resp.status_code, "entered": entered, "changed": changed,
            "changed_users": changed_users, "request": desc}
