"""Boot the real dash-live Flask application in-process (DESIGN.md §2).

* /verif/shims on sys.path supplies the four packages missing from /venv.
* in-memory SQLite, a scratch instance directory created per process.
* streams are registered from /repo/tests/fixtures/<name> (real indexing with
  `Representation.load`, or the fixture's rep-*.json cache) or from synthetic
  files written by mp4synth into the scratch blob folder.
* the clock is replaced exactly the way upstream's tests do it
  (`datetime.datetime` subclass with a patched `now`).
"""
from __future__ import annotations

import atexit
import binascii
import contextlib
import datetime
import json
import logging
import os
import shutil
import sys
import tempfile
import time
from pathlib import Path
from unittest import mock

REPO = Path(os.environ.get("DASHLIVE_REPO", "/repo"))
FIXTURES = REPO / "tests" / "fixtures"

ADMIN = ("admin", "suuuperSecret!")
MEDIA = ("media", "m3d!a")
USER = ("user", "pa55word")

_real_datetime = datetime.datetime


class Clock:
    """controlled `datetime.datetime.now()` / `time.time()`; settable at any time"""

    def __init__(self, now: datetime.datetime | str):
        self.set(now)

        outer = self

        class _Meta(type):
            def __instancecheck__(cls, obj):
                return isinstance(obj, _real_datetime)

        class _Base(_real_datetime):
            @classmethod
            def now(cls, tz=None):
                n = outer.now
                if tz is None:
                    return n.replace(tzinfo=None)
                return n.astimezone(tz)

            @classmethod
            def utcnow(cls):
                return outer.now.replace(tzinfo=None)

        self._cls = _Meta("datetime", (_Base,), {})
        self._p1 = mock.patch.object(datetime, "datetime", self._cls)
        self._p2 = mock.patch.multiple(time, time=lambda: outer.now.timestamp())

    def set(self, now):
        if isinstance(now, str):
            from dashlive.utils.date_time import from_isodatetime
            now = from_isodatetime(now)
        if now.tzinfo is None:
            now = now.replace(tzinfo=datetime.timezone.utc)
        self.now = now

    def __enter__(self):
        self._p1.start()
        self._p2.start()
        return self

    def __exit__(self, *a):
        self._p2.stop()
        self._p1.stop()
        return False


class App:
    def __init__(self, blob_folder: Path | None = None, quiet: bool = True):
        from dashlive.server import models
        from dashlive.server.app import create_app
        self.models = models
        self.scratch = Path(tempfile.mkdtemp(prefix="dashlive-verif-"))
        atexit.register(shutil.rmtree, str(self.scratch), True)
        self.blob_folder = Path(blob_folder) if blob_folder else self.scratch / "media" / "blobs"
        config = {
            'BLOB_FOLDER': str(self.blob_folder),
            'DASH': {
                'ALLOWED_DOMAINS': '*',
                'CSRF_SECRET': 'test.csrf.secret',
                'DEFAULT_ADMIN_USERNAME': ADMIN[0],
                'DEFAULT_ADMIN_PASSWORD': ADMIN[1],
            },
            'UPLOAD_FOLDER': str(self.scratch / "media" / "uploads"),
            'SECRET_KEY': 'cookie.secret',
            'SQLALCHEMY_DATABASE_URI': "sqlite:///:memory:",
            'TESTING': True,
            'LOG_LEVEL': 'critical',
            'PREFERRED_URL_SCHEME': 'http',
        }
        self.app = create_app(config=config, instance_path=str(self.scratch),
                              create_default_user=False, wss=False)
        if quiet:
            logging.disable(logging.CRITICAL)
        self.app.config['PROPAGATE_EXCEPTIONS'] = False   # a crash must surface as a 500 response
        self.app.testing = False
        with self.app.app_context():
            for (name, pw), mask in ((ADMIN, models.Group.ADMIN), (USER, models.Group.USER),
                                     (MEDIA, models.Group.USER + models.Group.MEDIA)):
                models.db.session.add(models.User(
                    username=name, email=f"{name}@dashlive.unit.test",
                    password=models.User.hash_password(pw), groups_mask=mask, must_change=False))
            models.User.get_guest_user()
            for name in ["application", "video", "audio", "text", "image"]:
                if models.ContentType.get(name=name) is None:
                    models.db.session.add(models.ContentType(name=name))
            models.db.session.commit()

    def client(self):
        return self.app.test_client()

    @contextlib.contextmanager
    def ctx(self):
        with self.app.app_context():
            yield self.models

    # ---------------------------------------------------------------- streams
    def add_fixture_stream(self, name: str, title: str | None = None, with_subs: bool = True,
                           real_index: bool = True, files: list[str] | None = None,
                           directory: str | None = None):
        """register tests/fixtures/<name>/*.mp4 as a stream (files are linked into
        the scratch blob folder, never modified)"""
        src_dir = FIXTURES / name
        stems = files or sorted(p.stem for p in src_dir.glob(f"{name}_[avt]*.mp4")
                                if with_subs or "_t" not in p.stem)
        return self.add_stream(directory or name, title or name,
                               [(s, src_dir / f"{s}.mp4") for s in stems],
                               real_index=real_index,
                               rep_cache=lambda s: src_dir / f"rep-{s}.json")

    def add_stream(self, directory: str, title: str, files: list[tuple[str, Path]],
                   real_index: bool = True, rep_cache=None, timing_from: str | None = None):
        from dashlive.drm.playready import PlayReady
        from dashlive.mpeg import mp4
        from dashlive.mpeg.dash.representation import Representation
        from dashlive.utils.date_time import from_isodatetime
        models = self.models
        dest = self.blob_folder / directory
        dest.mkdir(parents=True, exist_ok=True)
        with self.app.app_context():
            stream = models.Stream(title=title, directory=directory,
                                   marlin_la_url=f"ms3://localhost/marlin/{directory}",
                                   playready_la_url=PlayReady.TEST_LA_URL)
            mfs = []
            for stem, src in files:
                filename = f"{stem}.mp4"
                tgt = dest / filename
                if not tgt.exists():
                    try:
                        os.link(src, tgt)
                    except OSError:
                        shutil.copyfile(src, tgt)
                rep = None
                cache = rep_cache(stem) if rep_cache else None
                if not real_index and cache is not None and cache.exists():
                    js = json.loads(cache.read_text())
                    if js.get('version') == Representation.VERSION:
                        rep = Representation(**js)
                if rep is None:
                    with tgt.open("rb", buffering=16384) as f:
                        atoms = mp4.Mp4Atom.load(f)
                    rep = Representation.load(filename, atoms)
                ct = rep.content_type
                blob = models.Blob(filename=filename, created=from_isodatetime("2022-09-01T12:23:00Z"),
                                   size=tgt.stat().st_size, sha1_hash=str(tgt), content_type=ct,
                                   auto_delete=False)
                mf = models.MediaFile(name=stem, stream=stream, bitrate=rep.bitrate,
                                      content_type=rep.content_type,
                                      codec_fourcc=(rep.codecs or "").split('.')[0],
                                      track_id=rep.track_id, encrypted=rep.encrypted, blob=blob)
                mf.set_representation(rep)
                mfs.append(mf)
                want_ref = (timing_from == stem) if timing_from else (rep.content_type == 'video')
                if stream.timing_reference is None and want_ref:
                    stream.timing_reference = mf.as_stream_timing_reference()
            models.db.session.add(stream)
            for mf in mfs:
                models.db.session.add(mf.blob)
                models.db.session.add(mf)
            models.db.session.commit()
            # keys for encrypted tracks (as upstream's add_media_keys)
            kids = set()
            for mf in models.MediaFile.all():
                r = mf.representation
                if r is None or not r.encrypted:
                    continue
                for kid in r.kids:
                    if kid.raw in kids:
                        continue
                    kids.add(kid.raw)
                    if models.Key.get(hkid=kid.hex) is None:
                        key = binascii.b2a_hex(PlayReady.generate_content_key(kid.raw))
                        models.db.session.add(models.Key(hkid=kid.hex, hkey=key, computed=True))
            models.db.session.commit()
            return stream.pk

    def login(self, client, who=MEDIA):
        r = client.post('/api/login', json={'username': who[0], 'password': who[1], 'rememberme': False})
        return r


_APP = None


def get_app(streams=("bbb",), **kw) -> App:
    """process-wide application with the named fixture streams registered"""
    global _APP
    if _APP is None:
        _APP = App()
        _APP._streams = set()
    for s in streams:
        if s not in _APP._streams:
            _APP.add_fixture_stream(s, title={"bbb": "Big Buck Bunny", "tears": "Tears of Steel"}.get(s, s), **kw)
            _APP._streams.add(s)
    return _APP
