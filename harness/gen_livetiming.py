#!/venv/bin/python
"""Translator: `DashTiming.__init__` + `DashTiming.calculate_live_params`
(dashlive/mpeg/dash/timing.py) → Lean (`lean/DashLive/Gen/LiveTiming.lean`), regenerated from
/repo's SOURCE TEXT on every run.  `Props/GenTieLiveTiming.lean` proves the translated
definitions equal to `LiveTiming.calculateLiveParams`, the hand-written model every C08 theorem
(and C09's `window_from_timing`) is about.

What is translated
------------------
`__init__` with the call `self.calculate_live_params(now, options)` replaced by the body of that
method (mode = 'live' is folded; the VOD branch is dead).  `self` is a record with the fields the
code writes (timeShiftBufferDepth, availabilityStartTime, elapsedTime, minimumUpdatePeriod,
firstAvailableTime, leeway, publishTime); the definition returns the final value of each.
Python is dynamically typed, so one definition is generated per *kind* of
`options.availabilityStartTime` ('epoch' | 'today' | 'month' | 'year' | 'now' | a datetime), and
inside each definition one `match` arm per None/int combination of `options.timeShiftBufferDepth`,
`options.minimumUpdatePeriod`, `options.leeway` (the conditions the types decide – `x is None`,
`not None`, `'today' == 'epoch'` – are folded by pytolean and only the live branch is translated).

Representation (the same as the hand-written model)
---------------------------------------------------
* a tz-aware `datetime` = Int microseconds since 1970-01-01T00:00:00Z; `now` (and everything
  derived from it) carries the UTC zone; an explicit start carries a whole-minute UTC offset, so
  `replace(microsecond=0)` on it is the floor of the *instant* to a whole second;
* a `timedelta` = Int microseconds; `datetime ± timedelta`, `datetime − datetime` = Int `±`.

The datetime / float idioms are mapped here, one source pattern each (anything else raises
`CannotTranslate`, nothing is defaulted):

| source pattern | Lean |
|---|---|
| `x.replace(microsecond=0)` | `x - x % 1000000` (`%` = Euclidean, result ≥ 0, as the microsecond field) |
| `now.replace(hour=0, minute=0, second=0, microsecond=0)` | `now - now % 86400000000` (UTC day) |
| `now.replace(day=1, hour=0, …)` / `now.replace(month=1, day=1, hour=0, …)` | `floorMonth now` / `floorYear now` – **parameters** of the generated definitions; the tie instantiates them with the calendar walk of `Model/Calendar.lean` (tied to Python's calendar by the `calendar` correspondence channel, every day 1970…2243) |
| `x.hour`, `x.minute` (x in UTC) | `Int.fdiv (x % 86400000000) 3600000000`, `Int.fdiv ((x % 86400000000) % 3600000000) 60000000` |
| `datetime.datetime(1970, 1, 1, 0, 0, tzinfo=UTC())` | the constant, computed by this generator with the stdlib |
| `datetime.timedelta(days=a, seconds=b, microseconds=c)` | `a * 86400000000 + b * 1000000 + c` |
| `t // datetime.timedelta(…)` (timedelta // timedelta, an exact int) | `Int.fdiv t (…)` (pytolean's `//`) |
| `t.total_seconds() == k`, `t.total_seconds() < k` (k an int) | `t = k * 1000000`, `t < k * 1000000` |
| `int(t.total_seconds())` | `Int.tdiv t 1000000` |
| `int(t.total_seconds() // k)` | `Int.fdiv t (k * 1000000)` |
| `round(c * a / b)` (c a float constant with an integral value) | `pyRound (c * a) b` – **parameter** "Python's round of the quotient"; the tie instantiates it with the model's round-half-to-even |
| `not x` for an int x / for None | `x = 0` / `True` |
| `self.DEFAULT_TIMESHIFT_BUFFER_DEPTH` | the class constant read from the class body |
| an `int | None` field read where the path condition says `… is not None` | `Option.getD x 0` (exact on that path; the value is only selected by an `if` on the same condition) |

`total_seconds()` goes through a float in Python (`µs / 10**6`, correctly rounded); the integer
reading above is exact while |t| < 2^33 s (< 2^53 µs and the double still separates neighbouring
microseconds from whole seconds) – the `livetiming` correspondence channel of C08 validates it on
the real code and keeps its generators inside that bound.  `round(2.0*sd/ts)` likewise (sd < 2^51).

Not translated: the `logging.*` statements (pytolean skips them).  Python does evaluate their
arguments; `… // self.stream_reference.segment_duration` inside one of them raises
ZeroDivisionError for a reference with segment_duration = 0 – outside C08's quantifier
(segment_duration ≥ 1, see ASSUMPTIONS of props/c08.py).  The attributes `self.mode`, `self.now`,
`self.stream_reference` are plain copies of the arguments (checked by statement text).
"""
from __future__ import annotations

import ast
import copy
import datetime
import itertools
import os
from pathlib import Path

from pytolean import INT, OPT, PROP, STR, CannotTranslate, Ctx, DataClass, Translator

REPO = Path(os.environ.get("DASHLIVE_REPO", "/repo"))
OUT = Path(__file__).resolve().parent.parent / "lean" / "DashLive" / "Gen" / "LiveTiming.lean"

FSEC = "<float seconds>"        # `timedelta.total_seconds()`: the lean text is the timedelta in µs
FINT = "<float with integral value>"
US, DAY_US, HOUR_US, MIN_US = 1_000_000, 86_400_000_000, 3_600_000_000, 60_000_000
FIELDS = [("timeShiftBufferDepth", INT), ("availabilityStartTime", INT), ("elapsedTime", INT),
          ("minimumUpdatePeriod", OPT), ("firstAvailableTime", INT), ("leeway", INT), ("publishTime", INT)]
KINDS = ["epoch", "today", "month", "year", "now", "explicit"]
COPIES = {"self.mode = options.mode", "self.now = now", "self.stream_reference = stream_ref"}


def lit(n: int) -> str:
    return f"({n} : Int)"


class TimingTranslator(Translator):
    """pytolean + exactly the datetime/float idioms of timing.py (table in the module docstring)"""

    def __init__(self, attrs, default_depth: int):
        classes = {"DashTiming": DataClass.manual("DashTiming", [(n, t, "") for n, t in FIELDS])}
        super().__init__(classes, attrs, "liveParams", None)
        self.default_depth = default_depth
        self.skip_assign = set(COPIES)
        self.ext_calls = {
            "self.stream_reference.segment_duration": ("ref_segment_duration", INT),
            "self.stream_reference.timescale": ("ref_timescale", INT),
            "self.DEFAULT_TIMESHIFT_BUFFER_DEPTH": (lit(default_depth), INT),
        }
        self.idioms: set[str] = set()

    # ---- helpers
    def intval(self, c, e):
        """an operand of integer arithmetic (an optional known to be present may be read as its value)"""
        old = getattr(self, "_want_int", False)
        self._want_int = True
        try:
            v, t = self.ex(c, e)
        finally:
            self._want_int = old
        self.need(t, INT, e)
        return v

    @staticmethod
    def const_kw(call: ast.Call) -> dict:
        if call.args:
            raise CannotTranslate(f"positional arguments in {ast.unparse(call)}")
        return {k.arg: k.value for k in call.keywords}

    def known_some(self, c: Ctx, name: str) -> bool:
        return f"({name} ≠ none)" in c.path

    # ---- expressions
    def ex(self, c: Ctx, e):
        text = ast.unparse(e)
        # x.total_seconds()
        if isinstance(e, ast.Call) and isinstance(e.func, ast.Attribute) and e.func.attr == "total_seconds" \
                and not e.args and not e.keywords:
            self.idioms.add("total_seconds")
            return self.intval(c, e.func.value), FSEC
        # int(<float seconds>) / int(<float seconds> // k)
        if isinstance(e, ast.Call) and isinstance(e.func, ast.Name) and e.func.id == "int" and len(e.args) == 1 \
                and not e.keywords:
            v, t = self.ex(c, e.args[0])
            if t == FSEC:
                return f"(Int.tdiv {v} {lit(US)})", INT
            if t == FINT:
                return v, INT
            self.need(t, INT, e.args[0])
            return v, INT
        if isinstance(e, ast.BinOp) and isinstance(e.op, ast.FloorDiv):
            a, ta = self.ex(c, e.left)
            if ta == FSEC:
                b = self.intval(c, e.right)
                return f"(Int.fdiv {a} ({b} * {lit(US)}))", FINT
        if isinstance(e, ast.Compare) and len(e.ops) == 1:
            a, ta = self.ex(c, e.left)
            if ta == FSEC:
                op = e.ops[0]
                if type(op) not in self.CMP:
                    raise CannotTranslate(f"comparison {text}")
                b = self.intval(c, e.comparators[0])
                return f"({a} {self.CMP[type(op)]} ({b} * {lit(US)}))", PROP
            # a datetime never equals a string
            b, tb = self.ex(c, e.comparators[0])
            if {ta, tb} == {INT, STR} and isinstance(e.ops[0], (ast.Eq, ast.NotEq)) and \
                    "options.availabilityStartTime" in (ast.unparse(e.left), ast.unparse(e.comparators[0])):
                return ("False" if isinstance(e.ops[0], ast.Eq) else "True"), PROP
        # datetime.timedelta(days=…, seconds=…)
        if isinstance(e, ast.Call) and ast.unparse(e.func) == "datetime.timedelta":
            kw = self.const_kw(e)
            if not kw or set(kw) - {"days", "seconds", "microseconds"}:
                raise CannotTranslate(f"timedelta arguments: {text}")
            parts = []
            for name, unit in (("days", DAY_US), ("seconds", US), ("microseconds", 1)):
                if name in kw:
                    if isinstance(kw[name], ast.Constant) and type(kw[name].value) is int:
                        parts.append(lit(kw[name].value * unit))
                    else:
                        parts.append(f"({self.intval(c, kw[name])} * {lit(unit)})")
            self.idioms.add("timedelta")
            return (parts[0] if len(parts) == 1 else "(" + " + ".join(parts) + ")"), INT
        # datetime.datetime(<int constants>, tzinfo=UTC())
        if isinstance(e, ast.Call) and ast.unparse(e.func) == "datetime.datetime":
            kw = {k.arg: k.value for k in e.keywords}
            if set(kw) != {"tzinfo"} or ast.unparse(kw["tzinfo"]) != "UTC()" or \
                    not all(isinstance(a, ast.Constant) and type(a.value) is int for a in e.args):
                raise CannotTranslate(f"datetime constructor: {text}")
            dt = datetime.datetime(*[a.value for a in e.args], tzinfo=datetime.timezone.utc)
            us = (dt - datetime.datetime(1970, 1, 1, tzinfo=datetime.timezone.utc)) // datetime.timedelta(microseconds=1)
            self.idioms.add("datetime constant")
            return lit(us), INT
        # x.replace(…)
        if isinstance(e, ast.Call) and isinstance(e.func, ast.Attribute) and e.func.attr == "replace":
            kw = self.const_kw(e)
            vals = {}
            for k, v in kw.items():
                if not (isinstance(v, ast.Constant) and type(v.value) is int):
                    raise CannotTranslate(f"replace argument: {text}")
                vals[k] = v.value
            x = self.intval(c, e.func.value)
            base = ast.unparse(e.func.value)
            self.idioms.add("replace")
            if vals == {"microsecond": 0}:
                return f"({x} - {x} % {lit(US)})", INT
            if base != "now":
                raise CannotTranslate(f"calendar replace on something that is not `now` (UTC): {text}")
            midnight = {"hour": 0, "minute": 0, "second": 0, "microsecond": 0}
            if vals == midnight:
                return f"({x} - {x} % {lit(DAY_US)})", INT
            if vals == {"day": 1, **midnight}:
                return f"(floorMonth {x})", INT
            if vals == {"month": 1, "day": 1, **midnight}:
                return f"(floorYear {x})", INT
            raise CannotTranslate(f"replace pattern: {text}")
        # self.publishTime.hour / .minute  (publishTime derives from `now`: UTC)
        if isinstance(e, ast.Attribute) and e.attr in ("hour", "minute") and ast.unparse(e.value) == "self.publishTime":
            x = self.intval(c, e.value)
            self.idioms.add("hour/minute")
            if e.attr == "hour":
                return f"(Int.fdiv ({x} % {lit(DAY_US)}) {lit(HOUR_US)})", INT
            return f"(Int.fdiv (({x} % {lit(DAY_US)}) % {lit(HOUR_US)}) {lit(MIN_US)})", INT
        # round(c * a / b)
        if isinstance(e, ast.Call) and isinstance(e.func, ast.Name) and e.func.id == "round":
            a = e.args[0] if len(e.args) == 1 and not e.keywords else None
            if (isinstance(a, ast.BinOp) and isinstance(a.op, ast.Div) and isinstance(a.left, ast.BinOp)
                    and isinstance(a.left.op, ast.Mult) and isinstance(a.left.left, ast.Constant)
                    and isinstance(a.left.left.value, float) and a.left.left.value.is_integer()):
                k = int(a.left.left.value)
                num = self.intval(c, a.left.right)
                den = self.intval(c, a.right)
                self.idioms.add("round")
                return f"(pyRound ({lit(k)} * {num}) {den})", INT
            raise CannotTranslate(f"round pattern: {text}")
        # truthiness: `not x`
        if isinstance(e, ast.UnaryOp) and isinstance(e.op, ast.Not):
            v, t = self.ex(c, e.operand)
            if t == INT:
                return f"({v} = {lit(0)})", PROP
            if t == OPT and v == "none":
                return "True", PROP
            if t != PROP:
                raise CannotTranslate(f"truthiness of {ast.unparse(e.operand)} ({t})")
        # an optional field read as an int where the path says it is not None
        if isinstance(e, ast.Attribute) and isinstance(e.value, ast.Name) and e.value.id in c.records:
            v, t = super().ex(c, e)
            if t == OPT and v != "none" and self.known_some(c, v) and getattr(self, "_want_int", False):
                self.idioms.add("getD")
                return f"(Option.getD {v} {lit(0)})", INT
            return v, t
        if isinstance(e, ast.BinOp) and isinstance(e.op, (ast.Mult, ast.Add, ast.Sub, ast.FloorDiv)):
            # operands of integer arithmetic: an optional known to be present may be read as its value
            old = getattr(self, "_want_int", False)
            self._want_int = True
            try:
                return super().ex(c, e)
            finally:
                self._want_int = old
        return super().ex(c, e)

    # ---- the `self` record is dynamically typed: a field takes the type of the value stored
    def assign_field(self, c: Ctx, rec: str, field: str, lean: str, ty: str, node):
        if rec != "self" or field not in dict(FIELDS):
            raise CannotTranslate(f"store to {rec}.{field}")
        if ty not in (INT, OPT):
            raise CannotTranslate(f"{ty} stored in self.{field}")
        if lean == "none":
            # keep the constant visible: `x is None` / `not x` are then decided by pytolean's folding
            c.env[f"{rec}.{field}"] = ("none", OPT)
            if f"{rec}.{field}" not in c.writes:
                c.writes.append(f"{rec}.{field}")
            return
        self.bind(c, f"{rec}.{field}", lean, ty)

    def merge(self, c: Ctx, cond: str, a: Ctx, b: Ctx):
        # int on one branch, int|None on the other: the int is lifted (Python value unchanged)
        for key in set(a.env) & set(b.env):
            (x, tx), (y, ty) = a.env[key], b.env[key]
            if {tx, ty} == {INT, OPT}:
                if tx == INT:
                    a.env[key] = (f"(some {x})", OPT)
                else:
                    b.env[key] = (f"(some {y})", OPT)
        super().merge(c, cond, a, b)


def find_class(tree, name):
    for n in tree.body:
        if isinstance(n, ast.ClassDef) and n.name == name:
            return n
    raise CannotTranslate(f"class {name} not found")


def find_func(cls, func):
    for n in cls.body:
        if isinstance(n, ast.FunctionDef) and n.name == func:
            return n
    raise CannotTranslate(f"{cls.name}.{func} not found")


def class_int_constant(cls, name: str) -> int:
    for s in cls.body:
        tgt = s.target if isinstance(s, ast.AnnAssign) else s.targets[0] if isinstance(s, ast.Assign) else None
        if isinstance(tgt, ast.Name) and tgt.id == name and isinstance(s.value, ast.Constant) \
                and type(s.value.value) is int:
            return s.value.value
    raise CannotTranslate(f"class constant {name}")


def statement_list(cls) -> list:
    """`__init__` (mode = 'live') as one flat statement list: the statements before
    `if options.mode == 'live': self.calculate_live_params(now, options) else: …` followed by the body of
    `calculate_live_params` (same parameter names, checked)"""
    init = find_func(cls, "__init__")
    live = find_func(cls, "calculate_live_params")
    if [a.arg for a in init.args.args] != ["self", "now", "stream_ref", "options"]:
        raise CannotTranslate("parameters of DashTiming.__init__")
    if [a.arg for a in live.args.args] != ["self", "now", "options"]:
        raise CannotTranslate("parameters of calculate_live_params")
    last = init.body[-1] if init.body else None
    if not (isinstance(last, ast.If) and ast.unparse(last.test) == "options.mode == 'live'"
            and [ast.unparse(x) for x in last.body] == ["self.calculate_live_params(now, options)"]
            and [ast.unparse(x) for x in last.orelse] == ["self.calculate_vod_params(now, options)"]):
        raise CannotTranslate("__init__ does not end with the live/vod dispatch")
    for s in init.body[:-1]:
        if not isinstance(s, (ast.Assign, ast.AnnAssign)):
            raise CannotTranslate(f"statement in __init__: {ast.unparse(s)[:60]}")
    return copy.deepcopy(init.body[:-1]) + copy.deepcopy(live.body)


RESOLVE_TEST = "options.availabilityStartTime == 'epoch'"
# the state that crosses the two cut points (everything else a piece reads must be its own)
PREFIX_OUT = ["self.publishTime", "self.leeway", "self.timeShiftBufferDepth", "one_day"]
RESOLVE_IN = {"now": "now", "self.publishTime": "publishTime0", "one_day": "one_day"}
TAIL_IN = {"now": "now", "self.publishTime": "publishTime0", "self.leeway": "leeway0",
           "self.timeShiftBufferDepth": "depth0", "self.availabilityStartTime": "ast0"}


def split(stmts):
    idx = [i for i, s in enumerate(stmts) if isinstance(s, ast.If) and ast.unparse(s.test) == RESOLVE_TEST]
    if len(idx) != 1:
        raise CannotTranslate(f"`if {RESOLVE_TEST}` occurs {len(idx)} times")
    i = idx[0]
    return stmts[:i], [stmts[i]], stmts[i + 1:]


def option_attrs(kind, depth_int, mup_int, leeway_int):
    return {
        ("options", "availabilityStartTime"): ("start", INT) if kind == "explicit" else (repr(kind), STR),
        ("options", "timeShiftBufferDepth"): ("depth", INT) if depth_int else ("none", OPT),
        ("options", "minimumUpdatePeriod"): ("mup", INT) if mup_int else ("none", OPT),
        ("options", "leeway"): ("leeway", INT) if leeway_int else ("none", OPT),
    }


def run(stmts, attrs, env, default_depth, allowed_writes):
    tr = TimingTranslator(attrs, default_depth)
    c = Ctx()
    c.records["self"] = "DashTiming"
    c.env = {k: (v, INT) for k, v in env.items()}
    r = tr.block(c, copy.deepcopy(stmts))
    if r is not None or c.fails or c.early:
        raise CannotTranslate("the translated statements return or raise")
    # attributes of `self` outside the declared set would be state we do not return; local names are free
    extra = [w for w in c.writes if w.startswith("self.") and w not in allowed_writes]
    if extra:
        raise CannotTranslate(f"unexpected state written: {extra}")
    return tr, c


def closed(c, key: str) -> str:
    """the value of a variable with every `let` name expanded (to compare two translations)"""
    import re
    defs = {}
    for l in c.lets:
        m = re.match(r"let (\w+) : [^:]*? := (.*)$", l, re.S)
        if not m:
            raise CannotTranslate(f"unexpected let: {l[:60]}")
        defs[m.group(1)] = m.group(2)
    def expand(t, depth=0):
        if depth > 200:
            raise CannotTranslate("cyclic lets")
        return re.sub(r"\b(\w+_\d+)\b", lambda m: "(" + expand(defs[m.group(1)], depth + 1) + ")"
                      if m.group(1) in defs else m.group(1), t)
    return expand(c.env[key][0])


def lets_of(c, indent="  "):
    return "".join(f"{indent}{l}\n" for l in c.lets)


def translate() -> str:
    tree = ast.parse((REPO / "dashlive/mpeg/dash/timing.py").read_text())
    cls = find_class(tree, "DashTiming")
    default_depth = class_int_constant(cls, "DEFAULT_TIMESHIFT_BUFFER_DEPTH")
    prefix, resolve, tail = split(statement_list(cls))
    idioms: set[str] = set()
    out = ["/-! GENERATED by harness/gen_livetiming.py from /repo's source text (Python ast) – do not edit.\n"
           "`DashTiming.__init__` (mode = live) with `calculate_live_params` inlined: the final values of the\n"
           "attributes it writes.  Datetimes and timedeltas are Int microseconds (datetime = µs since the Unix\n"
           "epoch, UTC).  Parameters: `floorMonth`/`floorYear` = `now.replace(day=1, hour=0, …)` /\n"
           "`now.replace(month=1, day=1, hour=0, …)`; `pyRound n d` = Python's `round(n / d)`.\n"
           "`t.total_seconds()` is read as exact integer arithmetic on µs (Python goes through a float; exact below\n"
           "2^33 s, validated on the real code by C08's `livetiming` correspondence channel).\n"
           "The statement list is cut in three at `if options.availabilityStartTime == 'epoch': … else: …`:\n"
           "* the statements before it (`init_*`: one definition per variable that is read later),\n"
           "* the `if` itself, once per kind of `options.availabilityStartTime` (`resolve_<kind>`; Python is\n"
           "  dynamically typed, the string comparisons are folded),\n"
           "* the statements after it (`liveTail`, one `match` arm per None/int combination of\n"
           "  `options.minimumUpdatePeriod` and `options.leeway`),\n"
           "and `liveParams_<kind>` composes them in source order; the only state crossing a cut is what the\n"
           "parameters name (a piece that read anything else would not translate).\n"
           "See the generator's docstring for the idiom table. -/\n"
           "set_option linter.unusedVariables false\nnamespace DashLive.Gen.LiveTiming\n",
           "/-- the attributes of `DashTiming` written by `__init__` / `calculate_live_params` -/\n"
           "structure DashTiming where\n" + "".join(f"  {n} : {t}\n" for n, t in FIELDS) + "  deriving DecidableEq, Repr\n"]

    # ---- the statements before the start resolution
    copies_seen = set()
    arms = {}
    for depth_int in (False, True):
        tr, c = run(prefix, option_attrs("epoch", depth_int, False, False), {"now": "now"}, default_depth, PREFIX_OUT)
        idioms |= tr.idioms
        copies_seen |= {" ".join(x.split()) for x in tr.skipped}
        for k in PREFIX_OUT:
            if k not in c.env or c.env[k][1] != INT:
                raise CannotTranslate(f"{k} is not an int before the start resolution")
        arms[depth_int] = c
    if COPIES - copies_seen:
        raise CannotTranslate(f"__init__ no longer contains {sorted(COPIES - copies_seen)}")
    for key, name, uses_depth in (("self.publishTime", "init_publishTime", False), ("self.leeway", "init_leeway", False),
                                  ("one_day", "init_one_day", False),
                                  ("self.timeShiftBufferDepth", "init_timeShiftBufferDepth", True)):
        if uses_depth:
            body = "  match depth with\n" + "".join(
                f"  | {pattern(d, 'depth')} =>\n{lets_of(arms[d], '    ')}    {arms[d].env[key][0]}\n" for d in (False, True))
            out.append(f"/-- `{key}` before the start resolution (`depth` = options.timeShiftBufferDepth) -/\n"
                       f"def {name} (now : Int) (depth : Option Int) : Int :=\n{body}")
        else:
            if closed(arms[False], key) != closed(arms[True], key):
                raise CannotTranslate(f"{key} depends on the depth option")
            c = arms[False]
            out.append(f"/-- `{key}` before the start resolution -/\n"
                       f"def {name} (now : Int) : Int :=\n{lets_of(c)}  {c.env[key][0]}\n")

    # ---- the start resolution, once per kind
    for kind in KINDS:
        tr, c = run(resolve, option_attrs(kind, False, False, False), RESOLVE_IN, default_depth,
                    ["self.availabilityStartTime"])
        idioms |= tr.idioms
        if "self.availabilityStartTime" not in c.env or c.env["self.availabilityStartTime"][1] != INT:
            raise CannotTranslate("the start resolution does not assign an availabilityStartTime")
        sp = " (start : Int)" if kind == "explicit" else ""
        what = "an explicit datetime `start`" if kind == "explicit" else f"the string '{kind}'"
        out.append(f"/-- `self.availabilityStartTime` after `if {RESOLVE_TEST}: … else: …` when\n"
                   f"`options.availabilityStartTime` is {what} -/\n"
                   f"def resolve_{kind} (floorMonth floorYear : Int → Int) (now publishTime0 one_day : Int){sp} : Int :=\n"
                   f"{lets_of(c)}  {c.env['self.availabilityStartTime'][0]}\n")

    # ---- the statements after it
    tail_arms = []
    deads = set()
    for m, l in itertools.product((False, True), repeat=2):
        tr, c = run(tail, option_attrs("epoch", False, m, l), TAIL_IN, default_depth,
                    [f"self.{n}" for n, _ in FIELDS])
        idioms |= tr.idioms
        deads |= {" ".join(x.split()) for x in tr.skipped if x.startswith("dead:")}
        vals = []
        for n, t in FIELDS:
            v, tv = c.env.get(f"self.{n}", (None, None))
            if v is None:
                raise CannotTranslate(f"self.{n} is not assigned on every path")
            if t == OPT and tv == INT:
                v = f"(some {v})"
            elif tv != t:
                raise CannotTranslate(f"self.{n} ends with type {tv}")
            vals.append(f"{n} := {v}")
        tail_arms.append(f"  | {pattern(m, 'mup')}, {pattern(l, 'leeway')} =>\n{lets_of(c, '    ')}    {{ " + ", ".join(vals) + " }\n")
    dead_txt = "; ".join(sorted(deads))[:900].replace("-/", "- /").replace("/-", "/ -")
    out.append("/-- everything after the start resolution; `publishTime0`, `leeway0`, `depth0`, `ast0` are the values of\n"
               "`self.publishTime`, `self.leeway`, `self.timeShiftBufferDepth`, `self.availabilityStartTime` at that point.\n"
               f"folded away in some arm (decided by the types): {dead_txt} -/\n"
               "def liveTail (pyRound : Int → Int → Int) (now publishTime0 leeway0 depth0 ast0 : Int)\n"
               "    (ref_segment_duration ref_timescale : Int) (mup leeway : Option Int) : DashTiming :=\n"
               "  match mup, leeway with\n" + "".join(tail_arms))

    # ---- the whole function, in source order
    for kind in KINDS:
        sp = " (start : Int)" if kind == "explicit" else ""
        sa = " start" if kind == "explicit" else ""
        out.append(f"/-- `DashTiming(now, stream_ref, options)` for mode = 'live' and this kind of start -/\n"
                   f"def liveParams_{kind} (floorMonth floorYear : Int → Int) (pyRound : Int → Int → Int) (now : Int){sp}\n"
                   f"    (ref_segment_duration ref_timescale : Int) (depth mup leeway : Option Int) : DashTiming :=\n"
                   f"  liveTail pyRound now (init_publishTime now) (init_leeway now) (init_timeShiftBufferDepth now depth)\n"
                   f"    (resolve_{kind} floorMonth floorYear now (init_publishTime now) (init_one_day now){sa})\n"
                   f"    ref_segment_duration ref_timescale mup leeway\n")
    out.append(f"/-- idioms met in this translation: {', '.join(sorted(idioms))} -/\ndef idiomsUsed : Unit := ()\n")
    out.append("end DashLive.Gen.LiveTiming\n")
    return "\n".join(out)


def pattern(flag: bool, name: str) -> str:
    return f"some {name}" if flag else "none"


def main():
    src = translate()
    if not OUT.exists() or OUT.read_text() != src:
        OUT.write_text(src)


if __name__ == "__main__":
    print(translate())
