"""Shared machinery of the dash-live verification harness (see DESIGN.md §3).

Every check is `check.py Cnn --tier quick|thorough`.  A property module in
`harness/props/cNN.py` supplies the Lean targets, the correspondence channels,
the Layer-C oracle/search and the replay of ledger entries; this file supplies
what is the same for all of them: locked `lake build`, axiom audit, the
line-protocol driver, evidence, the known-findings ledger, violation reports.
"""
from __future__ import annotations

import dataclasses
import fcntl
import json
import os
import random
import re
import subprocess
import sys
import time
from pathlib import Path
from typing import Any, Callable, Iterable, Optional

VERIF = Path(__file__).resolve().parent.parent
REPO = Path(os.environ.get("DASHLIVE_REPO", "/repo"))
LEAN = VERIF / "lean"
DRIVER = LEAN / ".lake" / "build" / "bin" / "driver"
DRIVER_TARGET = "driver"          # lake target of the driver this process uses
MAIN_FILE = "Main.lean"


def use_property(prop: str) -> None:
    """select the property's own driver (only the Driver modules its channels use, gen_main.py)"""
    global DRIVER, DRIVER_TARGET, MAIN_FILE
    import gen_main
    if prop in gen_main.DRIVER_MODULES:
        DRIVER_TARGET = f"driver_{prop.lower()}"
        MAIN_FILE = f"Main_{prop}.lean"
        DRIVER = LEAN / ".lake" / "build" / "bin" / DRIVER_TARGET
EVIDENCE = VERIF / "evidence"
if "DASHLIVE_REPO" in os.environ and Path(os.environ["DASHLIVE_REPO"]).resolve() != Path("/repo"):
    # a run against a scratch worktree (seeded change, mutation test) must not overwrite the
    # evidence of the registered checks, which describe /repo
    EVIDENCE = VERIF / "evidence" / "scratch"
REPLAYS = VERIF / "replays"
CORPUS = VERIF / "corpus"
LEDGER = VERIF / "known_findings.json"
LOCK = VERIF / "harness" / ".lake.lock"

ALLOWED_AXIOMS = {"propext", "Classical.choice", "Quot.sound"}
FORBIDDEN = re.compile(
    r"\bsorry\b|\badmit\b|^\s*axiom\s|native_decide|bv_decide|implemented_by|"
    r"\bunsafe\s|maxHeartbeats\s+0|ofReduceBool")

GLOBAL_TRUSTED = [
    "Lean 4.33.0 kernel; axioms limited to propext, Classical.choice, Quot.sound (audited by #print axioms on every property theorem each run)",
    "no sorry/admit/native_decide/bv_decide/own axioms (grep audit each run)",
    "correspondence harness (generators, canonicalisation) and the compiled line-protocol driver (Lean compiler output of the same definitions the theorems are about)",
]


def log(*a: Any) -> None:
    print(*a, flush=True)


# ---------------------------------------------------------------- lake / lean

class lake_lock:
    """exclusive lock on the shared lean/ tree (re-entrant inside one process): the translators write
    Gen/*.lean and `lake build` reads them, so a check holds it from its first translator to the end
    of its axiom audit - concurrent checks (possibly of a different tree via DASHLIVE_REPO) cannot
    build each other's generated files."""
    _depth = 0
    _f = None

    def __enter__(self):
        cls = lake_lock
        if cls._depth == 0:
            LOCK.parent.mkdir(exist_ok=True)
            cls._f = open(LOCK, "w")
            fcntl.flock(cls._f, fcntl.LOCK_EX)
        cls._depth += 1
        return self

    def __exit__(self, *a):
        cls = lake_lock
        cls._depth -= 1
        if cls._depth == 0:
            fcntl.flock(cls._f, fcntl.LOCK_UN)
            cls._f.close()
            cls._f = None


_DRIVER_SNAPSHOT: Optional[Path] = None


def lake_build(targets: list[str], timeout: int = 3000) -> tuple[bool, str]:
    """`lake build <targets>` under a file lock.  Returns (ok, output).
    When the driver was built, a private copy of the binary is taken while the lock is
    still held: another check relinking the shared binary must not pull it from under us."""
    global _DRIVER_SNAPSHOT
    with lake_lock():
        p = subprocess.run(["lake", "build", *targets], cwd=LEAN, text=True,
                           capture_output=True, timeout=timeout)
        if p.returncode == 0 and DRIVER_TARGET in targets and DRIVER.exists():
            import atexit
            import shutil
            import tempfile
            fd, name = tempfile.mkstemp(prefix="dashlive-driver-")
            os.close(fd)
            shutil.copy2(DRIVER, name)
            os.chmod(name, 0o755)
            if _DRIVER_SNAPSHOT is not None:
                _DRIVER_SNAPSHOT.unlink(missing_ok=True)
            _DRIVER_SNAPSHOT = Path(name)
            atexit.register(lambda n=name: Path(n).unlink(missing_ok=True))
    out = p.stdout + p.stderr
    return p.returncode == 0, out


def strip_comments(src: str) -> str:
    """remove Lean block comments (nesting) and line comments"""
    out = []
    i, depth, n = 0, 0, len(src)
    while i < n:
        if src.startswith("/-", i):
            depth += 1
            i += 2
        elif depth and src.startswith("-/", i):
            depth -= 1
            i += 2
        elif depth:
            if src[i] == "\n":
                out.append("\n")
            i += 1
        elif src.startswith("--", i):
            while i < n and src[i] != "\n":
                i += 1
        else:
            out.append(src[i])
            i += 1
    return "".join(out)


THEOREM_RE = re.compile(r"^\s*(?:@\[[^\]]*\]\s*)?(?:private\s+|protected\s+)?theorem\s+([A-Za-z_][\w.']*)", re.M)
NAMESPACE_RE = re.compile(r"^\s*namespace\s+([\w.]+)", re.M)


def lean_imports_closure(rel_files: list[str]) -> list[Path]:
    """all project files transitively imported by the given files (paths
    relative to lean/), for the forbidden-token audit"""
    seen: dict[str, Path] = {}
    todo = list(rel_files)
    while todo:
        rel = todo.pop()
        if rel in seen:
            continue
        p = LEAN / rel
        if not p.exists():
            continue
        seen[rel] = p
        for m in re.finditer(r"^import\s+(DashLive[\w.]*)", p.read_text(), re.M):
            todo.append(m.group(1).replace(".", "/") + ".lean")
    return list(seen.values())


def theorems_of(rel_file: str) -> list[str]:
    """fully qualified names of the theorems stated in a Props file"""
    src = strip_comments((LEAN / rel_file).read_text())
    # namespaces are used in a simple, non-nested-reopen way in Props files
    names = []
    ns_stack: list[str] = []
    for line in src.splitlines():
        m = re.match(r"\s*namespace\s+([\w.]+)", line)
        if m:
            ns_stack.append(m.group(1))
            continue
        m = re.match(r"\s*end\s+([\w.]+)\s*$", line)
        if m and ns_stack and ns_stack[-1] == m.group(1):
            ns_stack.pop()
            continue
        m = THEOREM_RE.match(line)
        if m:
            names.append(".".join(ns_stack + [m.group(1)]))
    return names


@dataclasses.dataclass
class ProofReport:
    ok: bool
    obligations: int
    discharged: int
    theorems: list[str]
    axioms: dict[str, list[str]]
    problems: list[str]
    build_output: str
    checker_cmd: str


def check_proofs(prop: str, prop_files: list[str], targets: list[str],
                 leanchecker: bool = False) -> ProofReport:
    """Build the property's Lean targets (= discharge the proof obligations),
    then audit: forbidden tokens in every imported project file, and
    `#print axioms` of every theorem of the property files."""
    problems: list[str] = []
    checker_cmd = "cd lean && lake build " + " ".join(targets + [DRIVER_TARGET])
    import gen_main
    gen_main.main()
    ok, out = lake_build(targets + [DRIVER_TARGET])
    thms: list[str] = []
    for f in prop_files:
        thms += theorems_of(f)
    if not ok:
        errs = [ln for ln in out.splitlines() if "error" in ln][:20]
        problems.append("lake build failed: " + " | ".join(errs))
        return ProofReport(False, max(1, len(thms)), 0, thms, {}, problems, out, checker_cmd)
    # forbidden tokens
    for p in lean_imports_closure(prop_files + [MAIN_FILE]):
        src = strip_comments(p.read_text())
        for i, line in enumerate(src.splitlines(), 1):
            if FORBIDDEN.search(line):
                problems.append(f"forbidden token in {p.relative_to(LEAN)}:{i}: {line.strip()[:80]}")
    # axiom audit
    audit_dir = LEAN / "DashLive" / "Audit"
    audit_dir.mkdir(exist_ok=True)
    audit = audit_dir / f"{prop}.lean"
    mods = [f[:-5].replace("/", ".") for f in prop_files]
    audit.write_text("".join(f"import {m}\n" for m in mods) +
                     "".join(f"#print axioms {t}\n" for t in thms))
    with lake_lock():
        p = subprocess.run(["lake", "env", "lean", str(audit)], cwd=LEAN, text=True,
                           capture_output=True, timeout=1800)
    axioms: dict[str, list[str]] = {}
    text = p.stdout + p.stderr
    if p.returncode != 0:
        problems.append("axiom audit failed to elaborate: " + text[:400])
    # messages: "'name' depends on axioms: [a, b]" or "'name' does not depend on any axioms"
    for m in re.finditer(r"'(\S+?)' depends on axioms: \[([^\]]*)\]", text, re.S):
        axioms[m.group(1)] = [a.strip() for a in m.group(2).replace("\n", " ").split(",") if a.strip()]
    for m in re.finditer(r"'(\S+?)' does not depend on any axioms", text):
        axioms[m.group(1)] = []
    discharged = 0
    for t in thms:
        if t not in axioms:
            problems.append(f"no axiom report for theorem {t}")
            continue
        bad = [a for a in axioms[t] if a not in ALLOWED_AXIOMS]
        if bad:
            problems.append(f"theorem {t} depends on disallowed axioms {bad}")
        else:
            discharged += 1
    if leanchecker and not problems:
        with lake_lock():
            p = subprocess.run(["lake", "env", "leanchecker", *mods], cwd=LEAN, text=True,
                               capture_output=True, timeout=3000)
        checker_cmd += " && lake env leanchecker " + " ".join(mods)
        if p.returncode != 0:
            problems.append("leanchecker rejected: " + (p.stdout + p.stderr)[-400:])
    if not thms:
        problems.append("no theorems found in " + ",".join(prop_files))
    return ProofReport(not problems, len(thms), discharged, thms, axioms, problems, out, checker_cmd)


# ---------------------------------------------------------------- driver

def run_driver(lines: list[str], timeout: int = 600) -> list[str]:
    """pipe request lines to the compiled Lean driver, return response lines"""
    if not lines:
        return []
    for ln in lines:
        assert "\n" not in ln
    exe = _DRIVER_SNAPSHOT if _DRIVER_SNAPSHOT is not None and _DRIVER_SNAPSHOT.exists() else DRIVER
    p = subprocess.run([str(exe)], input="\n".join(lines) + "\n", text=True,
                       capture_output=True, timeout=timeout)
    if p.returncode != 0:
        raise RuntimeError(f"driver exited {p.returncode}: {p.stderr[:300]}")
    out = p.stdout.split("\n")
    if out and out[-1] == "":
        out.pop()
    if len(out) != len(lines):
        raise RuntimeError(f"driver returned {len(out)} lines for {len(lines)} requests")
    return out


# ---------------------------------------------------------------- results

@dataclasses.dataclass
class Channel:
    """result of one correspondence channel (model vs implementation) plus the
    Layer-C oracle evaluated on the same inputs"""
    name: str
    evaluations: int = 0
    nontrivial: set = dataclasses.field(default_factory=set)   # distinct non-trivial case keys
    rule: str = ""
    samples: list = dataclasses.field(default_factory=list)
    distribution: dict = dataclasses.field(default_factory=dict)
    disagreements: list = dataclasses.field(default_factory=list)   # model ≠ impl
    oracle_failures: list = dataclasses.field(default_factory=list)  # property fails on impl
    errors: list = dataclasses.field(default_factory=list)          # harness could not run

    def count(self, key: str, n: int = 1) -> None:
        self.distribution[key] = self.distribution.get(key, 0) + n

    def sample(self, x: Any, limit: int = 4) -> None:
        if len(self.samples) < limit:
            self.samples.append(x)


def load_ledger() -> list[dict]:
    if not LEDGER.exists():
        return []
    return json.loads(LEDGER.read_text()).get("findings", [])


def write_replay(prop: str, seed: int, payload: dict) -> Path:
    REPLAYS.mkdir(exist_ok=True)
    path = REPLAYS / f"{prop}-{seed}-{int(time.time())}-{os.getpid()}.json"
    path.write_text(json.dumps(payload, indent=1, default=str))
    return path


def write_evidence(prop: str, tier: str, seed: int, proof: Optional[ProofReport],
                   channels: list[Channel], wall: float, violations: int,
                   trusted: list[str], assumptions: list[str], extra: dict | None = None) -> None:
    EVIDENCE.mkdir(parents=True, exist_ok=True)
    evaluations = sum(c.evaluations for c in channels)
    nontrivial = sum(len(c.nontrivial) for c in channels)
    cov: dict[str, Any] = {
        "obligations": proof.obligations if proof else 0,
        "discharged": proof.discharged if proof else 0,
        "checker_cmd": proof.checker_cmd if proof else "",
        "trusted_base": GLOBAL_TRUSTED + trusted,
        "theorems": proof.theorems if proof else [],
        "axioms_used": sorted({a for v in (proof.axioms if proof else {}).values() for a in v}),
        "proof_problems": proof.problems if proof else ["proof step not run"],
        "evaluations": evaluations,
        "distinct_nontrivial": nontrivial,
        "traces_validated_against_impl": evaluations,
        "rule": " || ".join(f"{c.name}: {c.rule}" for c in channels),
        "samples": [{"channel": c.name, "case": s} for c in channels for s in c.samples] or
                   [{"note": "no correspondence cases were run"}],
        "channels": {c.name: {"evaluations": c.evaluations,
                              "distinct_nontrivial": len(c.nontrivial),
                              "disagreements": len(c.disagreements),
                              "oracle_failures": len(c.oracle_failures),
                              "errors": c.errors[:5],
                              "distribution": c.distribution} for c in channels},
        "exhaustive": False,
    }
    if extra:
        cov.update(extra)
    ev = {
        "property_id": prop, "tier": tier, "seed": seed, "level": "proof",
        "coverage": cov, "assumptions": assumptions, "wall_s": round(wall, 2),
        "violations": violations,
    }
    (EVIDENCE / f"{prop}.json").write_text(json.dumps(ev, indent=1, default=str))


def rng_for(seed: int, name: str) -> random.Random:
    return random.Random(f"{seed}:{name}")


def run_python(code_or_file: list[str], env_extra: dict | None = None, timeout: int = 3000,
               input: str | None = None) -> subprocess.CompletedProcess:
    """run a helper under the repository's interpreter with shims on the path"""
    env = dict(os.environ)
    env["PYTHONPATH"] = f"{VERIF / 'shims'}:{REPO}:{VERIF / 'harness'}"
    env.setdefault("PYTHONHASHSEED", "0")
    if env_extra:
        env.update(env_extra)
    return subprocess.run(["/venv/bin/python", *code_or_file], text=True, capture_output=True,
                          env=env, timeout=timeout, input=input, cwd=str(VERIF / "harness"))
