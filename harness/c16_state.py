"""C16: snapshot of the process-wide constants of the service – module-level UPPER_CASE names
and module-level / class-level dict, list, set and tuple attributes (whatever their name) of
`dashlive.server.requesthandler.*`, `dashlive.server.options.*`, `dashlive.server.routes`,
`dashlive.server.manifests`, `dashlive.server.events.*`, `dashlive.drm.*` and
`dashlive.mpeg.dash.*`.  No request may change one of them: what one client sent would then
be visible to every later client.  Names that start with an underscore are lazily filled
caches (`OptionsRepository._cgi_map` …) and are left out.
"""
from __future__ import annotations

import dataclasses
import enum
import sys

PREFIXES = ("dashlive.server.requesthandler", "dashlive.server.options", "dashlive.server.routes",
            "dashlive.server.manifests", "dashlive.server.events", "dashlive.drm", "dashlive.mpeg.dash",
            "dashlive.server.template_tags")
CONTAINERS = (dict, list, set, frozenset, tuple)


def canon(v, depth: int = 0) -> str:
    if depth > 6:
        return "..."
    if v is None or isinstance(v, (bool, int, float, str, bytes)):
        return repr(v)
    if isinstance(v, enum.Enum):
        return f"{type(v).__name__}.{v.name}"
    if isinstance(v, dict):
        return "{" + ",".join(sorted(f"{canon(k, depth + 1)}:{canon(x, depth + 1)}" for k, x in v.items())) + "}"
    if isinstance(v, (set, frozenset)):
        return "{" + ",".join(sorted(canon(x, depth + 1) for x in v)) + "}"
    if isinstance(v, (list, tuple)):
        return "[" + ",".join(canon(x, depth + 1) for x in v) + "]"
    if dataclasses.is_dataclass(v) and not isinstance(v, type):
        return type(v).__name__ + "(" + ",".join(
            f"{f.name}={canon(getattr(v, f.name, None), depth + 1)}" for f in dataclasses.fields(v)) + ")"
    if isinstance(v, type):
        return f"<class {v.__module__}.{v.__qualname__}>"
    if callable(v):
        return f"<callable {getattr(v, '__qualname__', type(v).__name__)}>"
    return f"<{type(v).__name__}>"


_SLOTS = None


def slots() -> list:
    """(label, owner object, attribute name) of everything that is watched; collected once"""
    global _SLOTS
    if _SLOTS is not None:
        return _SLOTS
    out = []
    for name, mod in sorted(sys.modules.items()):
        if mod is None or not name.startswith(PREFIXES):
            continue
        for attr, val in sorted(vars(mod).items()):
            if attr.startswith("_") or isinstance(val, type(sys)):
                continue
            if isinstance(val, type):
                if val.__module__ != name:
                    continue
                for a2, v2 in sorted(vars(val).items()):
                    if a2.startswith("_"):
                        continue
                    if isinstance(v2, CONTAINERS) or (a2.isupper() and not callable(v2)):
                        out.append((f"{name}.{attr}.{a2}", val, a2))
            elif isinstance(val, CONTAINERS) or (attr.isupper() and not callable(val)):
                out.append((f"{name}.{attr}", mod, attr))
    _SLOTS = out
    return out


def snapshot() -> dict:
    out = {}
    for label, owner, attr in slots():
        try:
            out[label] = canon(vars(owner).get(attr, getattr(owner, attr, None)))
        except Exception as e:      # noqa: BLE001
            out[label] = f"<unreadable {type(e).__name__}>"
    return out


def fast() -> dict:
    """the mutable containers only (dict / list / set): what an in-place edit can change"""
    out = {}
    for label, owner, attr in slots():
        v = vars(owner).get(attr)
        if isinstance(v, (dict, list, set)):
            try:
                out[label] = canon(v)
            except Exception as e:      # noqa: BLE001
                out[label] = f"<unreadable {type(e).__name__}>"
    return out


def _sig(v, depth: int = 0):
    """structure of nested containers with scalars by value and every other object by identity:
    what an in-place edit of a shared dict / list / set changes (cheap: no descent into objects)"""
    if v is None or isinstance(v, (bool, int, float, str, bytes)):
        return v
    if depth > 5:
        return id(v)
    if isinstance(v, dict):
        return tuple(sorted(((repr(k), _sig(x, depth + 1)) for k, x in v.items()), key=lambda p: p[0]))
    if isinstance(v, (list, tuple)):
        return tuple(_sig(x, depth + 1) for x in v)
    if isinstance(v, (set, frozenset)):
        return tuple(sorted(repr(_sig(x, depth + 1)) for x in v))
    return id(v)


def shallow() -> int:
    """hash of the container structure of every watched slot – compared after every request; when it
    differs the full `fast()` snapshots tell which attribute changed"""
    acc = []
    seen = {}
    for label, owner, attr in slots():
        v = vars(owner).get(attr)
        if isinstance(v, (dict, list, set)):
            k = id(v)
            if k not in seen:
                seen[k] = hash(repr(_sig(v)))
            acc.append(seen[k])
    return hash(tuple(acc))


def diff(a: dict, b: dict) -> list:
    """labels whose value changed between two snapshots, with both values (shortened)"""
    return [{"attribute": k, "before": a.get(k, "<absent>")[:300], "after": b.get(k, "<absent>")[:300]}
            for k in sorted(set(a) | set(b)) if a.get(k) != b.get(k)]
