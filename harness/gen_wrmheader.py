#!/venv/bin/python
"""Translator for C11: templates/drm/wrmheader4{0,1,2,3}.xml (+ the included
templates/drm/custom_attributes.xml)  →  lean/DashLive/Gen/WrmHeader.lean

The Jinja sources are tokenised here (nothing of /repo is imported, the output is a
function of the template text only and byte-stable on an unchanged tree) into the
segment type `DashLive.WrmHeader.Seg` of `Model/WrmHeader.lean`:

    literal text                    → .lit [code points]      (top level: wrapped in `.atom`)      (whitespace control of
                                        `{%- … -%}` / `{{- … -}}` applied, one trailing
                                        newline of each template file dropped, exactly
                                        as Jinja's lexer does with Flask's defaults)
    {{default_kid|base64}}          → .defaultKid             {{checksum|base64}} → .checksum
    {{la_url}}                      → .laUrl   (autoescaped: the templates are *.xml)
    {{kid.kid|base64}} / {{kid.checksum|base64}} / {{kid.alg}} → .kidValue / .kidChecksum / .kidAlg
    {% if checksum %}…{% else %}…{% endif %}  → .ifChecksum […] […]
    {% for kid in kids %}…{% endfor %}        → .forKids […]
    {% include "drm/custom_attributes.xml" %} → the translated body of that file, inlined
    {% for elt in customAttributes %}…        → .forCustom […]
    {% if loop.first %}… / {% if loop.last %}… → .ifFirst […] / .ifLast […]
    {{elt.tag}} / {{elt.value}}     → .eltTag / .eltValue (autoescaped)
    {{elt.attributes|sortedAttributes|safe}}  → .eltAttrs (not escaped)

Anything else (another filter, another variable, `|xmlSafe`, a new block) makes the
translator raise: check.py reports a translator that cannot follow the source as a
broken proof obligation.  The rendering semantics of the segments (autoescape,
base64, whitespace clean-up of generate_wrmheader) live in the hand-written
interpreter `Model/WrmHeader.lean`; the `prheader` channel compares its output
byte-for-byte with the real `generate_wrmheader` on every run.
"""
from __future__ import annotations

import os
import re
from pathlib import Path

VERIF = Path(__file__).resolve().parent.parent
OUT = VERIF / "lean" / "DashLive" / "Gen" / "WrmHeader.lean"
VERSIONS = [40, 41, 42, 43]

TOKEN = re.compile(r"(\{\{.*?\}\}|\{%.*?%\}|\{#.*?#\})", re.S)

EXPRS = {
    "default_kid|base64": ".defaultKid",
    "checksum|base64": ".checksum",
    "la_url": ".laUrl",
    "kid.kid|base64": ".kidValue",
    "kid.checksum|base64": ".kidChecksum",
    "kid.alg": ".kidAlg",
    "elt.tag": ".eltTag",
    "elt.value": ".eltValue",
    "elt.attributes|sortedAttributes|safe": ".eltAttrs",
}


class CannotTranslate(Exception):
    pass


def repo() -> Path:
    return Path(os.environ.get("DASHLIVE_REPO", "/repo"))


def lex(name: str):
    """[(kind, payload)] with kind in text/expr/stmt; whitespace control applied"""
    src = (repo() / "templates" / name).read_text(encoding="utf-8")
    if src.endswith("\n"):            # keep_trailing_newline = False
        src = src[:-1]
        if src.endswith("\r"):
            src = src[:-1]
    parts = TOKEN.split(src)
    toks = []
    strip_next = False
    for i, p in enumerate(parts):
        if i % 2 == 0:
            if strip_next:
                p = p.lstrip()
                strip_next = False
            toks.append(["text", p])
            continue
        if p.startswith("{#"):
            inner, lstrip, rstrip = None, p.startswith("{#-"), p.endswith("-#}")
        else:
            inner = p[2:-2]
            lstrip = inner.startswith("-")
            rstrip = inner.endswith("-")
            if inner.startswith("+") or inner.endswith("+"):
                raise CannotTranslate(f"{name}: whitespace modifier '+' in {p!r}")
            inner = inner.strip("-").strip()
        if lstrip and toks and toks[-1][0] == "text":
            toks[-1][1] = toks[-1][1].rstrip()
        strip_next = rstrip
        if inner is None:
            continue
        toks.append(["expr" if p.startswith("{{") else "stmt", inner])
    return [(k, v) for k, v in toks if not (k == "text" and v == "")]


def norm_expr(e: str) -> str:
    return re.sub(r"\s+", "", e)


def parse(name: str, depth: int = 0):
    toks = lex(name)
    pos = 0

    def block(until: tuple[str, ...]):
        nonlocal pos
        out = []
        while pos < len(toks):
            kind, val = toks[pos]
            if kind == "text":
                out.append(("lit", val))
                pos += 1
            elif kind == "expr":
                e = norm_expr(val)
                if e not in EXPRS:
                    raise CannotTranslate(f"{name}: unknown expression {{{{ {val} }}}}")
                out.append(("expr", EXPRS[e]))
                pos += 1
            else:
                words = val.split()
                if words[0] in until:
                    return out, words[0]
                pos += 1
                if val == "if checksum":
                    thn, stop = block(("else", "endif"))
                    pos += 1
                    els = []
                    if stop == "else":
                        els, stop = block(("endif",))
                        pos += 1
                    out.append(("ifChecksum", thn, els))
                elif val in ("if loop.first", "if loop.last"):
                    body, stop = block(("endif",))
                    pos += 1
                    out.append(("ifFirst" if val.endswith("first") else "ifLast", body))
                elif val == "for kid in kids":
                    body, _ = block(("endfor",))
                    pos += 1
                    out.append(("forKids", body))
                elif val == "for elt in customAttributes":
                    body, _ = block(("endfor",))
                    pos += 1
                    out.append(("forCustom", body))
                elif words[0] == "include":
                    m = re.fullmatch(r'include\s+"([^"]+)"', val)
                    if not m or depth > 2:
                        raise CannotTranslate(f"{name}: {val!r}")
                    out += parse(m.group(1), depth + 1)
                else:
                    raise CannotTranslate(f"{name}: unknown statement {{% {val} %}}")
        if until:
            raise CannotTranslate(f"{name}: missing {' / '.join(until)}")
        return out, None

    segs, _ = block(())
    return segs


def lean_text(s: str) -> str:
    return "[" + ", ".join(str(ord(c)) for c in s) + "]"


def comment_text(s: str) -> str:
    return s.replace("\n", "⏎").replace("-/", "- /").replace("/-", "/ -")


def emit_atoms(segs, indent: str, where: str) -> str:
    rows = []
    for s in segs:
        if s[0] == "lit":
            rows.append(f"{indent}-- {comment_text(s[1])}\n{indent}.lit {lean_text(s[1])}")
        elif s[0] == "expr":
            rows.append(f"{indent}{s[1]}")
        elif s[0] in ("ifFirst", "ifLast"):
            if any(x[0] != "lit" for x in s[1]):
                raise CannotTranslate(f"{where}: `if loop.first/last` bodies must be literal text")
            t = "".join(x[1] for x in s[1])
            rows.append(f"{indent}-- {comment_text(t)}\n{indent}.{'firstLit' if s[0] == 'ifFirst' else 'lastLit'} {lean_text(t)}")
        else:
            raise CannotTranslate(f"{where}: a {s[0]} block nested inside another block")
    return ",\n".join(rows)


def emit(segs, indent: str, where: str) -> str:
    rows = []
    for s in segs:
        if s[0] in ("lit", "expr"):
            body = emit_atoms([s], indent + "  ", where)
            # `.atom (` … `)` around a single atom; the comment line stays in front
            lines = body.split("\n")
            lines[-1] = f"{indent}.atom ({lines[-1].strip()})"
            rows.append("\n".join(lines))
        elif s[0] == "ifChecksum":
            rows.append(f"{indent}.ifChecksum [\n{emit_atoms(s[1], indent + '  ', where)}]\n{indent}  [\n"
                        f"{emit_atoms(s[2], indent + '  ', where)}]")
        elif s[0] in ("forKids", "forCustom"):
            rows.append(f"{indent}.{s[0]} [\n{emit_atoms(s[1], indent + '  ', where)}]")
        else:
            raise CannotTranslate(f"{where}: {s[0]} outside a loop")
    return ",\n".join(rows)


def render() -> str:
    out = ["import DashLive.Model.WrmHeader",
           "/-! GENERATED by harness/gen_wrmheader.py from templates/drm/wrmheader4x.xml and",
           "templates/drm/custom_attributes.xml – do not edit.  One segment list per WRMHEADER version;",
           "see the generator's doc comment for the translation. -/",
           "namespace DashLive.Gen.WrmHeader",
           "open DashLive.WrmHeader",
           ""]
    for v in VERSIONS:
        segs = parse(f"drm/wrmheader{v}.xml")
        out.append(f"/-- templates/drm/wrmheader{v}.xml -/")
        out.append(f"def tmpl{v} : List Seg := [\n{emit(segs, '  ', f'wrmheader{v}.xml')}]\n")
    out.append("/-- `template_name = f'drm/wrmheader{int(header_version * 10)}.xml'` -/")
    out.append("def template : Nat → Option (List Seg)")
    for v in VERSIONS:
        out.append(f"  | {v} => some tmpl{v}")
    out.append("  | _ => none")
    out.append("")
    out.append("end DashLive.Gen.WrmHeader")
    return "\n".join(out) + "\n"


def main():
    text = render()
    OUT.parent.mkdir(parents=True, exist_ok=True)
    if not OUT.exists() or OUT.read_text() != text:
        OUT.write_text(text)


if __name__ == "__main__":
    main()
