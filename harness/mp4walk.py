"""mp4walk – an independent, strict ISO-BMFF box walker (trusted base).

Shares no code with `dashlive` (stdlib only).  Written from ISO/IEC 14496-12
(box structure, tfhd/tfdt/trun/sidx/saiz/saio/emsg ...), ISO/IEC 23001-7 (senc,
tenc, pssh) and the PIFF 1.1 specification (uuid sample-encryption box).

Public API
----------
walk(data, *, iv_size=None, base=0)   -> list[Box]     (top-level boxes)
find(boxes_or_box, 'moof/traf/tfdt')  -> Box | None    (first match)
find_all(boxes_or_box, 'moof/traf/trun') -> list[Box]
Box(type, start, size, header_size, payload_start, children, fields)
    .end            = start + size
    .usertype       = hex uuid of a `uuid` box, else None
    .payload(data)  = bytes of the box after its header (full-box version/flags included)
WalkError           raised whenever sizes do not nest *exactly* or a known box's
                    fields do not consume exactly its payload.
resolve_trun(traf, trex=None) -> dict(sizes, durations, total_size, total_duration)
dump(boxes)         -> text outline, for debugging / reports.

All positions are offsets into `data` (plus `base`, default 0).

Path syntax of `find`/`find_all`: components separated by `/`; a component is a
four-character code, `uuid` (any uuid box), `piff` (the PIFF sample-encryption
uuid box), or `*`.  The path is anchored at the list (or at the children of the
box) it is given.

Decoded fields (Box.fields), all integers unless noted:
  every FullBox   version, flags
  ftyp/styp       major_brand(str) minor_version compatible_brands(list[str])
  mvhd/mdhd       timescale duration (+ language for mdhd)
  tkhd            track_id duration width height (16.16 fixed → int part)
  hdlr            handler_type(str) name(str)
  mehd            fragment_duration
  trex            track_id default_sample_description_index default_sample_duration
                  default_sample_size default_sample_flags
  mfhd            sequence_number
  tfhd            track_id base_data_offset|None sample_description_index|None
                  default_sample_duration|None default_sample_size|None
                  default_sample_flags|None default_base_is_moof(bool) duration_is_empty(bool)
  tfdt            base_media_decode_time  (version tells 32/64 bit)
  trun            sample_count data_offset|None (signed) first_sample_flags|None
                  data_offset_pos|None  (file position of the data_offset field)
                  samples = [dict(duration|None,size|None,flags|None,cto|None)]
                  after the enclosing traf has been walked also:
                  sizes|None durations|None total_size|None total_duration|None
                  (per-sample values resolved with the tfhd defaults; None when a
                  value would have to come from trex, see resolve_trun)
  sidx            reference_id timescale earliest_presentation_time first_offset
                  references=[dict(type,size,duration,starts_with_sap,sap_type,sap_delta_time)]
  mdat            payload_start payload_end (also Box.payload_start / Box.end)
  saiz            aux_info_type|None aux_info_type_parameter|None default_sample_info_size
                  sample_count sample_info_sizes(list)
  saio            aux_info_type|None aux_info_type_parameter|None offsets(list)
                  offsets_pos (file position of the first offset entry)
  senc / piff     iv_size sample_count first_sample_pos|None (file position of the first
                  sample entry = first IV byte) samples=[dict(pos,size,iv(hex),subsamples=[(clear,enc)])]
                  (flags&1 (PIFF override): algorithm_id, kid(hex)).  The entry table is parsed
                  softly: when the entries do not have the shape announced by flags&2 the other
                  shape is tried and `subsample_flag_mismatch`=True recorded; when nothing fits
                  samples=None and `entries_error` says why (no WalkError: box sizes still nest)
  tenc            is_encrypted iv_size default_kid(hex) crypt_byte_block skip_byte_block constant_iv(hex)|None
  schm            scheme_type(str) scheme_version   frma: data_format(str)
  pssh            system_id(hex) kids(list[hex]) data(hex)
  emsg            scheme_id_uri value (str) timescale presentation_time_delta|None
                  presentation_time|None event_duration id message_data(hex)
  stsd            entry_count ; sample entries avc1/avc3/hev1/hvc1/encv (width,height,
                  data_reference_index) and mp4a/enca/ac-3/ec-3 (channel_count, sample_size,
                  sample_rate) are walked into (avcC, esds, sinf ... as children)
  stts/stsc/stsz/stco/dref/elst   entry_count (stsz: sample_size, sample_count)

IV size of senc/piff: flags&1 override in the box itself, else the explicit `iv_size=` argument, else
the `tenc` seen earlier in the same `walk` call (init segment in front), else
inferred from the peer `saiz` sizes / the box length (8 and 16 are tried; exactly
one must fit).
"""
from __future__ import annotations

import dataclasses
import struct
from typing import Any, Iterable, Optional, Union

PIFF_UUID = "a2394f525a9b4f14a2446c427c648df4"

CONTAINERS = {"moov", "trak", "mdia", "minf", "stbl", "mvex", "moof", "traf", "edts",
              "sinf", "schi", "dinf", "udta", "mfra"}
VISUAL_ENTRIES = {"avc1", "avc3", "hev1", "hvc1", "encv"}
AUDIO_ENTRIES = {"mp4a", "enca", "ac-3", "ec-3"}


class WalkError(ValueError):
    """the byte stream is not a well-formed (exactly nested) ISO-BMFF box sequence"""


@dataclasses.dataclass
class Box:
    type: str
    start: int
    size: int
    header_size: int
    payload_start: int
    children: list["Box"] = dataclasses.field(default_factory=list)
    fields: dict[str, Any] = dataclasses.field(default_factory=dict)

    @property
    def end(self) -> int:
        return self.start + self.size

    @property
    def usertype(self) -> Optional[str]:
        return self.fields.get("usertype")

    @property
    def is_piff(self) -> bool:
        return self.type == "uuid" and self.usertype == PIFF_UUID

    def payload(self, data: bytes, base: int = 0) -> bytes:
        return data[self.payload_start - base:self.end - base]

    def child(self, path: str) -> Optional["Box"]:
        return find(self, path)

    def __getitem__(self, key: str) -> Any:
        return self.fields[key]

    def __repr__(self) -> str:  # compact
        return f"<{self.name} @{self.start}+{self.size}>"

    @property
    def name(self) -> str:
        if self.is_piff:
            return "piff"
        if self.type == "uuid":
            return f"uuid:{self.usertype}"
        return self.type


class _Ctx:
    def __init__(self, data: bytes, base: int, iv_size: Optional[int]):
        self.data = data
        self.base = base
        self.iv_size = iv_size
        self.tenc_iv_size: Optional[int] = None


class _R:
    """bounded big-endian reader over data[pos:end]"""

    def __init__(self, data: bytes, pos: int, end: int, what: str):
        self.d, self.pos, self.end, self.what = data, pos, end, what

    def need(self, n: int) -> None:
        if n < 0 or self.pos + n > self.end:
            raise WalkError(f"{self.what}: field of {n} bytes at {self.pos} overruns the box end {self.end}")

    def u(self, n: int) -> int:
        self.need(n)
        v = int.from_bytes(self.d[self.pos:self.pos + n], "big")
        self.pos += n
        return v

    def s32(self) -> int:
        self.need(4)
        v = struct.unpack(">i", self.d[self.pos:self.pos + 4])[0]
        self.pos += 4
        return v

    def raw(self, n: int) -> bytes:
        self.need(n)
        v = self.d[self.pos:self.pos + n]
        self.pos += n
        return v

    def cstr(self) -> str:
        i = self.d.find(b"\0", self.pos, self.end)
        if i < 0:
            raise WalkError(f"{self.what}: unterminated string")
        v = self.d[self.pos:i].decode("utf-8", "replace")
        self.pos = i + 1
        return v

    def rest(self) -> bytes:
        v = self.d[self.pos:self.end]
        self.pos = self.end
        return v

    def done(self) -> None:
        if self.pos != self.end:
            raise WalkError(f"{self.what}: fields end at {self.pos}, box ends at {self.end}")


# --------------------------------------------------------------------------- walk

def walk(data: bytes, *, iv_size: Optional[int] = None, base: int = 0) -> list[Box]:
    """Parse `data` as a sequence of boxes that fills it exactly.  Positions in
    the result are `base` + offset into data."""
    data = bytes(data)
    ctx = _Ctx(data, base, iv_size)
    return _walk_range(ctx, 0, len(data), "top", top=True)


def _walk_range(ctx: _Ctx, pos: int, end: int, where: str, top: bool = False) -> list[Box]:
    out: list[Box] = []
    while pos < end:
        b = _walk_box(ctx, pos, end, where, top)
        out.append(b)
        pos = b.end - ctx.base
    if pos != end:
        raise WalkError(f"{where}: children end at {pos}, container ends at {end}")
    return out


def _walk_box(ctx: _Ctx, pos: int, limit: int, where: str, top: bool) -> Box:
    d = ctx.data
    if limit - pos < 8:
        raise WalkError(f"{where}: {limit - pos} stray bytes at {pos} (no room for a box header)")
    size, typ = struct.unpack(">I4s", d[pos:pos + 8])
    hdr = 8
    if size == 1:
        if limit - pos < 16:
            raise WalkError(f"{where}: truncated 64-bit size at {pos}")
        size = struct.unpack(">Q", d[pos + 8:pos + 16])[0]
        hdr = 16
    elif size == 0:
        if not top:
            raise WalkError(f"{where}: size 0 (to end of file) inside a container at {pos}")
        size = limit - pos
    try:
        t = typ.decode("ascii")
    except UnicodeDecodeError:
        raise WalkError(f"{where}: non-ASCII box type {typ!r} at {pos}")
    if not all(32 <= c < 127 for c in typ):
        raise WalkError(f"{where}: unprintable box type {typ!r} at {pos}")
    fields: dict[str, Any] = {}
    if t == "uuid":
        if size < hdr + 16:
            raise WalkError(f"{where}: uuid box at {pos} too small ({size})")
        fields["usertype"] = d[pos + hdr:pos + hdr + 16].hex()
        hdr += 16
    if size < hdr:
        raise WalkError(f"{where}: box '{t}' at {pos} has size {size} < header {hdr}")
    if pos + size > limit:
        raise WalkError(f"{where}: box '{t}' at {pos} size {size} overruns its container (ends {limit})")
    box = Box(t, ctx.base + pos, size, hdr, ctx.base + pos + hdr, [], fields)
    path = f"{where}/{box.name}"
    p0, p1 = pos + hdr, pos + size
    if t in CONTAINERS:
        box.children = _walk_range(ctx, p0, p1, path)
        if t == "traf":
            _post_traf(ctx, box)
    else:
        dec = _DECODERS.get("piff" if box.is_piff else t)
        if dec is not None:
            dec(ctx, box, _R(d, p0, p1, path), path)
    return box


def _full(box: Box, r: _R) -> None:
    box.fields["version"] = r.u(1)
    box.fields["flags"] = r.u(3)


# --------------------------------------------------------------------------- decoders

def _d_ftyp(ctx, box, r, path):
    f = box.fields
    f["major_brand"] = r.raw(4).decode("latin-1")
    f["minor_version"] = r.u(4)
    brands = []
    while r.pos < r.end:
        brands.append(r.raw(4).decode("latin-1"))
    f["compatible_brands"] = brands
    r.done()


def _d_mvhd(ctx, box, r, path):
    _full(box, r)
    f = box.fields
    if f["version"] == 1:
        r.u(8), r.u(8)
        f["timescale"] = r.u(4)
        f["duration"] = r.u(8)
    else:
        r.u(4), r.u(4)
        f["timescale"] = r.u(4)
        f["duration"] = r.u(4)
    r.raw(80 - 0)       # rate, volume, reserved, matrix, pre_defined, next_track_ID
    r.done()


def _d_mdhd(ctx, box, r, path):
    _full(box, r)
    f = box.fields
    if f["version"] == 1:
        r.u(8), r.u(8)
        f["timescale"] = r.u(4)
        f["duration"] = r.u(8)
    else:
        r.u(4), r.u(4)
        f["timescale"] = r.u(4)
        f["duration"] = r.u(4)
    lang = r.u(2)
    f["language"] = "".join(chr(0x60 + ((lang >> s) & 0x1f)) for s in (10, 5, 0))
    r.u(2)
    r.done()


def _d_tkhd(ctx, box, r, path):
    _full(box, r)
    f = box.fields
    if f["version"] == 1:
        r.u(8), r.u(8)
        f["track_id"] = r.u(4)
        r.u(4)
        f["duration"] = r.u(8)
    else:
        r.u(4), r.u(4)
        f["track_id"] = r.u(4)
        r.u(4)
        f["duration"] = r.u(4)
    r.raw(8 + 2 + 2 + 2 + 2 + 36)
    f["width"] = r.u(4) >> 16
    f["height"] = r.u(4) >> 16
    r.done()


def _d_hdlr(ctx, box, r, path):
    _full(box, r)
    r.u(4)
    box.fields["handler_type"] = r.raw(4).decode("latin-1")
    r.raw(12)
    box.fields["name"] = r.rest().rstrip(b"\0").decode("utf-8", "replace")


def _d_mehd(ctx, box, r, path):
    _full(box, r)
    box.fields["fragment_duration"] = r.u(8 if box.fields["version"] == 1 else 4)
    r.done()


def _d_trex(ctx, box, r, path):
    _full(box, r)
    for k in ("track_id", "default_sample_description_index", "default_sample_duration",
              "default_sample_size", "default_sample_flags"):
        box.fields[k] = r.u(4)
    r.done()


def _d_mfhd(ctx, box, r, path):
    _full(box, r)
    box.fields["sequence_number"] = r.u(4)
    r.done()


def _d_tfhd(ctx, box, r, path):
    _full(box, r)
    f = box.fields
    fl = f["flags"]
    f["track_id"] = r.u(4)
    f["base_data_offset_pos"] = ctx.base + r.pos if fl & 0x01 else None
    f["base_data_offset"] = r.u(8) if fl & 0x01 else None
    f["sample_description_index"] = r.u(4) if fl & 0x02 else None
    f["default_sample_duration"] = r.u(4) if fl & 0x08 else None
    f["default_sample_size"] = r.u(4) if fl & 0x10 else None
    f["default_sample_flags"] = r.u(4) if fl & 0x20 else None
    f["duration_is_empty"] = bool(fl & 0x010000)
    f["default_base_is_moof"] = bool(fl & 0x020000)
    r.done()


def _d_tfdt(ctx, box, r, path):
    _full(box, r)
    box.fields["base_media_decode_time"] = r.u(8 if box.fields["version"] == 1 else 4)
    r.done()


def _d_trun(ctx, box, r, path):
    _full(box, r)
    f = box.fields
    fl = f["flags"]
    n = f["sample_count"] = r.u(4)
    f["data_offset_pos"] = ctx.base + r.pos if fl & 0x01 else None
    f["data_offset"] = r.s32() if fl & 0x01 else None
    f["first_sample_flags"] = r.u(4) if fl & 0x04 else None
    per = 4 * sum(1 for bit in (0x100, 0x200, 0x400, 0x800) if fl & bit)
    if r.pos + per * n != r.end:
        raise WalkError(f"{path}: {n} samples of {per} bytes do not fill the box "
                        f"({r.end - r.pos} bytes left)")
    samples = []
    for _ in range(n):
        s = {"duration": r.u(4) if fl & 0x100 else None,
             "size": r.u(4) if fl & 0x200 else None,
             "flags": r.u(4) if fl & 0x400 else None,
             "cto": None}
        if fl & 0x800:
            s["cto"] = r.s32() if f["version"] else r.u(4)
        samples.append(s)
    f["samples"] = samples
    f["sizes"] = f["durations"] = f["total_size"] = f["total_duration"] = None
    r.done()


def _d_sidx(ctx, box, r, path):
    _full(box, r)
    f = box.fields
    f["reference_id"] = r.u(4)
    f["timescale"] = r.u(4)
    w = 8 if f["version"] else 4
    f["earliest_presentation_time"] = r.u(w)
    f["first_offset"] = r.u(w)
    r.u(2)
    n = r.u(2)
    refs = []
    for _ in range(n):
        a = r.u(4)
        dur = r.u(4)
        c = r.u(4)
        refs.append({"type": a >> 31, "size": a & 0x7fffffff, "duration": dur,
                     "starts_with_sap": c >> 31, "sap_type": (c >> 28) & 7,
                     "sap_delta_time": c & 0x0fffffff})
    f["references"] = refs
    r.done()


def _d_mdat(ctx, box, r, path):
    box.fields["payload_start"] = box.payload_start
    box.fields["payload_end"] = box.end


def _d_saiz(ctx, box, r, path):
    _full(box, r)
    f = box.fields
    f["aux_info_type"] = f["aux_info_type_parameter"] = None
    if f["flags"] & 1:
        f["aux_info_type"] = r.u(4)
        f["aux_info_type_parameter"] = r.u(4)
    f["default_sample_info_size"] = r.u(1)
    n = f["sample_count"] = r.u(4)
    f["sample_info_sizes"] = [r.u(1) for _ in range(n)] if f["default_sample_info_size"] == 0 else []
    r.done()


def _d_saio(ctx, box, r, path):
    _full(box, r)
    f = box.fields
    f["aux_info_type"] = f["aux_info_type_parameter"] = None
    if f["flags"] & 1:
        f["aux_info_type"] = r.u(4)
        f["aux_info_type_parameter"] = r.u(4)
    n = r.u(4)
    f["offsets_pos"] = ctx.base + r.pos
    w = 8 if f["version"] else 4
    f["offsets"] = [r.u(w) for _ in range(n)]
    r.done()


def _parse_senc_samples(ctx, r0: _R, n: int, iv: int, subs: bool, sizes: Optional[list[int]]):
    """try to parse n sample entries with the given iv size; returns list or None"""
    r = _R(r0.d, r0.pos, r0.end, r0.what)
    out = []
    try:
        for i in range(n):
            p = r.pos
            ivb = r.raw(iv)
            ss = []
            if subs:
                k = r.u(2)
                for _ in range(k):
                    ss.append((r.u(2), r.u(4)))
            sz = r.pos - p
            if sizes is not None and sizes[i] != sz:
                return None
            out.append({"pos": ctx.base + p, "size": sz, "iv": ivb.hex(), "subsamples": ss})
        r.done()
    except WalkError:
        return None
    return out


def _d_senc(ctx, box, r, path):
    _full(box, r)
    f = box.fields
    iv_override = None
    if f["flags"] & 1:
        f["algorithm_id"] = r.u(3)
        iv_override = r.u(1) or 8
        f["kid"] = r.raw(16).hex()
    n = f["sample_count"] = r.u(4)
    f["iv_size"] = None
    f["first_sample_pos"] = None
    f["samples"] = []
    f["_pending"] = (r.pos, r.end, iv_override)   # resolved in _post_traf (needs the peer saiz)
    if n == 0:
        r.done()


def _finish_senc(ctx, box, saiz: Optional[Box]):
    f = box.fields
    pend = f.pop("_pending", None)
    if pend is None:
        return
    pos, end, iv_override = pend
    n = f["sample_count"]
    subs = bool(f["flags"] & 2)
    path = f"senc@{box.start}"
    sizes = None
    if saiz is not None:
        sf = saiz.fields
        if sf["sample_count"] == n:
            sizes = sf["sample_info_sizes"] or [sf["default_sample_info_size"]] * n
    cands = [iv_override or ctx.iv_size or ctx.tenc_iv_size]   # an in-box override (flags&1) wins
    if cands[0] is None:
        cands = [8, 16]
    if n == 0:
        f["iv_size"] = cands[0] if len(cands) == 1 else None
        return
    # position of the first sample entry follows from the box structure alone
    f["first_sample_pos"] = ctx.base + pos

    def attempt(subs_: bool):
        good_ = []
        for iv in cands:
            res = _parse_senc_samples(ctx, _R(ctx.data, pos, end, path), n, iv, subs_, sizes)
            if res is None and sizes is not None:
                # saiz and senc disagree: accept a parse that fills the box exactly, record it
                res = _parse_senc_samples(ctx, _R(ctx.data, pos, end, path), n, iv, subs_, None)
                if res is not None:
                    f["saiz_mismatch"] = True
            if res is not None:
                good_.append((iv, res))
        return good_

    good = attempt(subs)
    if len(good) != 1:
        # the entries do not have the shape the flags announce (flags&2 ⇔ subsample table):
        # try the other shape; this is recorded, not raised (box sizes still nest)
        alt = attempt(not subs)
        if len(alt) == 1:
            good = alt
            f["subsample_flag_mismatch"] = True
    if len(good) != 1:
        f["samples"] = None
        f["entries_error"] = (f"cannot parse {n} sample entries (subsamples={subs}) in {end - pos} bytes "
                              f"with iv size in {cands} ({len(good)} fits)")
        return
    f["iv_size"], f["samples"] = good[0]


def _post_traf(ctx, traf: Box):
    saiz = next((c for c in traf.children if c.type == "saiz"), None)
    for c in traf.children:
        if c.type == "senc" or c.is_piff:
            _finish_senc(ctx, c, saiz)
    r = resolve_trun(traf)
    for c in traf.children:
        if c.type == "trun":
            c.fields.update(r.get(id(c), {}))


def resolve_trun(traf: Box, trex: Optional[dict] = None) -> dict:
    """per-sample sizes/durations of every trun of `traf`, resolved with the
    tfhd defaults (then with `trex` – a dict with default_sample_size /
    default_sample_duration – when given).  Returns {id(trun): {...}}; for the
    common single-trun traf `resolve_trun(traf)[id(trun)]`."""
    tfhd = next((c for c in traf.children if c.type == "tfhd"), None)
    dsize = ddur = None
    if tfhd is not None:
        dsize = tfhd.fields.get("default_sample_size")
        ddur = tfhd.fields.get("default_sample_duration")
    if trex:
        dsize = trex.get("default_sample_size") if dsize is None else dsize
        ddur = trex.get("default_sample_duration") if ddur is None else ddur
    out = {}
    for c in traf.children:
        if c.type != "trun":
            continue
        ss = c.fields["samples"]
        sizes = [s["size"] if s["size"] is not None else dsize for s in ss]
        durs = [s["duration"] if s["duration"] is not None else ddur for s in ss]
        ok_s = all(x is not None for x in sizes)
        ok_d = all(x is not None for x in durs)
        out[id(c)] = {"sizes": sizes if ok_s else None, "durations": durs if ok_d else None,
                      "total_size": sum(sizes) if ok_s else None,
                      "total_duration": sum(durs) if ok_d else None}
    return out


def _d_tenc(ctx, box, r, path):
    _full(box, r)
    f = box.fields
    r.u(1)
    b = r.u(1)
    f["crypt_byte_block"], f["skip_byte_block"] = (b >> 4, b & 15) if f["version"] else (0, 0)
    f["is_encrypted"] = r.u(1)
    f["iv_size"] = r.u(1)
    f["default_kid"] = r.raw(16).hex()
    f["constant_iv"] = None
    if f["is_encrypted"] == 1 and f["iv_size"] == 0:
        k = r.u(1)
        f["constant_iv"] = r.raw(k).hex()
    r.done()
    if f["iv_size"]:
        ctx.tenc_iv_size = f["iv_size"]


def _d_schm(ctx, box, r, path):
    _full(box, r)
    box.fields["scheme_type"] = r.raw(4).decode("latin-1")
    box.fields["scheme_version"] = r.u(4)
    if box.fields["flags"] & 1:
        box.fields["scheme_uri"] = r.rest().rstrip(b"\0").decode("utf-8", "replace")
    r.done()


def _d_frma(ctx, box, r, path):
    box.fields["data_format"] = r.raw(4).decode("latin-1")
    r.done()


def _d_pssh(ctx, box, r, path):
    _full(box, r)
    f = box.fields
    f["system_id"] = r.raw(16).hex()
    f["kids"] = []
    if f["version"] > 0:
        k = r.u(4)
        f["kids"] = [r.raw(16).hex() for _ in range(k)]
    n = r.u(4)
    f["data"] = r.raw(n).hex()
    r.done()


def _d_emsg(ctx, box, r, path):
    _full(box, r)
    f = box.fields
    f["presentation_time_delta"] = f["presentation_time"] = None
    if f["version"] == 0:
        f["scheme_id_uri"] = r.cstr()
        f["value"] = r.cstr()
        f["timescale"] = r.u(4)
        f["presentation_time_delta"] = r.u(4)
        f["event_duration"] = r.u(4)
        f["id"] = r.u(4)
    elif f["version"] == 1:
        f["timescale"] = r.u(4)
        f["presentation_time"] = r.u(8)
        f["event_duration"] = r.u(4)
        f["id"] = r.u(4)
        f["scheme_id_uri"] = r.cstr()
        f["value"] = r.cstr()
    else:
        raise WalkError(f"{path}: emsg version {f['version']}")
    f["message_data"] = r.rest().hex()


def _d_stsd(ctx, box, r, path):
    _full(box, r)
    n = box.fields["entry_count"] = r.u(4)
    kids = []
    pos = r.pos
    for _ in range(n):
        e = _walk_box(ctx, pos, r.end, path, False)
        _sample_entry(ctx, e, path)
        kids.append(e)
        pos = e.end - ctx.base
    if pos != r.end:
        raise WalkError(f"{path}: {n} sample entries end at {pos}, box ends at {r.end}")
    box.children = kids


def _sample_entry(ctx, e: Box, path: str):
    p0, p1 = e.payload_start - ctx.base, e.end - ctx.base
    r = _R(ctx.data, p0, p1, f"{path}/{e.type}")
    if e.type in VISUAL_ENTRIES:
        r.raw(6)
        e.fields["data_reference_index"] = r.u(2)
        r.raw(16)
        e.fields["width"] = r.u(2)
        e.fields["height"] = r.u(2)
        r.raw(4 + 4 + 4 + 2 + 32 + 2 + 2)
        e.children = _walk_range(ctx, r.pos, p1, r.what)
    elif e.type in AUDIO_ENTRIES:
        r.raw(6)
        e.fields["data_reference_index"] = r.u(2)
        ver = r.u(2)
        r.raw(6)
        e.fields["channel_count"] = r.u(2)
        e.fields["sample_size"] = r.u(2)
        r.raw(4)
        e.fields["sample_rate"] = r.u(4) >> 16
        if ver == 1:
            r.raw(16)
        e.children = _walk_range(ctx, r.pos, p1, r.what)


def _d_count(ctx, box, r, path):
    _full(box, r)
    if box.type == "stsz":
        box.fields["sample_size"] = r.u(4)
        box.fields["sample_count"] = r.u(4)
    else:
        box.fields["entry_count"] = r.u(4)


def _d_dref(ctx, box, r, path):
    _full(box, r)
    box.fields["entry_count"] = r.u(4)
    box.children = _walk_range(ctx, r.pos, r.end, path)


def _d_fullonly(ctx, box, r, path):
    _full(box, r)


_DECODERS = {
    "ftyp": _d_ftyp, "styp": _d_ftyp, "mvhd": _d_mvhd, "mdhd": _d_mdhd, "tkhd": _d_tkhd,
    "hdlr": _d_hdlr, "mehd": _d_mehd, "trex": _d_trex, "mfhd": _d_mfhd, "tfhd": _d_tfhd,
    "tfdt": _d_tfdt, "trun": _d_trun, "sidx": _d_sidx, "mdat": _d_mdat, "saiz": _d_saiz,
    "saio": _d_saio, "senc": _d_senc, "piff": _d_senc, "tenc": _d_tenc, "schm": _d_schm,
    "frma": _d_frma, "pssh": _d_pssh, "emsg": _d_emsg, "stsd": _d_stsd,
    "stts": _d_count, "stsc": _d_count, "stsz": _d_count, "stco": _d_count, "elst": _d_count,
    "dref": _d_dref, "vmhd": _d_fullonly, "smhd": _d_fullonly, "esds": _d_fullonly,
}


# --------------------------------------------------------------------------- find

def _kids(x: Union[Box, Iterable[Box]]) -> list[Box]:
    return list(x.children) if isinstance(x, Box) else list(x)


def _match(b: Box, comp: str) -> bool:
    if comp == "*":
        return True
    if comp == "piff":
        return b.is_piff
    if comp == "uuid":
        return b.type == "uuid"
    return b.type == comp


def find_all(boxes: Union[Box, Iterable[Box]], path: str) -> list[Box]:
    """all boxes reached by `path` (see module doc) from the given list / box's children"""
    cur = _kids(boxes)
    comps = [c for c in path.split("/") if c]
    for i, comp in enumerate(comps):
        hit = [b for b in cur if _match(b, comp)]
        if i == len(comps) - 1:
            return hit
        cur = [k for b in hit for k in b.children]
    return []


def find(boxes: Union[Box, Iterable[Box]], path: str) -> Optional[Box]:
    """first box reached by `path`, or None"""
    r = find_all(boxes, path)
    return r[0] if r else None


def dump(boxes: Union[Box, Iterable[Box]], indent: str = "", brief: bool = True) -> str:
    """text outline of a box list (type, position, size, a few fields)"""
    lines = []
    for b in _kids(boxes) if not isinstance(boxes, Box) else [boxes]:
        fs = {k: v for k, v in b.fields.items()
              if not k.startswith("_") and (not brief or not isinstance(v, (list, dict)) or len(v) <= 4)
              and not (brief and isinstance(v, str) and len(v) > 40)}
        lines.append(f"{indent}{b.name} @{b.start} size={b.size} hdr={b.header_size} {fs}")
        if b.children:
            lines.append(dump(b.children, indent + "  ", brief))
    return "\n".join(l for l in lines if l)


if __name__ == "__main__":      # python mp4walk.py file.mp4  → outline
    import sys
    for fn in sys.argv[1:]:
        with open(fn, "rb") as fh:
            print(dump(walk(fh.read())))
