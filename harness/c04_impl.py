"""C04: adapter to the real `dashlive.mpeg.mp4` library (public API only).

* `load(data, lazy, mode, iv)` → `Wrapper`
* `impl_tokens(wrapper, data)` → the canonical token stream of `c04_gen.tokens`
  read from the attributes of the real objects
* `apply_edits`, `json_roundtrip`, `stored_sizes`, `metas`
"""
from __future__ import annotations

import io
import json
import logging

import c04_gen as G

logging.getLogger("mp4").setLevel(logging.CRITICAL)
logging.getLogger("fio").setLevel(logging.CRITICAL)


def mp4():
    from dashlive.mpeg import mp4 as m
    return m


# how the input reaches the parser and how the options are spelled (set by the harness per case):
#   reader: "io" = io.BufferedReader over BytesIO; ("window", buffersize, max_buffers) = the library's own
#           dashlive.utils.buffered_reader.BufferedReader with a small cache window; "data" = that reader
#           holding the whole input
#   options: "object" = mp4.Options(...); "dict" = the same as a dict; "iv-bits" = iv_size given in bits
VARIANT = {"reader": "io", "options": "object", "strict": False}


def load(data: bytes, lazy: bool, mode: str = "r", iv: int | None = None, strict: bool = False):
    m = mp4()
    reader = VARIANT["reader"]
    if reader == "io":
        src = io.BufferedReader(io.BytesIO(data))
    else:
        from dashlive.utils.buffered_reader import BufferedReader
        if reader == "data":
            src = BufferedReader(None, data=data)
        else:
            src = BufferedReader(io.BytesIO(data), buffersize=reader[1], max_buffers=reader[2], size=len(data))
    strict = strict or VARIANT["strict"]
    if VARIANT["options"] == "iv-bits" and iv in (8, 16):
        iv = iv * 8
    if VARIANT["options"] == "dict":
        opts = dict(lazy_load=lazy, mode=mode, iv_size=iv, strict=strict)
    else:
        opts = m.Options(lazy_load=lazy, mode=mode, iv_size=iv, strict=strict)
    return m.Mp4Atom.load(src, options=opts, use_wrapper=True)


def real(atom):
    """the parsed box behind a lazily loaded one (public `lazy_load()`)"""
    m = mp4()
    if isinstance(atom, m.LazyLoadedBox):
        return atom.lazy_load()
    return atom


def typ_token(atom) -> str:
    t = atom.atom_type
    if t.startswith("UUID("):
        return "u" + t[5:-1]
    return t.encode("latin-1").hex()


def _b(x) -> bytes:
    """bytes of a Binary/HexBinary/bytes/None attribute"""
    if x is None:
        return b""
    data = getattr(x, "data", x)
    return bytes(data) if data is not None else b""


def _get(atom, name, default=0):
    try:
        v = getattr(atom, name)
    except AttributeError:
        return default
    return default if v is None else v


def fields_of(kind: str, a, data: bytes | None) -> dict:
    f = {}
    if kind not in ("ftyp", "opaque", "dec3"):
        f["version"], f["flags"] = a.version, a.flags
    fl = f.get("flags", 0)
    if kind == "mfhd":
        f["sequence_number"] = a.sequence_number
    elif kind == "tfdt":
        f["base_media_decode_time"] = a.base_media_decode_time
    elif kind == "mehd":
        f["fragment_duration"] = a.fragment_duration
    elif kind == "trex":
        for k in ("track_id", "default_sample_description_index", "default_sample_duration",
                  "default_sample_size", "default_sample_flags"):
            f[k] = getattr(a, k)
    elif kind == "tenc":
        f.update(is_encrypted=a.is_encrypted, iv_size=a.iv_size, default_kid=_b(a.default_kid))
    elif kind == "ftyp":
        f.update(major_brand=a.major_brand.encode("latin-1"), minor_version=a.minor_version,
                 compatible_brands=[b.encode("latin-1") for b in a.compatible_brands])
    elif kind == "tfhd":
        f["track_id"] = a.track_id
        # when the flag is off the attribute holds the position of the moof (not part of the bytes)
        f["base_data_offset"] = a.base_data_offset if fl & 1 else 0
        f["sample_description_index"] = a.sample_description_index if fl & 2 else 0
        f["default_sample_duration"] = a.default_sample_duration if fl & 8 else 0
        f["default_sample_size"] = a.default_sample_size if fl & 0x10 else 0
        f["default_sample_flags"] = a.default_sample_flags if fl & 0x20 else 0
    elif kind == "trun":
        f["sample_count"] = a.sample_count
        f["data_offset"] = a.data_offset if fl & 1 else 0
        f["first_sample_flags"] = a.first_sample_flags if fl & 4 else 0
        f["samples"] = [(s.duration if fl & 0x100 else 0, s.size if fl & 0x200 else 0,
                         s.flags if fl & 0x400 else 0,
                         s.composition_time_offset if fl & 0x800 else 0) for s in a.samples]
    elif kind == "saiz":
        f["aux_info_type"] = _get(a, "aux_info_type") if fl & 1 else 0
        f["aux_info_type_parameter"] = _get(a, "aux_info_type_parameter") if fl & 1 else 0
        f["default_sample_info_size"] = a.default_sample_info_size
        f["sample_count"] = a.sample_count
        f["sample_info_sizes"] = list(a.sample_info_sizes)
    elif kind == "saio":
        f["aux_info_type"] = _get(a, "aux_info_type") if fl & 1 else 0
        f["aux_info_type_parameter"] = _get(a, "aux_info_type_parameter") if fl & 1 else 0
        f["offsets"] = list(a.offsets)
    elif kind == "senc":
        f["algorithm_id"] = _get(a, "algorithm_id") if fl & 1 else 0
        f["iv_size"] = a.iv_size
        f["kid"] = _b(_get(a, "kid", None)) if fl & 1 else b""
        f["samples"] = [(_b(s.initialization_vector), [(u.clear, u.encrypted) for u in s.subsamples])
                        for s in a.samples]
    elif kind == "pssh":
        f.update(system_id=_b(a.system_id), key_ids=[_b(k) for k in a.key_ids], data=_b(a.data))
    elif kind == "sidx":
        f.update(reference_id=a.reference_id, timescale=a.timescale,
                 earliest_presentation_time=a.earliest_presentation_time, first_offset=a.first_offset,
                 references=[(int(r.ref_type), r.ref_size, r.duration, int(r.starts_with_SAP), r.SAP_type,
                              r.SAP_delta_time) for r in a.references])
    elif kind == "emsg":
        f.update(scheme_id_uri=a.scheme_id_uri.encode("utf-8"), value=a.value.encode("utf-8"),
                 timescale=a.timescale, presentation_time_delta=_get(a, "presentation_time_delta"),
                 presentation_time=_get(a, "presentation_time"), event_duration=a.event_duration,
                 event_id=a.event_id, data=_b(a.data))
    elif kind == "dec3":
        f["data_rate"] = a.data_rate
        f["substreams"] = [(s.fscod, s.bsid, s.bsmod, s.acmod, int(s.lfeon), s.num_dep_sub,
                            _get(s, "chan_loc") if s.num_dep_sub else 0) for s in a.substreams]
        f["ext"] = (int(a.flag_ec3_extension_type_a), a.complexity_index_type_a) \
            if "flag_ec3_extension_type_a" in a._fields else None
    elif kind == "opaque":
        if data is None:
            f["data"] = _b(_get(a, "data", None))
        else:
            f["data"] = data[a.position + a.header_size:a.position + a.size]
    return f


def is_large(a) -> bool:
    ext = 16 if a.atom_type.startswith("UUID(") else 0
    return a.header_size == 16 + ext


def tree_of(atom, data: bytes | None):
    """the model's view of a real box: modelled classes by field, the children of
    pure containers, everything else as its payload bytes"""
    a = real(atom)
    typ = typ_token(a)
    kind = G.kind_of(typ)
    if kind == "container":
        return ("N", typ, is_large(a), [tree_of(c, data) for c in list(a.children)])
    return ("L", typ, is_large(a), kind, fields_of(kind, a, data))


def impl_tokens(wrapper, data: bytes) -> str:
    return " ".join(G.forest_tokens([tree_of(c, data) for c in list(wrapper.children)])) or "empty"


def encode(wrapper) -> bytes:
    return wrapper.encode()


def pure_json(wrapper) -> str:
    """all field values of all boxes (every registered class), canonical"""
    out = [c.toJSON(pure=True) for c in wrapper.children]
    return json.dumps(out, sort_keys=True, default=str)


def json_roundtrip(wrapper) -> bytes:
    """every top-level box through its JSON form and back, then the whole file"""
    m = mp4()
    kids = [m.Mp4Atom.fromJSON(c.toJSON()) for c in wrapper.children]
    return m.Wrapper(children=kids).encode()


# ---------------------------------------------------------------- edits

def node_at(root, path):
    a = real(root)
    for i in path:
        a = real(list(a.children)[i])
    return a


def walk_real(atom):
    """pre-order over the boxes the model sees (children of pure containers only)"""
    a = real(atom)
    yield a
    if G.kind_of(typ_token(a)) == "container":
        for c in list(a.children):
            yield from walk_real(c)


def stored_sizes(root) -> str:
    return ",".join(str(a.size) for a in walk_real(root))


def metas(root) -> str:
    return ",".join(f"{a.size}:{a.position}" for a in walk_real(root))


def make_child(spec, iv):
    """a box to insert: parsed from its own bytes (knows its size) or built from
    scratch with the class constructor (size 0 until encoded)"""
    m = mp4()
    how, payload = spec
    if how == "bytes":
        return load(payload, False, "rw", iv).children[0]
    kind, typ, f = payload
    if kind == "pssh":
        return m.ContentProtectionSpecificBox(version=f["version"], flags=f["flags"], system_id=f["system_id"],
                                              key_ids=list(f["key_ids"]), data=f["data"] or None)
    if kind == "mfhd":
        return m.MovieFragmentHeaderBox(version=f["version"], flags=f["flags"],
                                        sequence_number=f["sequence_number"])
    if kind == "tfdt":
        return m.TrackFragmentDecodeTimeBox(version=f["version"], flags=f["flags"],
                                            base_media_decode_time=f["base_media_decode_time"])
    if kind == "emsg":
        kw = dict(version=f["version"], flags=f["flags"], scheme_id_uri=f["scheme_id_uri"].decode("utf-8"),
                  value=f["value"].decode("utf-8"), timescale=f["timescale"], event_duration=f["event_duration"],
                  event_id=f["event_id"], data=f["data"] or None)
        if f["version"] == 0:
            kw["presentation_time_delta"] = f["presentation_time_delta"]
        else:
            kw["presentation_time"] = f["presentation_time"]
        return m.EventMessageBox(**kw)
    raise ValueError(kind)


def apply_edit(root, e, iv):
    """one edit through the public API; returns None or the exception name"""
    try:
        op = e[0]
        if op == "A":
            node_at(root, e[1]).append_child(make_child(e[2], iv))
        elif op == "I":
            node_at(root, e[1]).insert_child(e[2], make_child(e[3], iv))
        elif op == "R":
            node_at(root, e[1]).remove_child(e[2])
        elif op == "T":
            node_at(root, e[1]).base_media_decode_time = e[2]
        elif op == "P":
            a = node_at(root, e[1])
            for k, v in e[2].items():
                setattr(a, k, v)
        return None
    except Exception as ex:   # the harness reports it; generators keep edits legal
        return type(ex).__name__ + ": " + str(ex)[:80]


# ---------------------------------------------------------------- call history (read-only API) and class-level state

import contextlib
import inspect
import os

# methods that change the tree or need arguments that matter; everything else that is public
# and callable without arguments is a read-only helper and is part of the call history
MUTATORS = {
    "encode", "append_child", "insert_child", "remove_child", "replace_child", "update_size", "set_children",
    "add_field", "remove_field", "update", "apply_defaults", "trigger_change", "lazy_load", "post_encode",
    "post_encode_all", "encode_fields", "encode_box_fields", "output_box_fields", "load", "parse", "fromJSON",
    "clear", "pop", "popitem", "setdefault", "remove_descriptor", "parse_samples", "atom_changed", "main",
    "walk_atoms", "show_atom", "clone_from_senc", "from_kwargs", "parse_header", "parse_payload",
}
FIXED_OPS = ["repr", "str", "as_python", "toJSON", "toJSON-pure", "toJSON-exclude", "len", "iter", "contains",
             "find_child", "index", "children"]


def argless_methods(obj) -> list[str]:
    """public methods of the object's class that can be called without arguments"""
    out = []
    for name in sorted(dir(type(obj))):
        if name.startswith("_") or name in MUTATORS:
            continue
        fn = getattr(type(obj), name, None)
        if not callable(fn) or isinstance(fn, type):
            continue
        try:
            sig = inspect.signature(getattr(obj, name))
        except (TypeError, ValueError):
            continue
        if all(p.default is not p.empty or p.kind in (p.VAR_POSITIONAL, p.VAR_KEYWORD)
               for p in sig.parameters.values()):
            out.append(name)
    return out


def gen_calls(rng, limit: int = 5) -> list:
    """a seeded sequence of read-only calls: (box selector, operation, argument)"""
    if rng.random() < .35:
        return []
    out = []
    for _ in range(rng.randrange(1, limit + 1)):
        if rng.random() < .6:
            out.append([rng.randrange(1000), rng.choice(FIXED_OPS), rng.randrange(1000)])
        else:
            out.append([rng.randrange(1000), "method", rng.randrange(1000)])
    return out


def boxes_as_they_are(wrapper) -> list:
    """the boxes reachable through the public `children` property (lazy boxes stay lazy until a
    call needs them)"""
    out = []

    def rec(a, depth):
        out.append(a)
        if depth > 12:
            return
        try:
            kids = list(a.children or [])
        except Exception:
            kids = []
        for c in kids:
            rec(c, depth + 1)
    for top in list(wrapper.children):
        rec(top, 0)
    return out


def run_calls(wrapper, calls) -> int:
    """perform the read-only calls; what they return (or raise) is not judged – only what the
    checked operations do afterwards.  Returns the number of calls that raised."""
    if not calls:
        return 0
    raised = 0
    with open(os.devnull, "w") as null, contextlib.redirect_stdout(null):
        for sel, op, arg in calls:
            boxes = boxes_as_they_are(wrapper)
            if not boxes:
                return raised
            a = boxes[sel % len(boxes)]
            try:
                if op == "repr":
                    repr(a)
                elif op == "str":
                    str(a)
                    "%s" % (a,)
                elif op == "as_python":
                    a.as_python()
                elif op == "toJSON":
                    a.toJSON()
                elif op == "toJSON-pure":
                    a.toJSON(pure=True)
                elif op == "toJSON-exclude":
                    a.toJSON(exclude=set())
                elif op == "len":
                    len(a)
                elif op == "iter":
                    list(iter(a))
                elif op == "contains":
                    "size" in a
                elif op == "children":
                    list(a.children or [])
                elif op in ("find_child", "index"):
                    t = boxes[arg % len(boxes)].atom_type
                    (a.find_child(t) if op == "find_child" else a.index(t))
                elif op == "method":
                    names = argless_methods(a)
                    if names:
                        getattr(a, names[arg % len(names)])()
            except Exception:
                raised += 1
    return raised


def _canon(v, depth=0):
    if isinstance(v, (set, frozenset)):
        return ["set"] + sorted(repr(x) for x in v)
    if isinstance(v, dict):
        return ["dict"] + sorted((repr(k), _canon(x, depth + 1) if depth < 2 else type(x).__name__) for k, x in v.items())
    if isinstance(v, (list, tuple)):
        return ["list"] + [_canon(x, depth + 1) if depth < 2 else type(x).__name__ for x in v]
    if isinstance(v, type):
        return "class " + v.__name__
    if isinstance(v, (int, str, bytes, bool, float)) or v is None:
        return repr(v)
    inner = getattr(v, "clazz", None)          # ListOf(X)
    return type(v).__name__ + ("(" + getattr(inner, "__name__", "?") + ")" if inner is not None else "")


def class_state() -> dict:
    """every class-level mutable attribute (set / dict / list) of the classes of the mp4 module and of
    its base classes, plus the registries – a class-level default must not drift while the library is used"""
    m = mp4()
    from dashlive.utils import object_with_fields, binary
    classes = {}
    for mod in (m, object_with_fields, binary):
        for name, c in vars(mod).items():
            if isinstance(c, type):
                classes[f"{c.__module__}.{c.__name__}"] = c
    out = {}
    for cname, c in sorted(classes.items()):
        for attr, v in vars(c).items():
            if attr.startswith("__"):
                continue
            if isinstance(v, (set, dict, list)):
                out[f"{cname}.{attr}"] = json.dumps(_canon(v), sort_keys=True)
    out["fourcc.BOXES"] = json.dumps(sorted(m.fourcc.BOXES))
    out["fourcc.BOX_TYPES"] = json.dumps(sorted(m.fourcc.BOX_TYPES))
    out["mp4descriptor.DESCRIPTORS"] = json.dumps(sorted(m.mp4descriptor.DESCRIPTORS))
    return out
