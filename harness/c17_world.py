"""C17 world: the real application, management operations as real HTTP requests by
a media-group user, the abstraction of the real database + blob folder, and the
Layer-C oracle written from the property text (independent of the Lean model).

An operation is a tuple whose first element is the op code of the driver's line
protocol (`lean/DashLive/Driver/Store.lean`):
  ("as", dir, title)                      PUT    /streams/add
  ("es", spk, dir, title, tref)           POST   /stream/<spk>
  ("ds", spk, variant)                    DELETE /stream/<spk>  |  /stream/<spk>/delete
  ("sd", spk, ((field, value), …), valid) POST   /stream/<spk>/defaults   (form of the stream defaults page)
  ("up", spk, stem, suffix, kind)         POST   /media/<spk>/blob        (kind: c17_media.KINDS)
  ("ix", mfid)                            GET    /media/index/<mfid>
  ("em", spk, mfid, track)                POST   /stream/<spk>/<mfid>/edit
  ("dm", spk, mfid, variant)              DELETE /stream/<spk>/<mfid>  |  …/delete
  ("ak", kid, computed[, route, spelling]) PUT   /key   (route 0)  |  POST /key, the HTML form (route 1); `kid` is
                                          the canonical lower-case hex of the 16 bytes (what the model keys on),
                                          `spelling` how the request writes it: lower|upper|mixed|0x|dashes|0xdashes
  ("as", dir, title[, route[, other]])    route 1: POST /streams/add (HTML form, field `prefix`); routes 2 (form) and
                                          3 (JSON) send `prefix`=dir AND `directory`=other: the alias wins
  ("es", spk, dir, title, tref[, route])  route 1: POST /stream/<spk> as HTML form
  ("ek", kpk, computed)                   POST   /key/<kpk>
  ("dk", kpk)                             DELETE /key/<kpk>/delete
  ("am", name, title, periods)            PUT    /api/multi-period-streams/.add
  ("mm", urlname, bodypk, name, title, periods)   POST /api/multi-period-streams/<urlname>
  ("xm", name)                            DELETE /api/multi-period-streams/<name>
periods = tuple of (pk|None, pid, stream_pk, ordering, (track, …)[, start_us, duration_us, fits]) – start and
duration in microseconds (0 = the API's default "PT0S"), fits = the verdict the model is given for
`start + duration <= stream duration` (see period_fits).
"""
from __future__ import annotations

import io
import json
import os
import shutil
import sqlite3
from pathlib import Path

import appboot
import c17_media as media

CTYPE = {"video": 0, "audio": 1, "text": 2}

# Titles are opaque to the model; the line protocol cannot carry blanks, `:` `;` `,` `|`, so titles with such
# characters travel as a token (a token is shorter than 3 characters exactly when the title is: the only thing the
# application looks at is `len(title) < 3` of a multi-period stream).
TITLE_TOKENS = {
    "Tamp": 'A&B <x> "q" \'s\' &lt; &#0;', "Tbrace": "{stream} {0} }{ %41+%2B a=b;c", "Tutf": "Grüße – 東京 ✓",
    "Tlong": "L" + "o" * 110 + "ng", "Tjson": '{"a": [1, null, true]}', "T0x": "0x1f 9e4 1000.0",
    "Xy": "&<", "Uu": "ü",
}
TOKEN_OF_TITLE = {v: k for k, v in TITLE_TOKENS.items()}


def canonical_kid(text: str) -> str:
    """a key id as the 16 bytes it denotes (lower-case hex): optional 0x prefix, dashes and letter case do not matter"""
    t = (text or "").strip()
    if t[:2].lower() == "0x":
        t = t[2:]
    return t.replace("-", "").lower()


def spell_kid(kid: str, spelling: str) -> str:
    if spelling == "upper":
        return kid.upper()
    if spelling == "mixed":
        return "".join(ch.upper() if i % 2 else ch for i, ch in enumerate(kid))
    if spelling == "0x":
        return "0x" + kid
    dashed = "-".join([kid[:8], kid[8:12], kid[12:16], kid[16:20], kid[20:]])
    if spelling == "dashes":
        return dashed.upper()
    if spelling == "0xdashes":
        return "0x" + dashed
    return kid


def tref_stem(text: str) -> str:
    """`pathlib.Path(text).stem` for the plain names used here: the part before the last dot"""
    return text.rsplit(".", 1)[0] if text and "." in text[1:] else (text or "")


def title_text(token: str) -> str:
    return TITLE_TOKENS.get(token, token)


def title_token(text: str) -> str:
    if text in TOKEN_OF_TITLE:
        return TOKEN_OF_TITLE[text]
    import re
    return text if re.fullmatch(r"[A-Za-z0-9_.\-]+", text or "") else "hex" + (text or "").encode().hex()


class HarnessError(Exception):
    pass


class World:
    def __init__(self):
        self.a = appboot.App()
        self.app = self.a.app
        self.models = self.a.models
        self.blob_folder = Path(self.a.blob_folder)
        self.fixtures = str(appboot.FIXTURES)
        self.c = self.app.test_client()
        self.actors: dict = {}
        self._login()
        self.actors["media"] = (self.c, self.jwt, self.csrf_key)
        self.c = self.app.test_client()
        self._login(appboot.ADMIN)
        self.actors["admin"] = (self.c, self.jwt, self.csrf_key)
        self.actor = "media"
        self.use_actor("media")
        with self.app.app_context():
            self.models.db.session.remove()
            rc = self.models.db.engine.raw_connection()
            self.conn: sqlite3.Connection = rc.driver_connection
            rc.close()
        self.snap = sqlite3.connect(":memory:")
        self.conn.backup(self.snap)
        self._desc_cache: dict = {}
        self.uploaded: dict[str, bytes | None] = {}
        self.requests = 0
        self._mcache: dict = {}
        self.last_status: dict[str, int] = {}

    def use_actor(self, who: str):
        """the authorised user who sends the following requests: `media` (media group) or `admin`, each with
        its own session, JWT and CSRF cookie"""
        self.actor = who
        self.c, self.jwt, self.csrf_key = self.actors[who]

    def _login(self, who=None):
        if who is None:
            who = appboot.ADMIN if getattr(self, "actor", "media") == "admin" else appboot.MEDIA
        r = self.a.login(self.c, who)
        if r.status_code != 200 or not r.json.get("success"):
            raise HarnessError(f"login failed: {r.status_code}")
        self.jwt = r.json["accessToken"]["jwt"]
        self.c.get("/streams?ajax=1")
        ck = self.c.get_cookie("csrf")
        if ck is None:
            raise HarnessError("no csrf cookie")
        self.csrf_key = ck.value

    def reset(self):
        """independent histories: empty store (users only), empty blob folder"""
        with self.app.app_context():
            self.models.db.session.remove()
        try:
            self.conn.rollback()
        except Exception:
            pass
        self.snap.backup(self.conn)
        if self.blob_folder.exists():
            shutil.rmtree(self.blob_folder)
        self.blob_folder.mkdir(parents=True, exist_ok=True)
        self.uploaded = {}
        self._mcache = {}

    def token(self, service: str) -> str:
        from dashlive.server.requesthandler.csrf import CsrfProtection
        with self.app.test_request_context("/"):
            return CsrfProtection.generate_token(service, self.csrf_key)

    # ------------------------------------------------------------------ operations
    def payload(self, kind: str) -> bytes:
        return media.payload(kind, self.fixtures)

    def content_of_kind(self, kind: str) -> tuple:
        return media.describe(self.payload(kind))

    def op_line(self, op: tuple) -> str:
        """the operation in the driver's line protocol"""
        def periods(ps):
            if not ps:
                return "-"
            return "/".join(",".join([("-" if p[0] is None else str(p[0])), p[1], str(p[2]), str(p[3]),
                                      "+".join(map(str, p[4])) or "-"] +
                                     ([str(int(bool(p[7])))] if len(p) > 7 else [])) for p in ps)
        k = op[0]
        if k == "as":
            return f"as:{op[1]}:{op[2]}"                  # titles travel as tokens
        if k == "es":
            # the timing reference may be spelled as a file name (`va.mp4`): the handler uses its stem
            return f"es:{op[1]}:{op[2]}:{op[3]}:{tref_stem(op[4]) or '-'}"
        if k == "ds":
            return f"ds:{op[1]}"
        if k == "sd":
            return f"sd:{op[1]}:{int(bool(op[3]))}"
        if k == "up":
            return f"up:{op[1]}:{op[2]}:{op[3]}:{media.content_token(self.content_of_kind(op[4]))}"
        if k == "ix":
            return f"ix:{op[1]}"
        if k == "em":
            return f"em:{op[1]}:{op[2]}:{op[3]}"
        if k == "dm":
            return f"dm:{op[1]}:{op[2]}"
        if k == "ak":
            return f"ak:{op[1]}:{int(op[2])}"
        if k == "ek":
            return f"ek:{op[1]}:{int(op[2])}"
        if k == "dk":
            return f"dk:{op[1]}"
        if k == "am":
            return f"am:{op[1]}:{op[2]}:{periods(op[3])}"
        if k == "mm":
            return f"mm:{op[1]}:{'-' if op[2] is None else op[2]}:{op[3]}:{op[4]}:{periods(op[5])}"
        if k == "xm":
            return f"xm:{op[1]}"
        raise HarnessError(f"unknown op {op!r}")

    @staticmethod
    def iso_duration(us: int) -> str:
        return "PT0S" if us == 0 else f"PT{us // 10**6}.{us % 10**6:06d}S"

    def _periods_json(self, ps):
        return [{"pk": p[0], "pid": p[1], "stream": p[2], "ordering": p[3],
                 "start": self.iso_duration(p[5] if len(p) > 5 else 0),
                 "duration": self.iso_duration(p[6] if len(p) > 6 else 0),
                 "tracks": [{"track_id": t, "role": "main"} for t in p[4]]} for p in ps]

    @staticmethod
    def period_fits(rows: dict, stream_pk: int, start_us: int, dur_us: int) -> bool:
        """does a Period that starts at a segment boundary `start_us` of the stream's timing reference and lasts
        `dur_us` end inside the stream?  (The default duration - 0 - is 'to the end of the stream': always fits.)"""
        from fractions import Fraction
        if dur_us == 0:
            return True
        s = next((s for s in rows["streams"] if s["pk"] == stream_pk), None)
        if s is None or not s.get("timing"):
            return True           # refused earlier for another reason
        md, ts, _ = s["timing"]
        return Fraction(start_us + dur_us) <= Fraction(md * 10**6, ts)

    def apply(self, op: tuple) -> tuple[str, int]:
        """send the request; (result class ok|nf|rej, HTTP status)"""
        r = self._send(op)
        if r.status_code == 401:
            self._login()
            self.actors[self.actor] = (self.c, self.jwt, self.csrf_key)
            r = self._send(op)
        self.requests += 1
        st = r.status_code
        if st == 401:
            raise HarnessError(f"401 for {op!r}")
        if st == 404:
            return "nf", st
        if st >= 500:
            return "rej", st
        k = op[0]
        js = r.get_json(silent=True) if r.is_json else None
        ok = False
        if k == "as":
            ok = (st == 302) if (len(op) > 3 and op[3] in (1, 2)) else (st == 200 and isinstance(js, dict) and "pk" in js)
        elif k == "es":
            ok = (st == 302) if (len(op) > 5 and op[5] == 1) else st == 200
        elif k == "ds":
            ok = st == 200 and isinstance(js, dict) and (js.get("success") or "deleted" in js)
        elif k == "sd":
            ok = st == 302
        elif k == "up":
            ok = st == 200 and isinstance(js, dict) and "pk" in js and "error" not in js
        elif k == "ix":
            ok = st == 200 and isinstance(js, dict) and "indexed" in js
        elif k == "em":
            ok = st == 302 and "/edit" not in (r.headers.get("Location") or "")
        elif k == "dm":
            ok = st == 200 and isinstance(js, dict) and "deleted" in js and not js.get("error")
        elif k == "ak":
            if len(op) > 3 and op[3] == 1:
                ok = st == 302
            else:
                ok = st == 200 and isinstance(js, dict) and "kid" in js and not js.get("error")
        elif k == "ek":
            ok = st == 302
        elif k == "dk":
            ok = st == 200 and isinstance(js, dict) and "deleted" in js
        elif k in ("am", "mm"):
            ok = st == 200 and isinstance(js, dict) and js.get("success") is True
        elif k == "xm":
            ok = st == 204
        if ok:
            self._note_success(op)
        return ("ok" if ok else "rej"), st

    def _note_success(self, op):
        if op[0] == "up":
            self.uploaded[op[2]] = self.payload(op[4])
        elif op[0] == "em":
            with self.app.app_context():
                mf = self.models.MediaFile.get(pk=op[2])
                if mf is not None:
                    self.uploaded[mf.name] = None      # rewritten by the server: compare with the disk

    def _send(self, op):
        c, k = self.c, op[0]
        H = {"Authorization": f"Bearer {self.jwt}"}
        if k == "as" and len(op) > 4 and op[3] in (2, 3):
            # both spellings of the directory in one request: the legacy alias `prefix` (= op[1]) wins over
            # `directory` (= op[4]); route 2 HTML form, route 3 JSON
            body = {"title": title_text(op[2]), "directory": op[4], "prefix": op[1], "marlin_la_url": "",
                    "playready_la_url": "", "csrf_token": self.token("streams")}
            if op[3] == 2:
                return c.post("/streams/add", data=body)
            return c.put("/streams/add", json=body)
        if k == "as" and len(op) > 3 and op[3] == 1:
            return c.post("/streams/add", data={"title": title_text(op[2]), "prefix": op[1], "marlin_la_url": "",
                                                "playready_la_url": "", "csrf_token": self.token("streams")})
        if k == "es" and len(op) > 5 and op[5] == 1:
            return c.post(f"/stream/{op[1]}", data={"title": title_text(op[3]), "directory": op[2], "marlin_la_url": "",
                                                    "playready_la_url": "", "timing_ref": op[4] or "",
                                                    "csrf_token": self.token("streams")})
        if k == "as":
            return c.put("/streams/add", json={"title": title_text(op[2]), "directory": op[1], "marlin_la_url": "",
                                               "playready_la_url": "", "csrf_token": self.token("streams")})
        if k == "es":
            return c.post(f"/stream/{op[1]}", json={"title": title_text(op[3]), "directory": op[2], "marlin_la_url": "",
                                                    "playready_la_url": "", "timing_ref": op[4] or "",
                                                    "csrf_token": self.token("streams")})
        if k == "sd":
            d = {n: v for n, v in op[2]}
            d["csrf_token"] = self.token("streams")
            return c.post(f"/stream/{op[1]}/defaults", data=d)
        if k == "ds":
            path = f"/stream/{op[1]}" if op[2] == 0 else f"/stream/{op[1]}/delete"
            return c.delete(path, query_string={"ajax": "1", "csrf_token": self.token("streams")})
        if k == "up":
            data = self.payload(op[4])
            return c.post(f"/media/{op[1]}/blob", query_string={"ajax": "1"},
                          data={"file": (io.BytesIO(data), op[2] + op[3], media.MIME.get(op[4], "video/mp4")),
                                "csrf_token": self.token("upload"), "submit": "submit"},
                          content_type="multipart/form-data")
        if k == "ix":
            return c.get(f"/media/index/{op[1]}", query_string={"ajax": "1", "csrf_token": self.token("files")})
        if k == "em":
            return c.post(f"/stream/{op[1]}/{op[2]}/edit",
                          data={"track_id": str(op[3]), "csrf_token": self.token("files")})
        if k == "dm":
            path = f"/stream/{op[1]}/{op[2]}" if op[3] == 0 else f"/stream/{op[1]}/{op[2]}/delete"
            return c.delete(path, query_string={"ajax": "1", "csrf_token": self.token("files")})
        if k == "ak" and len(op) > 3 and op[3] == 1:
            d = {"new_key": "1", "hkid": spell_kid(op[1], op[4] if len(op) > 4 else "lower"),
                 "hkey": "0123456789ABCDEF0123456789abcdef", "csrf_token": self.token("keys")}
            if op[2]:
                d["computed"] = "on"
            return c.post("/key", data=d)
        if k == "ak":
            q = {"ajax": "1", "kid": spell_kid(op[1], op[4] if len(op) > 4 else "lower"),
                 "csrf_token": self.token("keys")}
            if not op[2]:
                q["key"] = "0123456789abcdef0123456789abcdef"
            return c.put("/key", query_string=q)
        if k == "ek":
            d = {"new_key": "0", "hkey": "fedcba9876543210fedcba9876543210", "csrf_token": self.token("keys")}
            if op[2]:
                d["computed"] = "on"
            return c.post(f"/key/{op[1]}", data=d)
        if k == "dk":
            return c.delete(f"/key/{op[1]}/delete", query_string={"ajax": "1", "csrf_token": self.token("keys")})
        if k == "am":
            return c.put("/api/multi-period-streams/.add", headers=H,
                         json={"name": op[1], "title": title_text(op[2]), "periods": self._periods_json(op[3]),
                               "csrf_token": self.token("streams")})
        if k == "mm":
            return c.post(f"/api/multi-period-streams/{op[1]}", headers=H,
                          json={"pk": op[2], "name": op[3], "title": title_text(op[4]), "options": None,
                                "periods": self._periods_json(op[5]), "csrf_token": self.token("streams")})
        if k == "xm":
            return c.delete(f"/api/multi-period-streams/{op[1]}", headers=H,
                            query_string={"ajax": "1", "csrf_token": self.token("streams")})
        raise HarnessError(f"unknown op {op!r}")

    # ------------------------------------------------------------------ abstraction
    def rows(self) -> dict:
        """every row of the modelled tables, read through SQLAlchemy, plus the blob folder"""
        m = self.models
        db = m.db
        with self.app.app_context():
            db.session.remove()

            def all_(cls):
                return list(db.session.execute(db.select(cls)).scalars())
            out = {
                "streams": [dict(pk=s.pk, dir=s.directory, title=s.title,
                                 tref=(s.timing_ref or {}).get("media_name") if s.timing_ref is not None else None,
                                 defaults=json.dumps(s.defaults, sort_keys=True, default=str),
                                 timing=((s.timing_ref["media_duration"], s.timing_ref["timescale"],
                                          s.timing_ref["segment_duration"]) if s.timing_ref else None))
                            for s in all_(m.Stream)],
                "files": [dict(pk=f.pk, name=f.name, stream=f.stream_pk, blob=f.blob_pk, indexed=f.rep is not None,
                               track=f.track_id, ctype=f.content_type, enc=bool(f.encrypted))
                          for f in all_(m.MediaFile)],
                "blobs": [dict(pk=b.pk, filename=b.filename, size=b.size) for b in all_(m.Blob)],
                "keys": [dict(pk=k.pk, kid=k.hkid, computed=bool(k.computed)) for k in all_(m.Key)],
                "links": [tuple(r) for r in db.session.execute(db.text("select media_pk, key_pk from mediafile_keys"))],
                "errors": [dict(pk=e.pk, media=e.media_pk, reason=int(e.reason)) for e in all_(m.MediaFileError)],
                "mps": [dict(pk=x.pk, name=x.name, title=x.title) for x in all_(m.MultiPeriodStream)],
                "periods": [dict(pk=p.pk, pid=p.pid, parent=p.parent_pk, stream=p.stream_pk, ordering=p.ordering)
                            for p in all_(m.Period)],
                "adps": [dict(pk=x.pk, period=x.period_pk, track=x.track_id, ctype=x.content_type_pk)
                         for x in all_(m.AdaptationSet)],
                "content_types": [ct.pk for ct in all_(m.ContentType)],
            }
            db.session.remove()
        disk = []
        for d, _, fs in os.walk(self.blob_folder):
            for f in fs:
                p = Path(d) / f
                rel = p.relative_to(self.blob_folder)
                if len(rel.parts) != 2:
                    continue
                st = p.stat()
                key = (str(rel), st.st_size, st.st_mtime_ns)
                if key not in self._desc_cache:
                    self._desc_cache[key] = media.describe(p.read_bytes())
                disk.append(dict(dir=rel.parts[0], filename=rel.parts[1], content=self._desc_cache[key]))
        out["disk"] = disk
        return out

    @staticmethod
    def served_signature(rows: dict) -> str:
        """everything the answers of the service can depend on besides the modelled state: the saved option defaults"""
        return "|".join(f"{s['pk']}={s['defaults']}" for s in sorted(rows["streams"], key=lambda x: x["pk"]))

    @staticmethod
    def canonical(rows: dict) -> str:
        """the same text the Lean driver prints for its state"""
        def tab(tag, items):
            return tag + "[" + "|".join(items) + "]"
        errs: dict[int, list[int]] = {}
        for e in rows["errors"]:
            errs.setdefault(e["media"], []).append(e["reason"])
        F = []
        for f in sorted(rows["files"], key=lambda x: x["pk"]):
            rep = "-"
            if f["indexed"]:
                rep = f"{f['track']}.{CTYPE.get(f['ctype'], 9)}.{int(f['enc'])}"
            er = "+".join(str(x) for x in sorted(errs.get(f["pk"], []))) or "-"
            F.append(f"{f['pk']},{f['name']},{f['stream']},{f['blob']},{rep},{er}")
        return (
            tab("S", [f"{s['pk']},{s['dir']},{title_token(s['title'])},{s['tref'] or '-'}"
                      for s in sorted(rows["streams"], key=lambda x: x["pk"])]) +
            tab("F", F) +
            tab("B", [f"{b['pk']},{b['filename']}" for b in sorted(rows["blobs"], key=lambda x: x["pk"])]) +
            tab("K", [f"{k['pk']},{k['kid']},{int(k['computed'])}" for k in sorted(rows["keys"], key=lambda x: x["pk"])]) +
            tab("L", [f"{a}.{b}" for a, b in sorted(rows["links"])]) +
            tab("M", [f"{x['pk']},{x['name']},{title_token(x['title'])}" for x in sorted(rows["mps"], key=lambda x: x["pk"])]) +
            tab("P", [f"{p['pk']},{p['pid']},{p['parent']},{p['stream']},{p['ordering']}"
                      for p in sorted(rows["periods"], key=lambda x: x["pk"])]) +
            tab("A", [f"{x['pk']},{x['period']},{x['track']}" for x in sorted(rows["adps"], key=lambda x: x["pk"])]) +
            tab("D", [f"{d['dir']}/{d['filename']}={media.content_shown(d['content'])}"
                      for d in sorted(rows["disk"], key=lambda x: (x["dir"], x["filename"]))]))

    # ------------------------------------------------------------------ oracle (property text)
    @staticmethod
    def inv_failures(rows: dict) -> list[str]:
        """referential consistency, straight from the statement of C17"""
        out = []

        def dup(what, values):
            seen = set()
            for v in values:
                if v in seen:
                    out.append(f"names stay unique: duplicate {what} {v!r}")
                seen.add(v)
        spk = {s["pk"] for s in rows["streams"]}
        bpk = {b["pk"] for b in rows["blobs"]}
        fpk = {f["pk"] for f in rows["files"]}
        kpk = {k["pk"] for k in rows["keys"]}
        mpk = {m["pk"] for m in rows["mps"]}
        ppk = {p["pk"] for p in rows["periods"]}
        sdir = {s["pk"]: s["dir"] for s in rows["streams"]}
        bname = {b["pk"]: b["filename"] for b in rows["blobs"]}
        on_disk = {(d["dir"], d["filename"]) for d in rows["disk"]}
        for t in ("streams", "files", "blobs", "keys", "mps", "periods", "adps"):
            dup(f"{t} primary key", [r["pk"] for r in rows[t]])
        dup("stream directory", [s["dir"] for s in rows["streams"]])
        dup("media file name", [f["name"] for f in rows["files"]])
        dup("blob file name", [b["filename"] for b in rows["blobs"]])
        dup("blob of two media files", [f["blob"] for f in rows["files"]])
        # key ids are compared as the 16 bytes they denote, not as text
        dup("key id", [canonical_kid(k["kid"]) for k in rows["keys"]])
        dup("key link", rows["links"])
        dup("multi-period stream name", [m["name"] for m in rows["mps"]])
        dup("period id within a multi-period stream", [(p["parent"], p["pid"]) for p in rows["periods"]])
        dup("track within a period", [(a["period"], a["track"]) for a in rows["adps"]])
        for f in rows["files"]:
            if f["stream"] not in spk:
                out.append(f"media file {f['name']} has no stream (stream_pk={f['stream']})")
            if f["blob"] not in bpk:
                out.append(f"media file {f['name']} has no blob row (blob_pk={f['blob']})")
            elif f["stream"] in spk and (sdir[f["stream"]], bname[f["blob"]]) not in on_disk:
                out.append(f"media file {f['name']} has no blob file {sdir[f['stream']]}/{bname[f['blob']]} on disk")
        for a, b in rows["links"]:
            if a not in fpk:
                out.append(f"key link ({a},{b}) points at a missing media file")
            if b not in kpk:
                out.append(f"key link ({a},{b}) points at a missing key")
        # a key link of a media file points at the key of one of the key ids the file is encrypted with
        kid_of = {k["pk"]: canonical_kid(k["kid"]) for k in rows["keys"]}
        content = {(d["dir"], d["filename"]): d["content"] for d in rows["disk"]}
        for f in rows["files"]:
            if not f["indexed"] or f["stream"] not in spk or f["blob"] not in bpk:
                continue
            c = content.get((sdir[f["stream"]], bname[f["blob"]]))
            if c is None:
                continue
            for a, b in rows["links"]:
                if a == f["pk"] and b in kid_of and kid_of[b] not in c[4]:
                    out.append(f"media file {f['name']} is linked to the key of {kid_of[b]}, which is none of its key ids {list(c[4])}")
        for e in rows["errors"]:
            if e["media"] not in fpk:
                out.append(f"error row {e['pk']} points at a missing media file {e['media']}")
        for p in rows["periods"]:
            if p["parent"] not in mpk:
                out.append(f"period {p['pid']} points at a missing multi-period stream {p['parent']}")
            if p["stream"] not in spk:
                out.append(f"period {p['pid']} points at a missing stream {p['stream']}")
        for a in rows["adps"]:
            if a["period"] not in ppk:
                out.append(f"adaptation set {a['pk']} points at a missing period {a['period']}")
            if a["ctype"] not in rows["content_types"]:
                out.append(f"adaptation set {a['pk']} points at a missing content type {a['ctype']}")
        for s in rows["streams"]:
            if s["tref"] is not None and not any(f["name"] == s["tref"] and f["stream"] == s["pk"]
                                                 for f in rows["files"]):
                out.append(f"timing reference {s['tref']!r} of stream {s['dir']} names no media file of that stream")
        return out

    # the option vectors that make a manifest SELECT other media (encrypted instead of clear representations, another
    # audio codec, a single representation) - requested in vod and live mode for every listed stream and
    # multi-period stream after every step - plus the addressing variant timeline=1
    SELECTIONS = ("", "?drm=all", "?drm=clearkey", "?acodec=ec-3", "?abr=0", "?timeline=1")

    @classmethod
    def stream_urls(cls, s: dict) -> tuple:
        return tuple(f"/dash/{mode}/{s['dir']}/hand_made.mpd{q}" for mode in ("vod", "live") for q in cls.SELECTIONS)

    @classmethod
    def mps_urls(cls, m: dict) -> tuple:
        # (a live multi-period manifest lists every Period of the time shift buffer and is by far the most expensive
        # request: drm=clearkey, abr and acodec are left to the vod request)
        return tuple(f"/mps/vod/{m['name']}/hand_made.mpd{q}" for q in cls.SELECTIONS) + \
            tuple(f"/mps/live/{m['name']}/hand_made.mpd{q}" for q in ("", "?drm=all", "?timeline=1"))

    # ------------------------------------------------------------------ oracle: deletions (property text)
    DELETING = {"ds": "stream-deletion", "dm": "media-file deletion", "dk": "key deletion",
                "xm": "multi-period-stream deletion", "up": "media-file replacement (upload of the same name)",
                "as": "stream-replacement (add with the directory of an existing one)",
                "am": "multi-period-stream creation (tracks a Period no longer lists)",
                "mm": "multi-period-stream edit (tracks a Period no longer lists)"}

    @staticmethod
    def owned_rows(before: dict, op: tuple) -> tuple[dict, set, dict, set]:
        """(rows the operation owns per table {table: {pk}}, owned key links, permitted in-place changes
        {(table, pk): new row}, pks of the streams whose own content the operation changes) - from the ownership
        edges of C17: Stream 1-n MediaFile 1-1 Blob, MediaFile n-m Key (links owned by either end, keys by
        nobody else), MultiPeriodStream 1-n Period n-1 Stream, Period 1-n AdaptationSet, MediaFile 1-n error rows"""
        own = {t: set() for t in ("streams", "files", "blobs", "keys", "mps", "periods", "adps", "errors")}
        links: set = set()
        changed: dict = {}
        affected: set = set()

        def own_files(fs):
            for f in fs:
                own["files"].add(f["pk"])
                own["blobs"].add(f["blob"])
            fp = {f["pk"] for f in fs}
            links.update(x for x in before["links"] if x[0] in fp)
            own["errors"].update(e["pk"] for e in before["errors"] if e["media"] in fp)

        def own_periods(ps):
            pp = {p["pk"] for p in ps}
            own["periods"].update(pp)
            own["adps"].update(a["pk"] for a in before["adps"] if a["period"] in pp)
        k = op[0]
        if k in ("ds", "as"):
            gone = {op[1]} if k == "ds" else {s["pk"] for s in before["streams"] if s["dir"] == op[1]}
            own["streams"].update(gone)
            affected.update(gone)
            own_files([f for f in before["files"] if f["stream"] in gone])
            own_periods([p for p in before["periods"] if p["stream"] in gone])
        elif k in ("dm", "up"):
            if k == "dm":
                fs = [f for f in before["files"] if f["pk"] == op[2]]
            else:
                # an upload replaces the file of that name in ITS OWN stream only
                fs = [f for f in before["files"] if f["name"] == op[2] and f["stream"] == op[1]]
            own_files(fs)
            for f in fs:
                affected.add(f["stream"])
                if k == "dm":
                    for s in before["streams"]:
                        if s["pk"] == f["stream"] and s["tref"] == f["name"]:
                            changed[("streams", s["pk"])] = {**s, "tref": None, "timing": None}
            if k == "up":
                affected.add(op[1])
        elif k == "dk":
            own["keys"].add(op[1])
            links.update(x for x in before["links"] if x[1] == op[1])
        elif k in ("am", "mm"):
            # saving a Period again with fewer tracks deletes the AdaptationSet rows of the dropped tracks OF THAT
            # Period - and nothing else; the addressed Period rows (and the edited mps row) change in place
            specs = op[3] if k == "am" else op[5]
            if k == "mm":
                for m in before["mps"]:
                    if m["name"] == op[1]:
                        changed[("mps", m["pk"])] = {**m, "name": op[3], "title": title_text(op[4])}
                mpk = next((m["pk"] for m in before["mps"] if m["name"] == op[1]), None)
            else:
                mpk = None
            for sp in specs:
                if sp[0] is not None:
                    target = next((p for p in before["periods"] if p["pk"] == sp[0]), None)
                else:
                    target = next((p for p in before["periods"] if p["pid"] == sp[1] and p["parent"] == mpk), None)
                if target is None:
                    continue
                changed[("periods", target["pk"])] = {**target, "pid": sp[1], "stream": sp[2], "ordering": sp[3]}
                own["adps"].update(a["pk"] for a in before["adps"]
                                   if a["period"] == target["pk"] and a["track"] not in sp[4])
        elif k == "xm":
            ms = [m for m in before["mps"] if m["name"] == op[1]]
            own["mps"].update(m["pk"] for m in ms)
            own_periods([p for p in before["periods"] if p["parent"] in own["mps"]])
        return own, links, changed, affected

    @classmethod
    def deletion_failures(cls, before: dict, op: tuple, res: str, after: dict) -> list[str]:
        """'each deletion removes exactly the rows it owns and none it shares': after a successful deletion (or
        replacement) every row the deleted object does not own is still there and unchanged, and (for pure
        deletions) every row it owns is gone"""
        if res != "ok" or op[0] not in cls.DELETING:
            return []
        what = cls.DELETING[op[0]]
        own, links, changed, _ = cls.owned_rows(before, op)
        out = []
        for t in own:
            now = {r["pk"]: r for r in after[t]}
            for r in before[t]:
                if r["pk"] in own[t]:
                    if op[0] not in ("up", "as", "am", "mm") and r["pk"] in now:
                        out.append(f"{what} left a row it owns: {t} {r}")
                    continue
                want = changed.get((t, r["pk"]), r)
                if r["pk"] not in now:
                    out.append(f"{what} removed a row it does not own: {t} {r}")
                elif now[r["pk"]] != want:
                    out.append(f"{what} changed a row it does not own: {t} {r} -> {now[r['pk']]}")
        now_links = set(after["links"])
        for x in before["links"]:
            if x in links:
                if op[0] not in ("up", "as", "am", "mm") and x in now_links:
                    out.append(f"{what} left a key link it owns: {x}")
            elif x not in now_links:
                out.append(f"{what} removed a key link it does not own: {x}")
        return out

    @classmethod
    def preservation_failures(cls, before: dict, status_before: dict, op: tuple, res: str, after: dict,
                              status_after: dict) -> list[str]:
        """deleting / replacing an object does not change what the OTHER streams and multi-period streams serve:
        a stream none of whose rows the operation owns (and a multi-period stream none of whose periods plays an
        affected stream) answers each manifest with the status it answered before.  (Deleting a key is exempt: a key
        is shared, its deletion legitimately turns DRM manifests of every stream that used it into a clean 404.)"""
        if res != "ok" or op[0] not in ("ds", "dm", "xm", "up", "as"):
            return []
        own, _, _, affected = cls.owned_rows(before, op)
        out = []
        was = {s["pk"]: s for s in before["streams"]}
        for s in after["streams"]:
            if s["pk"] in affected or s["pk"] not in was or was[s["pk"]]["dir"] != s["dir"]:
                continue
            for url in cls.stream_urls(s):
                a, b = status_before.get(url), status_after.get(url)
                if a is not None and b is not None and a != b:
                    out.append(f"{cls.DELETING[op[0]]} changed the manifests of an unrelated stream: GET {url} {a} -> {b}")
        wasm = {m["pk"]: m for m in before["mps"]}
        for m in after["mps"]:
            if m["pk"] in own["mps"] or m["pk"] not in wasm or wasm[m["pk"]]["name"] != m["name"]:
                continue
            if any(p["parent"] == m["pk"] and p["stream"] in affected for p in before["periods"]):
                continue
            for url in cls.mps_urls(m):
                a, b = status_before.get(url), status_after.get(url)
                if a is not None and b is not None and a != b:
                    out.append(f"{cls.DELETING[op[0]]} changed the manifests of an unrelated multi-period-stream: GET {url} {a} -> {b}")
        return out

    def service_failures(self, rows: dict) -> list[str]:
        """every listed stream / multi-period stream answers 200 or a clean 4xx; indexed files come back byte-exactly.
        Side effect: `self.last_status` = {manifest URL: HTTP status} for this state."""
        out = []
        c = self.c
        status: dict[str, int] = {}
        # A manifest is requested again only when something it can depend on has changed since it was last requested
        # in this history: the stream's row (with saved defaults and timing reference), its media files and their key
        # links, the keys; for a multi-period stream its row, Periods, AdaptationSets and the streams they play.
        keys_sig = json.dumps(sorted((k["kid"], k["pk"]) for k in rows["keys"]))
        ssig, ssig_mps = {}, {}
        for s in rows["streams"]:
            fs = sorted((json.dumps(f, sort_keys=True, default=str) for f in rows["files"] if f["stream"] == s["pk"]))
            fp = {f["pk"] for f in rows["files"] if f["stream"] == s["pk"]}
            ssig_mps[s["pk"]] = json.dumps([{k: v for k, v in s.items() if k != "defaults"}, fs,
                                            sorted(x for x in rows["links"] if x[0] in fp), keys_sig], sort_keys=True,
                                           default=str)     # a multi-period manifest does not use stream defaults
            ssig[s["pk"]] = json.dumps([s, fs, sorted(x for x in rows["links"] if x[0] in fp), keys_sig,
                                        sorted(e["reason"] for e in rows["errors"] if e["media"] in fp)],
                                       sort_keys=True, default=str)

        def fetch(url, sig):
            hit = self._mcache.get(url)
            if hit is not None and hit[0] == sig:
                st = hit[1]
            else:
                st = c.get(url).status_code
                self.requests += 1
                self._mcache[url] = (sig, st)
            status[url] = st
            if st >= 500 or not (st == 200 or 400 <= st < 500):
                out.append(f"GET {url} -> {st}")
        for s in rows["streams"]:
            for url in self.stream_urls(s):
                fetch(url, ssig[s["pk"]])
        for m in rows["mps"]:
            ps = sorted((p for p in rows["periods"] if p["parent"] == m["pk"]), key=lambda p: p["pk"])
            pp = {p["pk"] for p in ps}
            sig = json.dumps([m, ps, sorted((a["pk"], a["period"], a["track"], a["ctype"]) for a in rows["adps"]
                                            if a["period"] in pp),
                              [ssig_mps.get(p["stream"]) for p in ps]], sort_keys=True, default=str)
            for url in self.mps_urls(m):
                fetch(url, sig)
        self.last_status = status
        # the media requests a player would make next: init and first media segment of the timing-reference file
        for s in rows["streams"]:
            f = next((f for f in rows["files"] if f["stream"] == s["pk"] and f["name"] == s["tref"] and f["indexed"]), None)
            if f is None:
                continue
            ext = {"video": "m4v", "audio": "m4a"}.get(f["ctype"], "mp4")
            for mode in ("live", "vod"):
                for seg in ("init", "1"):
                    url = f"/dash/{mode}/{s['dir']}/{f['name']}/{seg}.{ext}"
                    st = c.get(url).status_code
                    self.requests += 1
                    if st >= 500:
                        out.append(f"GET {url} -> {st}")
        # … and through a multi-period stream: the same two requests below the first two Periods
        by_pk = {s["pk"]: s for s in rows["streams"]}
        names = {m["pk"]: m["name"] for m in rows["mps"]}
        seen: dict = {}
        for p in sorted(rows["periods"], key=lambda x: x["pk"]):
            s = by_pk.get(p["stream"])
            if s is None or p["parent"] not in names or seen.get(p["parent"], 0) >= 2:
                continue
            f = next((f for f in rows["files"] if f["stream"] == s["pk"] and f["name"] == s["tref"] and f["indexed"]), None)
            if f is None:
                continue
            seen[p["parent"]] = seen.get(p["parent"], 0) + 1
            ext = {"video": "m4v", "audio": "m4a"}.get(f["ctype"], "mp4")
            for mode in ("live", "vod"):
                for seg in ("init", "1"):
                    url = f"/mps/{mode}/{names[p['parent']]}/{p['pk']}/{f['name']}/{seg}.{ext}"
                    st = c.get(url).status_code
                    self.requests += 1
                    if st >= 500:
                        out.append(f"GET {url} -> {st}")
        sdir = {s["pk"]: s["dir"] for s in rows["streams"]}
        blobs = {b["pk"]: b for b in rows["blobs"]}
        for f in rows["files"]:
            if not f["indexed"] or f["stream"] not in sdir or f["blob"] not in blobs:
                continue
            b = blobs[f["blob"]]
            want = self.uploaded.get(f["name"])
            path = self.blob_folder / sdir[f["stream"]] / b["filename"]
            if want is None:
                if not path.exists():
                    continue        # reported by inv_failures
                want = path.read_bytes()
            if not want:
                continue
            url = f"/dash/odvod/{sdir[f['stream']]}/{f['name']}.mp4"
            r = c.get(url, headers={"Range": f"bytes=0-{len(want) - 1}"})
            self.requests += 1
            if r.status_code != 206 or r.data != want:
                out.append(f"GET {url} -> {r.status_code}, {len(r.data)} bytes: not the {len(want)} bytes of the indexed file")
        return out


_WORLD = None


def world() -> World:
    global _WORLD
    if _WORLD is None:
        _WORLD = World()
    return _WORLD
