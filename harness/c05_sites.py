"""Dynamic cross-check of the generated interpolation-site table (C05, channel `site_table`).

The templates are rendered by the real application through a loader that wraps every
`{{ … }}` site in private-use marker characters  U+E000 <global site index> U+E001 … U+E002 .
In the rendered output each marked span shows exactly what one row of the table wrote:

* context  – a lexical scan of the *rendered* text up to the span gives text / attrDq /
             attrSq / other; it must be the context the translator derived from the
             template text (this validates the "control blocks are transparent" shortcut);
* kind     – uint / duration / dateTime rows must have written text of that lexical class;
             enumCode / media / fraction / base64 / hex / uuid rows only plain characters
             (nothing that needs escaping); untrusted rows text that is already escaped
             (no raw `<`, quote of the context, or bare `&`);
* sentinels – every stored or requested string of the request carries a unique alphanumeric
             core (zq…zq); wherever a core shows up in the output it must be inside a span of
             a row classified `untrusted`.
"""
from __future__ import annotations

import re

import jinja2

import gen_template_sites as G

M_OPEN, M_MID, M_CLOSE = "\ue000", "\ue001", "\ue002"
CORE = re.compile(r"zq[A-Za-z0-9]{1,12}zq")
_DUR = re.compile(r"^P(?=\d|T\d)(\d+D)?(T(?=\d)(\d+H)?(\d+M)?(\d+(\.\d+)?S)?)?$")
_DT = re.compile(r"^\d{4}-\d\d-\d\dT\d\d:\d\d:\d\d(\.\d+)?(Z|[+-]\d\d:\d\d)?$")
_BARE_AMP = re.compile(r"&(?!(amp|lt|gt|quot|apos|#\d+|#x[0-9a-fA-F]+);)")


def table():
    """sites of the current tree with their global index, grouped by template name"""
    sites = G.scan()
    by_file: dict = {}
    for i, s in enumerate(sites):
        s["index"] = i
        by_file.setdefault(s["file"], []).append(s)
    return sites, by_file


def mark_source(env: jinja2.Environment, src: str, rows: list) -> str:
    out, k = [], 0
    for _ln, typ, val in env.lex(src):
        if typ == "variable_begin":
            out.append(f"{M_OPEN}{rows[k]['index']}{M_MID}")
            out.append(val)
        elif typ == "variable_end":
            out.append(val)
            out.append(M_CLOSE)
            k += 1
        else:
            out.append(val)
    assert k == len(rows), "site count differs from the translator's scan"
    return "".join(out)


class MarkedLoader(jinja2.BaseLoader):
    def __init__(self, inner, by_file):
        self.inner, self.by_file = inner, by_file

    def get_source(self, environment, template):
        src, filename, uptodate = self.inner.get_source(environment, template)
        rows = self.by_file.get("templates/" + template)
        if rows:
            src = mark_source(environment, src, rows)
        return src, filename, uptodate

    def list_templates(self):
        return self.inner.list_templates()


class Marked:
    """context manager: the application renders marked templates"""

    def __init__(self, app, by_file):
        self.env = app.app.jinja_env
        self.by_file = by_file

    def __enter__(self):
        self.saved = self.env.loader
        self.env.loader = MarkedLoader(self.saved, self.by_file)
        self.env.cache.clear()
        return self

    def __exit__(self, *a):
        self.env.loader = self.saved
        self.env.cache.clear()
        return False


def spans(text: str):
    """→ (plain text without markers, [(site index, start, end, depth)]) – offsets into the plain text"""
    plain, out, stack = [], [], []
    pos = 0
    i, n = 0, len(text)
    while i < n:
        ch = text[i]
        if ch == M_OPEN:
            j = text.index(M_MID, i)
            stack.append((int(text[i + 1:j]), pos))
            i = j + 1
        elif ch == M_CLOSE:
            idx, start = stack.pop()
            out.append((idx, start, pos, len(stack)))
            i += 1
        else:
            plain.append(ch)
            pos += 1
            i += 1
    assert not stack, "unbalanced site markers"
    return "".join(plain), out


def contexts(plain: str, sp: list) -> dict:
    """lexical context at the start of every span (scan of the rendered text)"""
    sc = G.Scanner()
    res, pos = {}, 0
    for idx, start, end, depth in sorted(sp, key=lambda s: (s[1], -s[2])):
        if start > pos:
            sc.feed(plain[pos:start])
            pos = start
        res[(idx, start, end)] = sc.context()
    return res


def check_kind(kind: str, ctx: str, raw: str) -> str | None:
    """→ description of the mismatch, or None"""
    if kind == "uint":
        return None if re.fullmatch(r"\d+", raw) else "uint row wrote a non-integer"
    if kind == "duration":
        return None if _DUR.match(raw) else "duration row wrote text outside xs:duration"
    if kind == "dateTime":
        return None if _DT.match(raw) else "dateTime row wrote text outside xs:dateTime"
    if kind == "markup":
        return None
    if kind == "untrusted":
        if "<" in raw or _BARE_AMP.search(raw) or (ctx == "attrDq" and '"' in raw) or (ctx == "attrSq" and "'" in raw):
            return "untrusted row wrote unescaped text"
        return None
    if re.search(r"[<&\"']", raw):
        return f"{kind} row wrote a character that needs escaping"
    return None
