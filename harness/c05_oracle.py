"""Layer-C rule set of C05, written from the property text and ISO/IEC 23009-1
(5th ed. schema names), independent of dashlive and of the Lean model.

`check_document(body) -> (root | None, [failure dict])` evaluates, on one 200
response body of a manifest or MPD-patch endpoint:

  R1 well-formed          – lxml parses the bytes (no recovery, no DTD, no entities);
  R3 required attributes  – MPD: profiles, minBufferTime; dynamic: availabilityStartTime,
                            publishTime; static: mediaPresentationDuration or a duration
                            on every Period (the attributes whose presence Table 3 of
                            5.3.1.2 ties to MPD@type; the type-independent clause
                            "mediaPresentationDuration shall be present when neither
                            minimumUpdatePeriod nor the last Period@duration is" is not
                            part of the property);  Patch: mpdId, originalPublishTime,
                            publishTime;
  R4 lexical validity     – every xs:duration / xs:dateTime / unsigned-integer attribute
                            (table below, names from DASH-MPD.xsd) matches the XSD
                            lexical space and is non-negative;
  R5 unique ids           – Period@id in the MPD, AdaptationSet@id in its Period,
                            Representation@id in its Period;
  R6 no empty AdaptationSet;
  R7 URL templates        – identifiers in SegmentTemplate@media/@initialization/@index/
                            @bitstreamSwitching ⊆ {$RepresentationID$, $Number$, $Time$,
                            $Bandwidth$, $$}, optional %0<w>d format (not on RepresentationID).

`skeleton(root)` is the element structure (qualified names and attribute names,
nested, in document order) used for R2: a hostile string may change character
data and attribute values only, so the skeleton of the response must equal the
skeleton of the same request made with a benign string.
"""
from __future__ import annotations

import re

from lxml import etree

MPD_NS = "urn:mpeg:dash:schema:mpd:2011"
PATCH_NS = "urn:mpeg:dash:schema:mpd-patch:2020"

# xs:duration (non-negative: no leading '-'); at least one component, 'T' needs a time part
_DUR = re.compile(r"^P(?=\d|T\d)(\d+Y)?(\d+M)?(\d+D)?(T(?=\d)(\d+H)?(\d+M)?(\d+(\.\d+)?S)?)?$")
# xs:dateTime; year >= 0001 (a leading '-' would be a negative year)
_DT = re.compile(r"^(\d{4,})-(\d\d)-(\d\d)T(\d\d):(\d\d):(\d\d)(\.\d+)?(Z|[+-]\d\d:\d\d)?$")
_UINT = re.compile(r"^\+?\d+$")          # xs:unsignedInt / xs:unsignedLong lexical space
_INT = re.compile(r"^[+-]?\d+$")

DURATION_ATTRS = {
    "MPD": {"mediaPresentationDuration", "minimumUpdatePeriod", "minBufferTime", "timeShiftBufferDepth",
            "suggestedPresentationDelay", "maxSegmentDuration", "maxSubsegmentDuration"},
    "Period": {"start", "duration"},
    "Latency": set(),
}
DATETIME_ATTRS = {
    "MPD": {"availabilityStartTime", "availabilityEndTime", "publishTime"},
    "Patch": {"originalPublishTime", "publishTime"},
}
# unsigned-integer attributes per element (xs:unsignedInt / xs:unsignedLong / SAPType)
_COMMON = {"width", "height", "startWithSAP", "selectionPriority"}
_SEGBASE = {"timescale", "presentationTimeOffset", "presentationDuration"}
_MULTI = _SEGBASE | {"duration", "startNumber", "endNumber"}
UINT_ATTRS = {
    "AdaptationSet": _COMMON | {"id", "group", "minBandwidth", "maxBandwidth", "minWidth", "maxWidth",
                                "minHeight", "maxHeight", "subsegmentStartsWithSAP"},
    "Representation": _COMMON | {"bandwidth", "qualityRanking"},
    "SubRepresentation": _COMMON | {"level", "bandwidth"},
    "ContentComponent": {"id"},
    "SegmentBase": _SEGBASE,
    "SegmentTemplate": _MULTI,
    "SegmentList": _MULTI,
    "S": {"t", "d", "n", "k"},
    "EventStream": {"timescale", "presentationTimeOffset"},
    "InbandEventStream": {"timescale", "presentationTimeOffset"},
    "Event": {"presentationTime", "duration", "id"},
    "Period": set(),
    "MPD": set(),
}
# UIntVectorType (whitespace separated unsigned integers)
UINT_VECTOR_ATTRS = {"AdaptationSet": {"audioSamplingRate"}, "Representation": {"audioSamplingRate"}}
# any element of the MPD namespace carrying @timescale has an unsigned integer there
UINT_ANY_ELEMENT = {"timescale"}
# xs:integer with a lower bound
INT_MIN_ATTRS = {"S": {"r": -1}}
TEMPLATE_ATTRS = {"media", "initialization", "index", "bitstreamSwitching"}
TEMPLATE_IDS = {"RepresentationID", "Number", "Time", "Bandwidth", ""}
_FMT = re.compile(r"^%0\d+d$")


def local(el) -> str:
    return etree.QName(el).localname if isinstance(el.tag, str) else "#other"


def ns(el) -> str | None:
    return etree.QName(el).namespace if isinstance(el.tag, str) else None


def parse(body: bytes):
    """R1: strict parse; returns (root, None) or (None, message)"""
    parser = etree.XMLParser(recover=False, resolve_entities=False, no_network=True, load_dtd=False,
                             huge_tree=True, remove_blank_text=False)
    try:
        root = etree.fromstring(body, parser)
    except etree.XMLSyntaxError as e:
        return None, str(e)[:200]
    return root, None


def skeleton(el):
    """(qualified name, sorted attribute names, [children…]) – no values, no text"""
    if not isinstance(el.tag, str):
        return ("#" + type(el).__name__,)
    return (el.tag, tuple(sorted(el.attrib.keys())), tuple(skeleton(c) for c in el))


def skeleton_size(sk) -> int:
    return 1 + sum(skeleton_size(c) for c in (sk[2] if len(sk) > 2 else ()))


def path_of(el) -> str:
    parts = []
    while el is not None:
        parent = el.getparent()
        name = local(el)
        if parent is not None:
            same = [c for c in parent if isinstance(c.tag, str) and c.tag == el.tag]
            if len(same) > 1:
                name += f"[{same.index(el) + 1}]"
        parts.append(name)
        el = parent
    return "/" + "/".join(reversed(parts))


def template_identifiers(value: str):
    """→ (list of (identifier, format|None), error|None)"""
    out = []
    i = 0
    while True:
        a = value.find("$", i)
        if a < 0:
            return out, None
        b = value.find("$", a + 1)
        if b < 0:
            return out, "unterminated $ in template"
        inner = value[a + 1:b]
        name, fmt = inner, None
        if "%" in inner:
            name, _, f = inner.partition("%")
            fmt = "%" + f
        out.append((name, fmt))
        i = b + 1


def _where(el, attr, val):
    return {"path": path_of(el), "attribute": attr, "value": val[:80]}


def datetime_ok(val: str) -> bool:
    """xs:dateTime lexical space (XML Schema part 2, 3.2.7): non-negative four-digit-or-more year,
    fields in range, optional time zone Z or +-hh:mm of at most 14:00"""
    m = _DT.match(val)
    if not m:
        return False
    y, mo, d, h, mi, s = (int(m.group(i)) for i in range(1, 7))
    if not (y >= 1 and 1 <= mo <= 12 and 1 <= d <= 31 and (h < 24 or (h == 24 and mi == 0 and s == 0))
            and mi < 60 and s < 60):
        return False
    tz = m.group(8)
    if tz and tz != "Z":
        th, tm = int(tz[1:3]), int(tz[4:6])
        if not ((th < 14 and tm < 60) or (th == 14 and tm == 0)):
            return False
    return True


def check_lexical(root, fails: list):
    for el in root.iter():
        if not isinstance(el.tag, str) or ns(el) not in (MPD_NS, PATCH_NS):
            continue
        name = local(el)
        for attr, val in el.attrib.items():
            if attr.startswith("{"):
                continue
            if attr in DURATION_ATTRS.get(name, ()):
                if not _DUR.match(val):
                    fails.append({"rule": "R4-duration", "what": "xs:duration attribute not lexically valid / negative", **_where(el, attr, val)})
            elif attr in DATETIME_ATTRS.get(name, ()):
                if not datetime_ok(val):
                    fails.append({"rule": "R4-dateTime", "what": "xs:dateTime attribute not lexically valid", **_where(el, attr, val)})
            elif attr in UINT_ATTRS.get(name, ()) or attr in UINT_ANY_ELEMENT:
                if not _UINT.match(val):
                    fails.append({"rule": "R4-uint", "what": "unsigned-integer attribute not lexically valid / negative", **_where(el, attr, val)})
            elif attr in UINT_VECTOR_ATTRS.get(name, ()):
                parts = val.split()
                if not parts or not all(_UINT.match(p) for p in parts):
                    fails.append({"rule": "R4-uint", "what": "unsigned-integer vector attribute not lexically valid", **_where(el, attr, val)})
            elif attr in INT_MIN_ATTRS.get(name, {}):
                if not _INT.match(val) or int(val) < INT_MIN_ATTRS[name][attr]:
                    fails.append({"rule": "R4-int", "what": "integer attribute not lexically valid / below its minimum", **_where(el, attr, val)})


def check_mpd(root, fails: list):
    q = "{%s}" % MPD_NS
    g = root.get
    for a in ("profiles", "minBufferTime"):
        if g(a) is None:
            fails.append({"rule": "R3-required", "what": f"MPD@{a} missing", "attribute": a})
    mtype = g("type", "static")
    if mtype not in ("static", "dynamic"):
        fails.append({"rule": "R3-required", "what": "MPD@type is neither static nor dynamic", "value": mtype})
    periods = root.findall(q + "Period")
    if not periods:
        fails.append({"rule": "R3-required", "what": "MPD has no Period"})
    if mtype == "dynamic":
        for a in ("availabilityStartTime", "publishTime"):
            if g(a) is None:
                fails.append({"rule": "R3-required", "what": f"dynamic MPD without @{a}", "attribute": a})
    if mtype == "static" and g("mediaPresentationDuration") is None and \
            not all(p.get("duration") is not None for p in periods):
        fails.append({"rule": "R3-required", "attribute": "mediaPresentationDuration", "type": mtype,
                      "what": "static MPD with neither mediaPresentationDuration nor a duration on every Period"})
    # R5 / R6
    seen = {}
    for p in periods:
        pid = p.get("id")
        if pid is not None:
            if pid in seen:
                fails.append({"rule": "R5-unique-id", "what": "duplicate Period@id", "id": pid[:80]})
            seen[pid] = 1
        aset_ids, rep_ids = {}, {}
        for ad in p.findall(q + "AdaptationSet"):
            aid = ad.get("id")
            if aid is not None:
                if aid in aset_ids:
                    fails.append({"rule": "R5-unique-id", "what": "duplicate AdaptationSet@id in a Period",
                                  "id": aid[:80], "period": (pid or "")[:80]})
                aset_ids[aid] = 1
            reps = ad.findall(q + "Representation")
            if not reps:
                fails.append({"rule": "R6-empty-adaptation-set", "what": "AdaptationSet without Representation",
                              "path": path_of(ad)})
            for r in reps:
                rid = r.get("id")
                if rid is None:
                    fails.append({"rule": "R3-required", "what": "Representation without @id", "path": path_of(r)})
                    continue
                if rid in rep_ids:
                    fails.append({"rule": "R5-unique-id", "what": "duplicate Representation@id in a Period",
                                  "id": rid[:80], "period": (pid or "")[:80]})
                rep_ids[rid] = 1
                if r.get("bandwidth") is None:
                    fails.append({"rule": "R3-required", "what": "Representation without @bandwidth", "id": rid[:80]})
    # R7
    for st in root.iter(q + "SegmentTemplate"):
        for a in TEMPLATE_ATTRS:
            v = st.get(a)
            if v is None:
                continue
            ids, err = template_identifiers(v)
            if err:
                fails.append({"rule": "R7-template", "what": err, "attribute": a, "value": v[:120]})
                continue
            for name, fmt in ids:
                if name not in TEMPLATE_IDS or (fmt is not None and (name in ("RepresentationID", "") or not _FMT.match(fmt))):
                    fails.append({"rule": "R7-template", "what": "URL template uses an identifier outside "
                                  "$RepresentationID$ $Number$ $Time$ $Bandwidth$ $$",
                                  "attribute": a, "identifier": f"${name}{fmt or ''}$", "value": v[:120]})


def check_patch(root, fails: list):
    for a in ("mpdId", "originalPublishTime", "publishTime"):
        if root.get(a) is None:
            fails.append({"rule": "R3-required", "what": f"Patch@{a} missing", "attribute": a})


def check_document(body: bytes):
    """→ (root | None, failures)"""
    root, err = parse(body)
    if root is None:
        return None, [{"rule": "R1-well-formed", "what": "response is not well-formed XML", "parser": err}]
    fails: list = []
    name, nsp = local(root), ns(root)
    if name == "MPD" and nsp == MPD_NS:
        check_mpd(root, fails)
    elif name == "Patch" and nsp == PATCH_NS:
        check_patch(root, fails)
    else:
        fails.append({"rule": "R3-required", "what": "root element is neither MPD nor Patch", "root": str(root.tag)[:100]})
    check_lexical(root, fails)
    return root, fails


def values_of(root):
    """every (path, kind, value): kind 'text' | '@attr' – where strings can legitimately live"""
    out = []
    for el in root.iter():
        if not isinstance(el.tag, str):
            continue
        p = path_of(el)
        for a, v in el.attrib.items():
            out.append((p, "@" + a, v))
        if el.text:
            out.append((p, "text", el.text))
        if el.tail:
            out.append((p, "tail", el.tail))
    return out
