"""Run-time cross-check of the AST-generated route table (gen_routes.build())
against the booted application: `app.url_map`, `view_class`, and the wrapper
functions Flask and Python actually built (walked through `__wrapped__`, kind
read from the wrapper's code object, arguments from its closure cells).

A handler, decorator, argument or ordering the AST scan got wrong – or a route
it never saw – comes out as a discrepancy (reported as a correspondence
disagreement by props/c15.py).
"""
from __future__ import annotations

HTTP = ["GET", "HEAD", "POST", "PUT", "DELETE", "PATCH"]
# Flask's built-in static file endpoint is not in routes.py; it serves files from
# the static folder with send_from_directory and is not a handler of this code base
IGNORED_ENDPOINTS = {"static"}

LOADER_FUNCS = {"uses_stream": "stream", "uses_media_file": "mediafile", "uses_keypair": "key",
                "uses_multi_period_stream": "mps", "uses_manifest": "manifest",
                "modifies_user_model": "user"}


def _cells(fn) -> dict:
    code = fn.__code__
    out = {}
    for name, cell in zip(code.co_freevars, fn.__closure__ or ()):
        try:
            out[name] = cell.cell_contents
        except ValueError:
            out[name] = None
    return out


def _perm(p) -> str:
    if p is None:
        return "none"
    return getattr(p, "name", str(p)).lower()


def describe(fn) -> dict:
    """guard a wrapper function implements, from its code object and closure"""
    q = fn.__code__.co_qualname
    mod = fn.__code__.co_filename
    cells = _cells(fn)
    head = q.split(".<locals>")[0]
    if head == "login_required" and mod.endswith("decorators.py"):
        return {"g": "login", "html": bool(cells.get("html")), "admin": bool(cells.get("admin")),
                "perm": _perm(cells.get("permission"))}
    if head == "jwt_login_required" and mod.endswith("decorators.py"):
        return {"g": "jwtlogin", "admin": bool(cells.get("admin")), "perm": _perm(cells.get("permission"))}
    if head == "csrf_token_required" and mod.endswith("decorators.py"):
        nxt = cells.get("next_url")
        return {"g": "csrfdec", "service": cells.get("service"),
                "next": getattr(nxt, "__name__", "") != "<lambda>",
                "optional": bool(cells.get("optional"))}
    if head == "jwt_required" and "flask_jwt_extended" in mod:
        return {"g": "jwt", "optional": bool(cells.get("optional")), "refresh": bool(cells.get("refresh"))}
    if head in LOADER_FUNCS and mod.endswith("decorators.py"):
        return {"g": "loader", "what": LOADER_FUNCS[head]}
    if head == "spa_handler" and mod.endswith("decorators.py"):
        return {"g": "spa"}
    if head == "login_required" and "flask_login" in mod:
        return {"g": "login", "html": False, "admin": False, "perm": "none"}
    return {"g": "other", "name": head}


def chain_of(fn) -> tuple[list[dict], object]:
    """wrappers from outermost to innermost, and the innermost function"""
    out = []
    while hasattr(fn, "__wrapped__"):
        out.append(describe(fn))
        fn = fn.__wrapped__
    return out, fn


def _norm(g: dict) -> dict:
    g = dict(g)
    if g.get("g") == "other":
        g.pop("name", None)
    return g


def crosscheck(app, table: dict) -> tuple[int, list[dict]]:
    rows = table["rows"]
    by_ep: dict[str, dict[str, dict]] = {}
    for r in rows:
        by_ep.setdefault(r["route"], {})[r["method"]] = r
    problems: list[dict] = []
    checked = 0
    seen = set()
    for rule in app.url_map.iter_rules():
        ep = rule.endpoint
        if ep in IGNORED_ENDPOINTS:
            continue
        seen.add(ep)
        verbs = sorted(set(rule.methods) & set(HTTP))
        trows = by_ep.get(ep)
        if trows is None:
            problems.append({"what": "route missing from the generated table", "endpoint": ep, "rule": rule.rule})
            continue
        if sorted(trows) != verbs:
            problems.append({"what": "HTTP methods differ", "endpoint": ep, "app": verbs, "table": sorted(trows)})
        vf = app.view_functions[ep]
        vc = getattr(vf, "view_class", None)
        class_chain, _ = chain_of(vf)
        for verb in verbs:
            row = trows.get(verb)
            if row is None:
                continue
            checked += 1
            if row["url"] != rule.rule:
                problems.append({"what": "URL template differs", "endpoint": ep, "app": rule.rule, "table": row["url"]})
            if vc is None:
                handler = f"{vf.__module__.rsplit('.', 1)[1]}.{vf.__name__}"
                meth_chain, inner = [], vf
                while hasattr(inner, "__wrapped__"):
                    inner = inner.__wrapped__
                class_part = []
                meth_chain, _ = chain_of(vf)
            else:
                handler = f"{vc.__module__.rsplit('.', 1)[1]}.{vc.__name__}"
                fn = getattr(vc, verb.lower(), None)
                if fn is None and verb == "HEAD":
                    fn = getattr(vc, "get", None)
                if fn is None:
                    problems.append({"what": "view class has no method for verb", "endpoint": ep, "verb": verb})
                    continue
                meth_chain, inner = chain_of(fn)
                class_part = class_chain
                if len(vc.decorators) != len(row["classDecorators"]):
                    problems.append({"what": "number of class decorators differs", "endpoint": ep,
                                     "app": len(vc.decorators), "table": len(row["classDecorators"])})
            if handler != row["handler"]:
                problems.append({"what": "handler differs", "endpoint": ep, "app": handler, "table": row["handler"]})
            impl = f"{inner.__module__.rsplit('.', 1)[1]}.{inner.__qualname__}"
            if impl != row["impl"]:
                problems.append({"what": "method resolved to another class", "endpoint": ep, "verb": verb,
                                 "app": impl, "table": row["impl"]})
            want = [_norm(g) for g in list(reversed(row["classDecorators"])) + row["methodDecorators"]]
            got = [_norm(g) for g in class_part + meth_chain]
            if want != got:
                problems.append({"what": "decorator chain (execution order) differs", "endpoint": ep, "verb": verb,
                                 "app": got, "table": want})
    for ep in by_ep:
        if ep not in seen:
            problems.append({"what": "table row for an endpoint the application does not register", "endpoint": ep})
    return checked, problems
