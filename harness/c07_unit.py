"""C07 unit-level channels: `optcodec` (every registered option's from_string /
to_string vs the Lean model, plus the Layer-C round-trip oracle) and
`optforward` (OptionsContainer.generate_cgi_parameters and dict_to_cgi_params vs
the model)."""
from __future__ import annotations

import common
import c07_lib as L
from common import Channel


# ------------------------------------------------------------------ oracle helpers (property text)
def canon_for_compare(kbase: str, v):
    """what "the identical option value" means: Python equality, except that a
    DRM selection is a set of (system, set of locations) – the order in which the
    systems were written is not part of the value"""
    if kbase == "drmSelection" and isinstance(v, list):
        try:
            return ("drm", frozenset((n, frozenset(getattr(x, "value", x) for x in locs)) for n, locs in v))
        except Exception:
            return ("drm?", repr(v))
    return v


def same_value(kbase: str, a, b) -> bool:
    ca, cb = canon_for_compare(kbase, a), canon_for_compare(kbase, b)
    if isinstance(ca, bool) != isinstance(cb, bool):
        return False            # True == 1 in Python; a flag is not a number here
    try:
        return bool(ca == cb)
    except Exception:
        return False


def url_text(t) -> str:
    """the text a parameter gets in a query string (None → empty parameter)"""
    return "" if t is None else str(t)


def roundtrip_failure(opt, row, v):
    """Layer C, unit level: formatting a value to its URL text and parsing that
    text is the identity.  Returns a failure dict or None."""
    try:
        text = url_text(opt.to_string(v))
    except Exception as e:
        return {"what": f"to_string raised {type(e).__name__}: {e}"}
    try:
        back = opt.from_string(text)
    except Exception as e:
        return {"what": f"from_string(to_string(v)) raised {type(e).__name__}: {e}", "text": text}
    if not same_value(row["kbase"], v, back):
        return {"what": "from_string(to_string(v)) != v", "text": text, "back": L.enc_val(row["kbase"], back)}
    return None


# ------------------------------------------------------------------ optcodec
def all_drm_selections():
    """the finite sub-domain, exhaustively: each of the three systems absent or present with one of the
    seven non-empty location subsets (8^3 = 512 selections)"""
    import itertools
    from dashlive.drm.location import DrmLocation
    locs = list(DrmLocation.all())
    subsets = [None] + [set(c) for n in (1, 2, 3) for c in itertools.combinations(locs, n)]
    out = []
    for combo in itertools.product(subsets, repeat=3):
        out.append([(name, s) for name, s in zip(("clearkey", "marlin", "playready"), combo) if s is not None])
    return out


def run_optcodec(ctx, ch: Channel, only: set | None = None):
    rows, opts, _ = L.registry()
    rng = ctx.rng("optcodec")
    n_from = ctx.scale(40, 200)
    n_to = ctx.scale(50, 600)
    lines, meta = [], []
    for i, (row, opt) in enumerate(zip(rows, opts)):
        if only is not None and row["cgi"] not in only:
            continue
        kspec, kbase = row["kspec"], row["kbase"]
        texts = L.texts_for(kbase, rng, 10 ** 6)      # the whole pool, every run
        # the text of canonical values as well (valid inputs)
        for _ in range(max(4, n_from // 3)):
            texts.append(L.cgi_text_of(kspec, L.gen_value(kspec, rng)))
        texts.append(row["dflt"])
        for ch_val in (row["choices"] or []):
            texts.append("none" if ch_val is None else ch_val)
        for t in texts:
            lines.append(f"optfrom {kspec} {L.hx(t)}")
            meta.append(("from", i, t))
        values = L.fixed_values(kspec) + [L.gen_value(kspec, rng) for _ in range(n_to)]
        texts += [L.cgi_text_of(kspec, v) for v in L.fixed_values(kspec)]
        if kbase == "drmSelection":
            values += all_drm_selections()      # every subset of systems x every non-empty location subset
        for v in values:
            spec = L.spec_of_value(kspec, v)
            if spec.startswith("?"):
                ch.errors.append(f"generator produced an unencodable value for {row['cgi']}: {spec}")
                continue
            lines.append(f"optto {kspec} {spec}")
            meta.append(("to", i, v))
    try:
        model = common.run_driver(lines)
    except Exception as e:
        ch.errors.append(f"driver: {e}")
        model = ["driver-error"] * len(lines)
    for (what, i, x), mo in zip(meta, model):
        row, opt = rows[i], opts[i]
        ch.evaluations += 1
        ch.count(f"opt:{row['cgi']}")
        ch.count(f"kind:{row['kbase']}:{what}")
        if what == "from":
            try:
                impl = L.enc_val(row["kbase"], opt.from_string(x))
            except Exception as e:
                impl = L.exc_name(e)
            ch.count("from:error" if impl.startswith("!") else "from:value")
            if x not in ("", "none") and not x.isalnum():
                ch.nontrivial.add(("from", row["kspec"], x))
            case = {"option": row["cgi"], "kind": row["kspec"], "op": "from_string", "text": x}
        else:
            try:
                impl = L.enc_text(opt.to_string(x))
            except Exception as e:
                impl = L.exc_name(e)
            spec = L.spec_of_value(row["kspec"], x)
            if spec not in ("N", "B0", "B1", "L", "D", "E"):
                ch.nontrivial.add(("to", row["kspec"], spec))
            case = {"option": row["cgi"], "kind": row["kspec"], "op": "to_string", "value": spec}
            fail = roundtrip_failure(opt, row, x)
            if fail:
                ch.oracle_failures.append({**case, "unit": row["cgi"], **fail})
        if mo != "driver-error" and mo != impl:
            ch.disagreements.append({**case, "model": mo, "impl": impl})
        ch.sample({**case, "result": impl}, limit=4)


# ------------------------------------------------------------------ optforward
def container_spec(rows, cont) -> str:
    """`i@valspec;…` of the fields present in an OptionsContainer"""
    items = []
    for i, r in enumerate(rows):
        try:
            if r["pfx"]:
                if r["pfx"] not in cont._fields:
                    continue
                sub = getattr(cont, r["pfx"])
                if r["full"] not in sub._fields:
                    continue
                v = getattr(sub, r["full"])
            else:
                if r["full"] not in cont._fields:
                    continue
                v = getattr(cont, r["full"])
        except AttributeError:
            continue
        items.append(f"{i}@{L.enc_val(r['kbase'], v)}")
    return ";".join(items) or "-"


def params_spec(rows, params: dict) -> str:
    """canonical text of a generate_cgi_parameters result, in table order"""
    order = {r["cgi"]: i for i, r in enumerate(rows)}
    items = sorted(params.items(), key=lambda kv: order.get(kv[0], 10 ** 6))
    return ";".join(f"{k}={L.enc_text(v)}" for k, v in items) or "-"


def gen_request(rng, rows, media_bias=True, max_opts=10):
    """a random subset of options with canonical non-default-ish values: {cgi: (row index, value)}"""
    k = rng.choice([0, 1, 2, 3, 4, 6, max_opts])
    cand = list(range(len(rows)))
    if media_bias:
        cand = [i for i in cand if rows[i]["usage"] & 14] * 3 + cand
    chosen = {}
    for _ in range(k):
        i = rng.choice(cand)
        r = rows[i]
        if r["cgi"] == "mode":
            continue
        chosen[r["cgi"]] = (i, L.gen_value(r["kspec"], rng))
    return chosen


def run_optforward(ctx, ch: Channel):
    from dashlive.server.options.repository import OptionsRepository
    from dashlive.server.options.types import OptionUsage
    from dashlive.utils.objects import dict_to_cgi_params
    rows, opts, _ = L.registry()
    rng = ctx.rng("optforward")
    n = ctx.scale(1500, 20000)
    lines, meta = [], []
    glob = OptionsRepository.get_default_options()
    fixed_reqs = []
    for i, r in enumerate(rows):
        if r["cgi"] == "mode":
            continue
        for v in L.fixed_values(r["kspec"])[: (10 ** 6 if ctx.thorough else 14)]:
            fixed_reqs.append({r["cgi"]: (i, v)})
    for it in range(len(fixed_reqs) + n):
        req = fixed_reqs[it] if it < len(fixed_reqs) else gen_request(rng, rows)
        params = {cgi: L.cgi_text_of(rows[i]["kspec"], v) for cgi, (i, v) in req.items()}
        defaults = glob
        if rng.random() < .3:        # a stream with its own defaults (values of the right type)
            sd = {}
            for _ in range(rng.randrange(1, 4)):
                i = rng.randrange(len(rows))
                r = rows[i]
                if r["kbase"] in ("drmSelection",) or r["cgi"] == "mode":
                    continue
                v = L.gen_value(r["kspec"], rng)
                if r["pfx"]:
                    sd.setdefault(r["pfx"], {})[r["full"]] = v
                else:
                    sd[r["full"]] = v
            defaults = glob.clone(**sd)
        try:
            cont = OptionsRepository.convert_cgi_options(params, defaults=defaults)
        except Exception as e:
            ch.errors.append(f"convert_cgi_options rejected generated parameters {params}: {type(e).__name__}: {e}")
            continue
        mode = rng.choice(["live", "vod", "odvod"])
        if rng.random() < .5:
            cont.add_field("mode", mode)
            cont.remove_unused_parameters(mode)
        use = rng.choice([None, OptionUsage.VIDEO, OptionUsage.AUDIO, OptionUsage.TEXT, OptionUsage.TIME,
                          OptionUsage.MANIFEST, OptionUsage.VIDEO | OptionUsage.AUDIO])
        exclude = rng.choice([None, {"encrypted", "mode"}, {"encrypted", "mode", "timeline", "patch"},
                              {"leeway", "playready.version"}])
        rd = rng.random() < .85
        try:
            real = cont.generate_cgi_parameters(use=use, exclude=exclude, remove_defaults=rd)
            impl = params_spec(rows, real)
            q_impl = L.hx(dict_to_cgi_params(real))
        except Exception as e:
            impl = q_impl = L.exc_name(e)
            real = {}
        ex = sorted(exclude if exclude is not None else {"encrypted", "mode"})
        lines.append(f"optgen {int(use) if use is not None else '-'} {','.join(ex) or '-'} {1 if rd else 0} "
                     f"{container_spec(rows, defaults)} {container_spec(rows, cont)}")
        meta.append(("gen", impl, {"params": params, "use": str(use), "exclude": ex, "remove_defaults": rd,
                                   "mode_removed": mode}, real))
        lines.append(f"optquery {impl if not impl.startswith('!') else '-'}")
        meta.append(("query", q_impl, {"params": impl}, real))
        # the query string as the server parses it
        with _app().app.test_request_context("/x" + dict_to_cgi_params(real)):
            import flask
            got = {k: v for k, v in flask.request.args.items()}
        lines.append(f"optparse {L.hx(dict_to_cgi_params(real)[1:])}")
        meta.append(("parse", ";".join(f"{L.hx(k)}={L.hx(v)}" for k, v in got.items()) or "-",
                     {"query": dict_to_cgi_params(real)}, real))
    try:
        model = common.run_driver(lines)
    except Exception as e:
        ch.errors.append(f"driver: {e}")
        model = ["driver-error"] * len(lines)
    for (what, impl, case, real), mo in zip(meta, model):
        ch.evaluations += 1
        ch.count(f"{what}:params={min(len(real), 8)}{'+' if len(real) >= 8 else ''}")
        for k in real:
            ch.count(f"opt:{k}")
        if what == "parse":
            mo = ";".join(sorted(mo.split(";"))) if mo != "-" else mo
            impl = ";".join(sorted(impl.split(";"))) if impl != "-" else impl
        if real:
            ch.nontrivial.add((what, impl))
        if mo != "driver-error" and mo != impl:
            ch.disagreements.append({"op": what, **case, "model": mo, "impl": impl})
        ch.sample({"op": what, **case, "result": impl[:200]}, limit=3)


_APP = None


def _app():
    global _APP
    if _APP is None:
        import appboot
        _APP = appboot.get_app(("bbb",))
    return _APP


# ------------------------------------------------------------------ optfilter
def server_defaults(stored):
    """the defaults calculate_options works with for a stream whose stored defaults are `stored`
    (base.py:96-100) – what both the manifest and the media handler start from"""
    from dashlive.server.options.repository import OptionsRepository
    glob = OptionsRepository.get_default_options()
    if stored is None:
        return glob
    parse = getattr(OptionsRepository, "parse_stored_options", None)
    return glob.clone(**(parse(stored) if parse else stored))


class _Stream:
    """what calculate_options reads of a Stream: its defaults"""
    def __init__(self, defaults):
        self.defaults = defaults


HOSTILE_ARGS = [
    {"drm": "foo"}, {"drm": "playready,foo-pro"}, {"time": "bogus"}, {"time": "ntp"}, {"start": "12:30:45Z"},
    {"start": "2024-01-01T00:00:00"}, {"start": "2024-03-07T08:09:10.250000"}, {"start": ""},
    {"verr": "503="}, {"aerr": "404=5,410="}, {"vcorrupt": "abc"}, {"vcorrupt": "12,07:00:00Z"},
    {"vcorrupt": "2024-01-01T00:00:00Z"}, {"events": "ping", "ping__count": "20000"},
    {"events": "ping", "ping__count": "10000"}, {"events": "scte35", "scte35__timescale": "0"},
    {"events": "ping", "ping__duration": "-1"}, {"events": "ping,scte35", "scte35__version": "2"},
    {"ping__version": "7"}, {"events": "foo", "ping__count": "99999"}, {"leeway": "3162240001"},
    {"leeway": "-3162240001"}, {"leeway": "3162240000"}, {"depth": "99999999999"}, {"depth": "5000000"}, {"depth": "5000001"}, {"depth": "-5000001"},
    {"depth": "40000000", "timeline": "1", "start": "epoch"}, {"mup": "-99999999999"},
    {"drift": "99999999999"}, {"patch": "1"}, {"patch": "1", "timeline": "0"}, {"timeline": "0"}, {"timeline": "1"},
    {"acodec": "ec-3"}, {"acodec": "mp4"}, {"acodec": "4a"}, {"acodec": "x"}, {"acodec": ""}, {"drm": "playready"},
    {"drm": "none"}, {"drm": "all"}, {"mode": "live"}, {"mode": "odvod"}, {"mode": "bogus"}, {"time": "direct"},
    {"abr": "0", "base": "0", "mup": "8", "events": "ping", "acodec": "any", "time": "xsd", "drm": "marlin-cenc"},
    {"merr": "404=", "update": "3"}, {"terr": "404=07:00:00Z"},
    {"events": "ping", "ping__start": "-5", "ping__inband": "0"}, {"events": "ping", "ping__start": "-5", "ping__inband": "1"},
    {"events": "scte35", "scte35__start": "-1"}, {"events": "ping", "ping__start": "-5"},
    {"verr": "503=2024-01-01T00:00:00+24:00"}, {"vcorrupt": "2024-01-01T00:00:00-25:00"},
    {"start": "2024-01-01T00:00:00+24:00"}, {"aerr": "404=2024-01-01T00:00:00+23:59"},
]


def gen_stream_defaults(rng, rows):
    sd = {}
    for _ in range(rng.choice([1, 2, 4])):
        r = rows[rng.randrange(len(rows))]
        if r["kbase"] == "drmSelection" or r["cgi"] in ("mode", "start"):
            continue
        v = L.gen_value(r["kspec"], rng)
        if r["kbase"] == "errorList":
            v = [(c, p) for c, p in v if p is not None]
        if r["pfx"] in ("ping", "scte35") and r["cgi"].endswith(("__count", "__timescale", "__duration", "__version")):
            v = 1
        if r["kbase"] == "intOrNone" and v is not None:
            v = v % 100000
        if r["pfx"]:
            sd.setdefault(r["pfx"], {})[r["full"]] = v
        else:
            sd[r["full"]] = v
    return sd


def serve_manifest_options(mft, mode, args, stream):
    """the option handling of ServeManifest.get between the request and ManifestContext
    (manifest_requests.py:132-153), with the handler's own calculate_options; returns the
    OptionsContainer or the refusal"""
    from dashlive.server.requesthandler.manifest_requests import ServeManifest
    try:
        options = ServeManifest().calculate_options(
            mode=mode, args=args, stream=stream, restrictions=mft.restrictions, features=mft.features)
    except ValueError:
        return "!invalidOptions"
    if mode != 'live':
        options.update(patch=False)
    if options.patch and 'segmentTimeline' not in mft.features:
        return "!patchNeedsTimeline"
    if 'segmentTimeline' not in mft.features:
        options.update(segmentTimeline=False)
    elif mft.segment_timeline or options.patch:
        options.update(segmentTimeline=True)
    options.remove_unused_parameters(mode)
    return options


def run_optfilter(ctx, ch: Channel):
    from dashlive.server import manifests as mfts
    from dashlive.server.options.repository import OptionsRepository
    from dashlive.server.requesthandler.media_requests import LiveMedia
    rows, opts, _ = L.registry()
    rng = ctx.rng("optfilter")
    n = ctx.scale(1200, 15000)
    glob = OptionsRepository.get_default_options()
    keys = list(mfts.manifest_map.keys())
    crosscheck_manifest_table(ch)
    lines, meta = [], []
    cases = []
    for key in keys:                        # every hostile argument set on every template
        for a in HOSTILE_ARGS:
            cases.append((key, a, None))
    for _ in range(n):
        key = rng.choice(keys)
        if rng.random() < .35:
            args = dict(rng.choice(HOSTILE_ARGS))
        else:
            args = {}
        req = gen_request(rng, rows, max_opts=8)
        for cgi, (i, v) in req.items():
            if cgi not in args:
                args[cgi] = L.cgi_text_of(rows[i]["kspec"], v)
        sd = gen_stream_defaults(rng, rows) if rng.random() < .3 else None
        cases.append((key, args, sd))
    for key, args, sd in cases:
        mft = mfts.manifest_map[key]
        mode = rng.choice(["live", "vod", "odvod"])
        stream = _Stream(sd)
        defaults = server_defaults(sd)
        dspec = container_spec(rows, defaults)
        aspec = ";".join(f"{L.hx(k)}={L.hx(v)}" for k, v in args.items()) or "-"
        case = {"manifest": key, "mode": mode, "args": args, "stream_defaults": repr(sd) if sd else None}
        try:
            real = serve_manifest_options(mft, mode, args, stream)
            impl = real if isinstance(real, str) else container_spec(rows, real)
        except Exception as e:
            impl = L.exc_name(e)
        lines.append(f"optserve {key} {L.hx(mode)} {dspec} {aspec}")
        meta.append(("serve", impl, case))
        try:
            m = LiveMedia().calculate_options(mode, args, stream)
            impl2 = container_spec(rows, m)
        except ValueError:
            impl2 = "!valueError"
        except Exception as e:
            impl2 = L.exc_name(e)
        lines.append(f"optcalc {L.hx(mode)} {dspec} {aspec}")
        meta.append(("calc", impl2, case))
    try:
        model = common.run_driver(lines)
    except Exception as e:
        ch.errors.append(f"driver: {e}")
        model = ["driver-error"] * len(lines)
    for (what, impl, case), mo in zip(meta, model):
        ch.evaluations += 1
        ch.count(f"{what}:{case['manifest']}")
        ch.count(f"{what}:result:" + (impl if impl.startswith("!") else "options"))
        for k in case["args"]:
            ch.count(f"opt:{k}")
        if case["args"]:
            ch.nontrivial.add((what, case["manifest"], case["mode"], tuple(sorted(case["args"].items())),
                               case["stream_defaults"]))
        if mo != "driver-error" and mo != impl:
            ch.disagreements.append({"op": what, **case, "model": mo[:1200], "impl": impl[:1200]})
        ch.sample({"op": what, **case, "result": impl[:160]}, limit=3)


def crosscheck_manifest_table(ch: Channel):
    """Gen/Manifests.lean against the live manifest_map"""
    import gen_manifests
    ch.evaluations += 1
    src = gen_manifests.render(gen_manifests.dump())
    on_disk = gen_manifests.OUT.read_text() if gen_manifests.OUT.exists() else ""
    if src != on_disk:
        ch.disagreements.append({"op": "table", "what": "Gen/Manifests.lean differs from the live manifest_map"})
