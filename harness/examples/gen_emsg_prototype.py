import ast, sys
sys.path.insert(0,'/verif/harness')
from pytolean import *
tree=ast.parse(open('/repo/dashlive/server/events/repeating_event_base.py').read())
cls=next(n for n in tree.body if isinstance(n, ast.ClassDef))
fn=next(m for m in cls.body if isinstance(m, ast.FunctionDef) and m.name=='create_emsg_boxes')
classes={"EventMessageBox": DataClass.manual("EventMessageBox",[("version",INT,"(0 : Int)"),("flags",INT,"(0 : Int)"),("timescale",INT,"(0 : Int)"),("event_duration",INT,"(0 : Int)"),("event_id",INT,"(0 : Int)"),("presentation_time_delta",OPT,"none"),("presentation_time",OPT,"none")])}
attrs={("self",a):a for a in ("interval","timescale","start","count","version","duration")}
attrs[("self","timescale")]="ev_timescale"
attrs[("self","MAX_EVENTS_PER_SEGMENT")]="max_events"
attrs[("self","inband")]=("True",PROP)
attrs[("representation","timescale")]="rep_timescale"
tr=Translator(classes,attrs,"createEmsgBoxes","EventMessageBox")
tr.ext_calls={"moof.traf.tfdt.base_media_decode_time":("tfdt",INT),"representation.segments[mod_segment].duration":("seg_duration",INT)}
tr.opaque_calls={"self.get_emsg_event_payload"}
c=Ctx()
r=tr.block(c,fn.body)
print("\n".join(tr.loops))
print("\n".join(c.lets))
print("fails",c.fails)
print("early",[(a,b.values) for a,b in c.early])
print("ret",r.values)
print("skipped",tr.skipped)
