#!/venv/bin/python
"""`check.py Cnn [--tier quick|thorough] [--replay file]` – decide one property.

Flow (DESIGN.md §3): regenerate tables → lake build (proof obligations) → axiom
audit → correspondence channels + Layer-C oracle on the real code → replay the
known-findings ledger → verdict.

exit 0: property held on everything explored (KNOWN-FINDING lines may be printed)
exit 1: `VIOLATION property=<id> replay=<path>[ no-failing-input-found]`
exit 2: the harness itself could not run (timeout, crash) – not a verdict
"""
from __future__ import annotations

import sys
sys.dont_write_bytecode = True
import argparse
import importlib
import json
import os
import time
import traceback
from pathlib import Path

HERE = Path(__file__).resolve().parent
VERIF = HERE.parent
for p in (str(VERIF / "shims"), os.environ.get("DASHLIVE_REPO", "/repo"), str(HERE)):
    if p not in sys.path:
        sys.path.insert(0, p)
os.environ.setdefault("DASHLIVE_VERIF", "1")

import logging  # noqa: E402
logging.disable(logging.CRITICAL)   # the code under test logs every refused request
import common  # noqa: E402
from common import log  # noqa: E402


class Ctx:
    def __init__(self, prop: str, tier: str, seed: int):
        self.prop, self.tier, self.seed = prop, tier, seed
        self.thorough = tier == "thorough"

    def rng(self, name: str):
        return common.rng_for(self.seed, name)

    def scale(self, quick: int, thorough: int) -> int:
        return thorough if self.thorough else quick


def main() -> int:
    ap = argparse.ArgumentParser()
    ap.add_argument("prop")
    ap.add_argument("--tier", default=os.environ.get("VERIF_TIER", "quick"),
                    choices=["quick", "thorough"])
    ap.add_argument("--replay")
    ap.add_argument("--skip-proofs", action="store_true", help="debugging aid only")
    a = ap.parse_args()
    prop = a.prop.upper()
    seed = int(os.environ.get("VERIF_SEED", "0") or 0)
    t0 = time.time()
    mod = importlib.import_module(f"props.{prop.lower()}")
    ctx = Ctx(prop, a.tier, seed)
    common.use_property(prop)

    if a.replay:
        payload = json.loads(Path(a.replay).read_text())
        res = mod.replay(ctx, payload)
        log(json.dumps(res, indent=1, default=str))
        return 1 if res.get("fails") else 0

    violations: list[dict] = []
    # 1. translators
    gen_problems: list[str] = []
    proof = None
    with common.lake_lock():
        for g in getattr(mod, "GENERATORS", []):
            try:
                g()
            except Exception as e:  # a translator that cannot follow the source
                gen_problems.append(f"{g.__module__}.{g.__name__}: {type(e).__name__}: {e}")
                traceback.print_exc()
        # 2+3. proofs and audit
        if not a.skip_proofs:
            proof = common.check_proofs(prop, mod.PROP_FILES, mod.LEAN_TARGETS,
                                        leanchecker=ctx.thorough)
            proof.problems = gen_problems + proof.problems
            if gen_problems:
                proof.ok = False
            log(f"[{prop}] proof obligations: {proof.discharged}/{proof.obligations} discharged"
                + ("" if proof.ok else f"; problems: {proof.problems[:5]}"))
    # 4. correspondence + oracle
    channels: list[common.Channel] = []
    harness_errors: list[str] = []
    driver_ok = common.DRIVER.exists()
    if not driver_ok:
        harness_errors.append("driver binary missing (lake build failed?)")
    try:
        for ch in mod.channels(ctx):
            channels.append(ch)
            log(f"[{prop}] channel {ch.name}: {ch.evaluations} cases, "
                f"{len(ch.nontrivial)} distinct non-trivial, "
                f"{len(ch.disagreements)} disagreements, {len(ch.oracle_failures)} oracle failures"
                + (f", errors: {ch.errors[:2]}" if ch.errors else ""))
    except Exception as e:
        traceback.print_exc()
        harness_errors.append(f"channel crashed: {type(e).__name__}: {e}")
    # 5. ledger
    ledger = [f for f in common.load_ledger() if f.get("property") == prop]
    open_findings = [f for f in ledger if f.get("status") == "open"]
    for f in open_findings:
        try:
            still = mod.replay_finding(ctx, f)
        except Exception as e:
            traceback.print_exc()
            still = None
            harness_errors.append(f"ledger replay {f['id']} crashed: {e}")
        if still:
            log(f"KNOWN-FINDING: property={prop} {f['id']}: {f['what']}")
        elif still is False:
            log(f"[{prop}] note: ledger entry {f['id']} no longer reproduces")
    # 6. verdict
    oracle_failures = [(c.name, x) for c in channels for x in c.oracle_failures]
    disagreements = [(c.name, x) for c in channels for x in c.disagreements]
    ch_errors = [(c.name, e) for c in channels for e in c.errors]
    # failures that the ledger lists (by the module's own matching rule) are findings, not alarms
    matcher = getattr(mod, "matches_finding", None)
    unlisted = []
    for name, x in oracle_failures:
        hit = None
        if matcher:
            for f in open_findings:
                if matcher(f, x):
                    hit = f
                    break
        if hit is None:
            unlisted.append((name, x))
    rc = 0
    if unlisted:
        name, x = unlisted[0]
        path = common.write_replay(prop, seed, {
            "property": prop, "kind": "failing-input", "channel": name, "failure": x,
            "all_failures": [y for _, y in unlisted[:20]], "seed": seed, "tier": a.tier})
        log(f"VIOLATION property={prop} replay={path}")
        violations.append(x)
        rc = 1
    elif (proof is not None and not proof.ok) or disagreements or ch_errors:
        # a proof obligation or the correspondence broke: search for a concrete failing input
        broken = []
        if proof is not None and not proof.ok:
            broken += [f"proof: {p}" for p in proof.problems[:10]]
        broken += [f"correspondence {n}: {json.dumps(x, default=str)[:300]}" for n, x in disagreements[:10]]
        broken += [f"channel {n} could not run: {e}" for n, e in ch_errors[:10]]
        found = None
        try:
            found = mod.search(ctx, [x for _, x in disagreements])
        except Exception as e:
            traceback.print_exc()
            broken.append(f"search crashed: {e}")
        if found and matcher and any(matcher(f, found) for f in open_findings):
            found = None
        payload = {"property": prop, "seed": seed, "tier": a.tier, "broken": broken}
        if found:
            payload.update(kind="failing-input", failure=found)
            path = common.write_replay(prop, seed, payload)
            log(f"VIOLATION property={prop} replay={path}")
        else:
            payload.update(kind="no-failing-input-found",
                           note="the named theorem/correspondence no longer checks; the Layer-C "
                                "search found no input on which the real code violates the property")
            path = common.write_replay(prop, seed, payload)
            log(f"VIOLATION property={prop} replay={path} no-failing-input-found")
        violations.append(payload)
        rc = 1
    elif harness_errors:
        log(f"[{prop}] harness errors: {harness_errors}")
        rc = 2
    wall = time.time() - t0
    if a.skip_proofs:
        log(f"[{prop}] --skip-proofs: evidence not written")
        return rc
    common.write_evidence(prop, a.tier, seed, proof, channels, wall, len(violations),
                          getattr(mod, "TRUSTED", []), getattr(mod, "ASSUMPTIONS", []),
                          extra={"known_findings_replayed": [f["id"] for f in open_findings],
                                 "harness_errors": harness_errors})
    log(f"[{prop}] tier={a.tier} seed={seed} wall={wall:.1f}s exit={rc}")
    return rc


if __name__ == "__main__":
    try:
        sys.exit(main())
    except SystemExit:
        raise
    except Exception:
        traceback.print_exc()
        sys.exit(2)
