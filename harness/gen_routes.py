#!/venv/bin/python
"""Translator for C15: dashlive/server/routes.py + requesthandler/*.py  →  lean/DashLive/Gen/Routes.lean

Pure `ast` (nothing of /repo is imported, so the output is a function of the
source text only and byte-stable on an unchanged tree).  One row per
(route name, URL template, handler class, HTTP method):

* `classDecorators`  – the class attribute `decorators = [...]` resolved through
  the MRO, in source order (Flask's `View.as_view` applies them in that order,
  so the *last* one is the outermost wrapper and runs first);
* `methodDecorators` – the decorators of the method that serves the HTTP verb
  (inherited methods resolved through the MRO, HEAD falls back to `get` exactly
  as `MethodView.dispatch_request` does), top-down = outermost first;
* `bodyGuards`       – checks made inside the method body (and the `self.*` /
  module helpers it calls) *before* the first statement that touches persistent
  state: `check_csrf(service)` / `CsrfProtection.check(service)` calls and the
  "only an admin may touch another user's row" test of `EditUser.post`;
* `mutates`          – conservative scan of the method body and every helper it
  can reach: `session.add/delete/merge`, attribute stores on model instances,
  calls of model methods that (transitively, scanned from models/*.py) write the
  session or their own columns, model construction followed by a commit;
* `csrfFirst`        – every in-body CSRF check precedes the first statement that
  touches persistent state (`CsrfProtection.check` itself commits the session,
  so a store made before it is persisted even when the check then fails);
* `kind`             – the role docs/users.md assigns to the state the route
  changes.  HAND-WRITTEN, TRUSTED: `DOC_KIND` below.
* `prunes`           – the method (or a helper it reaches) calls `prune_database`, the
  only code that deletes CSRF replay records.

Also generated: `pruneSites` – every call of `prune_database` anywhere under
dashlive/ with its enclosing function, its `all_csrf` argument and whether it is
the server start (`create_app`).  A new call site shows up as a broken obligation
(`prune_only_at_server_start`, `no_handler_prunes`).

`harness/c15_routes.py` cross-checks the table at run time against
`app.url_map`, `view_class.decorators`, the `__wrapped__` chains and the closure
cells of the real decorators, so a handler this scan misses is reported.
"""
from __future__ import annotations

import ast
import json
import os
import sys
from pathlib import Path

VERIF = Path(__file__).resolve().parent.parent
OUT = VERIF / "lean" / "DashLive" / "Gen" / "Routes.lean"
HTTP_METHODS = ["GET", "HEAD", "POST", "PUT", "DELETE", "PATCH"]

# ---------------------------------------------------------------------------
# TRUSTED, hand-written: docs/users.md → documented role per route.
#   media : "A member of the media group is allowed to create and modify streams"
#           (streams, stream defaults, media files, keys, multi-period streams)
#   admin : "A member of this group can create and edit other users"
#   self  : a user's own account (admin for anybody else's)
# Everything not listed is `none`: no role is documented as allowed to change
# persistent state there, so a mutating row of kind `none` fails the obligation.
DOC_KIND = {
    "media": [
        "add-stream", "view-stream", "delete-stream", "edit-stream-defaults",
        "upload-blob", "media-info", "edit-media", "delete-media", "index-media-file",
        "check-media-changes", "add-key", "edit-key", "delete-key",
        "api-add-mps", "api-edit-mps", "api-validate-mps",
    ],
    "admin": ["api-list-users", "api-edit-user:DELETE"],
    "self": ["api-edit-user:POST"],
}

# TRUSTED, hand-written: writes that are session/login bookkeeping, not state a
# role is documented for (the authz oracle excludes exactly the same things):
#   * the Token table (refresh-token rows, revocation flags, consumed CSRF tokens)
#     – written by every login/logout/CSRF check for any visitor, by design;
#   * User.last_login – timestamp written by a successful login on the own row;
#   * User.check_password – re-hashes the *same* password when passlib deprecates
#     the stored scheme (after a successful verification);
#   * User.get_guest_user – creates the `_AnonymousUser_` row once if it is missing.
BOOKKEEPING_MODELS = {"Token"}
BOOKKEEPING_ATTRS = {"last_login", "revoked"}
BOOKKEEPING_CALLS = {"get_guest_user", "check_password", "generate_api_token", "prune_database",
                     "is_revoked"}

LOADERS = {"uses_stream": "stream", "uses_media_file": "mediafile", "uses_keypair": "key",
           "uses_multi_period_stream": "mps", "uses_manifest": "manifest",
           "modifies_user_model": "user"}
MODEL_PROXIES = {"current_stream", "current_media_file", "current_keypair", "current_mps",
                 "modifying_user", "current_user", "jwt_current_user"}
# method names that also exist on builtin containers: only a mutation when the
# receiver is known to be a model instance
GENERIC_NAMES = {"add", "delete", "update", "remove", "pop", "clear", "append", "extend",
                 "insert", "discard", "get", "setdefault", "set"}
FINDER_NAMES = {"get", "get_one", "get_all", "all", "search"}


def repo() -> Path:
    return Path(os.environ.get("DASHLIVE_REPO", "/repo"))


# ---------------------------------------------------------------------------
# models/*.py: which model classes exist, which of their methods write

def scan_models(root: Path):
    classes: dict[str, dict[str, ast.AST]] = {}
    bases: dict[str, list[str]] = {}
    for p in sorted((root / "dashlive/server/models").glob("*.py")):
        tree = ast.parse(p.read_text())
        for node in tree.body:
            if isinstance(node, ast.ClassDef):
                bs = []
                for b in node.bases:
                    if isinstance(b, ast.Subscript):
                        b = b.value
                    if isinstance(b, ast.Name):
                        bs.append(b.id)
                    elif isinstance(b, ast.Attribute):
                        bs.append(b.attr)
                bases[node.name] = bs
                classes[node.name] = {n.name: n for n in node.body
                                      if isinstance(n, (ast.FunctionDef, ast.AsyncFunctionDef))}
    model_classes = set()
    changed = True
    while changed:
        changed = False
        for c, bs in bases.items():
            if c in model_classes:
                continue
            if "Base" in bs or "ModelMixin" in bs or any(b in model_classes for b in bs):
                model_classes.add(c)
                changed = True
    model_classes.discard("Base")
    scope = model_classes | {"ModelMixin"}

    def direct(fn: ast.AST) -> bool:
        for n in ast.walk(fn):
            if isinstance(n, ast.Call) and isinstance(n.func, ast.Attribute):
                a = n.func
                if a.attr in {"add", "delete", "merge", "commit", "flush"} and _is_session(a.value):
                    return True
                if a.attr == "execute" and _is_session(a.value):
                    for m in ast.walk(fn):
                        if isinstance(m, ast.Call) and isinstance(m.func, ast.Name) and m.func.id in {"delete", "update", "insert"}:
                            return True
            if isinstance(n, (ast.Assign, ast.AugAssign, ast.AnnAssign)):
                tgts = n.targets if isinstance(n, ast.Assign) else [n.target]
                for t in tgts:
                    if (isinstance(t, ast.Attribute) and isinstance(t.value, ast.Name)
                            and t.value.id == "self" and not t.attr.startswith("_")):
                        return True
        return False

    writers: set[str] = set()
    for c in scope:
        for name, fn in classes.get(c, {}).items():
            if name.startswith("__"):
                continue
            if direct(fn):
                writers.add(name)
    changed = True
    while changed:
        changed = False
        for c in scope:
            for name, fn in classes.get(c, {}).items():
                if name in writers or name.startswith("__"):
                    continue
                for n in ast.walk(fn):
                    if (isinstance(n, ast.Call) and isinstance(n.func, ast.Attribute)
                            and isinstance(n.func.value, ast.Name)
                            and n.func.value.id in {"self", "cls"} and n.func.attr in writers):
                        writers.add(name)
                        changed = True
                        break
    return model_classes, writers


def _is_session(e: ast.AST) -> bool:
    """`db.session`, `models.db.session`, `session`"""
    if isinstance(e, ast.Name):
        return e.id == "session"
    if isinstance(e, ast.Attribute) and e.attr == "session":
        v = e.value
        if isinstance(v, ast.Name) and v.id in {"db", "flask"}:
            return v.id == "db"
        if isinstance(v, ast.Attribute) and v.attr == "db":
            return True
    return False


# ---------------------------------------------------------------------------
# requesthandler/*.py

class Mod:
    def __init__(self, name: str, tree: ast.Module):
        self.name = name
        self.classes: dict[str, ast.ClassDef] = {}
        self.functions: dict[str, ast.AST] = {}
        self.imports: dict[str, tuple[str, str]] = {}   # local name → (module, original name)
        for node in tree.body:
            if isinstance(node, ast.ClassDef):
                self.classes[node.name] = node
            elif isinstance(node, (ast.FunctionDef, ast.AsyncFunctionDef)):
                self.functions[node.name] = node
            elif isinstance(node, ast.ImportFrom):
                mod = ("." * node.level) + (node.module or "")
                for a in node.names:
                    self.imports[a.asname or a.name] = (mod, a.name)


class Scanner:
    def __init__(self, root: Path):
        self.root = root
        self.mods: dict[str, Mod] = {}
        for p in sorted((root / "dashlive/server/requesthandler").glob("*.py")):
            if p.stem == "__init__":
                continue
            self.mods[p.stem] = Mod(p.stem, ast.parse(p.read_text()))
        self.model_classes, self.model_writers = scan_models(root)
        self.services: set[str] = set()
        self.problems: list[str] = []

    # ---- names
    def origin(self, mod: Mod, name: str) -> tuple[str, str]:
        """where a bare name used in `mod` comes from: (module, name); sibling
        modules are given by their stem, anything else by the import path"""
        if name in mod.classes or name in mod.functions:
            return (mod.name, name)
        if name in mod.imports:
            m, n = mod.imports[name]
            if m.startswith(".") and m.lstrip(".") in self.mods and m.count(".") == 1:
                return (m.lstrip("."), n)
            if m.startswith("dashlive.server.requesthandler."):
                return (m.rsplit(".", 1)[1], n)
            return (m, n)
        return ("?", name)

    def class_node(self, key: tuple[str, str]) -> ast.ClassDef | None:
        m = self.mods.get(key[0])
        return m.classes.get(key[1]) if m else None

    def mro(self, key: tuple[str, str]) -> list[tuple[str, str]]:
        """linearisation (single inheritance chains in this code base; a simple
        depth-first, duplicates-removed-from-the-left walk equals C3 there –
        multiple inheritance is reported as a problem)"""
        out: list[tuple[str, str]] = []
        node = self.class_node(key)
        if node is None:
            return out
        out.append(key)
        mod = self.mods[key[0]]
        known = []
        for b in node.bases:
            if isinstance(b, ast.Name):
                o = self.origin(mod, b.id)
                if self.class_node(o) is not None:
                    known.append(o)
        if len(known) > 1:
            self.problems.append(f"multiple inheritance in {key}: MRO approximated")
        for o in known:
            for k in self.mro(o):
                if k not in out:
                    out.append(k)
        return out

    def class_attr(self, key: tuple[str, str], attr: str):
        for k in self.mro(key):
            node = self.class_node(k)
            for st in node.body:
                if isinstance(st, ast.Assign):
                    for t in st.targets:
                        if isinstance(t, ast.Name) and t.id == attr:
                            return k, st.value
                elif isinstance(st, ast.AnnAssign) and isinstance(st.target, ast.Name) \
                        and st.target.id == attr and st.value is not None:
                    return k, st.value
        return None, None

    def find_method(self, key: tuple[str, str], name: str, after: tuple[str, str] | None = None):
        chain = self.mro(key)
        if after is not None and after in chain:
            chain = chain[chain.index(after) + 1:]
        for k in chain:
            node = self.class_node(k)
            for st in node.body:
                if isinstance(st, (ast.FunctionDef, ast.AsyncFunctionDef)) and st.name == name:
                    return k, st
        return None, None

    # ---- guards
    def const(self, e, default=None):
        return e.value if isinstance(e, ast.Constant) else default

    def perm(self, e) -> str:
        if e is None or (isinstance(e, ast.Constant) and e.value is None):
            return "none"
        if isinstance(e, ast.Attribute):
            return e.attr.lower()
        if isinstance(e, ast.Constant) and isinstance(e.value, str):
            return e.value.lower()
        self.problems.append(f"unreadable permission expression {ast.dump(e)}")
        return "media"

    def guard(self, mod: Mod, e: ast.AST, key: tuple[str, str]) -> dict:
        name = None
        call = None
        if isinstance(e, ast.Call):
            call = e
            if isinstance(e.func, ast.Name):
                name = e.func.id
            elif isinstance(e.func, ast.Attribute):
                name = e.func.attr
        elif isinstance(e, ast.Name):
            name = e.id
        elif isinstance(e, ast.Attribute):
            name = e.attr
        if name is None:
            return {"g": "other", "name": ast.unparse(e)}
        src = self.origin(mod, name)
        kw = {k.arg: k.value for k in call.keywords} if call else {}
        args = call.args if call else []
        if src == ("decorators", "login_required"):
            return {"g": "login", "html": bool(self.const(kw.get("html", args[0] if args else None), False)),
                    "admin": bool(self.const(kw.get("admin", args[1] if len(args) > 1 else None), False)),
                    "perm": self.perm(kw.get("permission", args[2] if len(args) > 2 else None))}
        if src == ("decorators", "jwt_login_required"):
            return {"g": "jwtlogin",
                    "admin": bool(self.const(kw.get("admin", args[0] if args else None), False)),
                    "perm": self.perm(kw.get("permission", args[1] if len(args) > 1 else None))}
        if src == ("flask_jwt_extended", "jwt_required"):
            # signature: jwt_required(optional=False, fresh=False, refresh=False, ...)
            return {"g": "jwt",
                    "optional": bool(self.const(kw.get("optional", args[0] if args else None), False)),
                    "refresh": bool(self.const(kw.get("refresh", args[2] if len(args) > 2 else None), False))}
        if src == ("decorators", "csrf_token_required"):
            svc_e = kw.get("service", args[0] if args else None)
            svc = self.service(svc_e, key)
            return {"g": "csrfdec", "service": svc,
                    "next": ("next_url" in kw) or len(args) > 1,
                    "optional": bool(self.const(kw.get("optional", args[2] if len(args) > 2 else None), False))}
        if src[0] == "decorators" and src[1] in LOADERS:
            return {"g": "loader", "what": LOADERS[src[1]]}
        if src == ("decorators", "spa_handler"):
            return {"g": "spa"}
        if src == ("flask_login", "login_required"):
            return {"g": "login", "html": False, "admin": False, "perm": "none"}
        if name in {"staticmethod", "classmethod", "abstractmethod", "property"}:
            return {"g": "skip"}
        return {"g": "other", "name": name}

    def service(self, e, key) -> str:
        if isinstance(e, ast.Constant) and isinstance(e.value, str):
            self.services.add(e.value)
            return e.value
        if isinstance(e, ast.Attribute) and isinstance(e.value, ast.Name) and e.value.id in {"self", "cls"}:
            _, v = self.class_attr(key, e.attr)
            if isinstance(v, ast.Constant) and isinstance(v.value, str):
                self.services.add(v.value)
                return v.value
        self.problems.append(f"CSRF service of {key} is not a literal: {ast.unparse(e) if e else None}")
        return "?"

    # ---- body scan
    def events(self, key: tuple[str, str], defining: tuple[str, str], fn: ast.AST,
               stack: tuple = ()) -> list[tuple]:
        """source-ordered events of a method: ('csrf', service) | ('selfOrAdmin', who) |
        ('mut', text) | ('construct', cls) | ('commit',)"""
        ident = (defining, getattr(fn, "name", "?"))
        if ident in stack:
            return []
        stack = stack + (ident,)
        mod = self.mods[defining[0]]
        typed: dict[str, str] = {}     # local name → model class ('?' = some model)
        ev: list[tuple] = []

        def model_of(e) -> str | None:
            """model class an expression evaluates to, if recognisable"""
            if isinstance(e, ast.Name):
                if e.id in typed:
                    return typed[e.id]
                if e.id in MODEL_PROXIES:
                    return "?"
                return None
            if isinstance(e, ast.Call):
                f = e.func
                if isinstance(f, ast.Name) and f.id == "cast" and len(e.args) == 2:
                    return model_of(e.args[1])
                cls = model_class_expr(f)
                if cls:
                    return cls                       # construction
                if isinstance(f, ast.Attribute):
                    cls = model_class_expr(f.value)
                    if cls and (f.attr in FINDER_NAMES or f.attr == "get_guest_user"):
                        return cls
                    if f.attr in {"get_timing_reference_file"}:
                        return "MediaFile"
                    if f.attr == "get_current_user":
                        return "User"
                if isinstance(f, ast.Name) and f.id == "get_current_user":
                    return "User"
            return None

        def model_class_expr(e) -> str | None:
            if isinstance(e, ast.Name) and e.id in self.model_classes:
                return e.id
            if isinstance(e, ast.Attribute) and e.attr in self.model_classes and \
                    isinstance(e.value, ast.Name) and e.value.id == "models":
                return e.attr
            return None

        def iter_model(e) -> str | None:
            """model class of the elements of an iterable expression"""
            if isinstance(e, ast.Call) and isinstance(e.func, ast.Attribute):
                cls = model_class_expr(e.func.value)
                if cls and e.func.attr in FINDER_NAMES:
                    return cls
                if e.func.attr == "scalars":
                    return "?"
            if isinstance(e, ast.Attribute):
                if e.attr == "tokens":
                    return "Token"
                if model_of(e.value):
                    return "?"
            return None

        def visit(node):
            # assignment: remember model-typed locals, detect stores
            if isinstance(node, (ast.Assign, ast.AnnAssign, ast.AugAssign)):
                val = node.value
                if val is not None:
                    visit(val)
                tgts = node.targets if isinstance(node, ast.Assign) else [node.target]
                for t in tgts:
                    if isinstance(t, ast.Name) and val is not None:
                        m = model_of(val)
                        if m:
                            typed[t.id] = m
                        elif t.id in typed and not (isinstance(val, ast.Constant) and val.value is None):
                            pass
                    elif isinstance(t, ast.Attribute):
                        m = model_of(t.value)
                        if m and m not in BOOKKEEPING_MODELS and t.attr not in BOOKKEEPING_ATTRS:
                            ev.append(("mut", f"{ast.unparse(t)} = … @{defining[0]}.py"))
                        visit(t.value)
                    elif isinstance(t, ast.Tuple):
                        for x in t.elts:
                            if isinstance(x, ast.Name) and x.id in {"stream"} and val is not None:
                                pass
                return
            if isinstance(node, (ast.For, ast.AsyncFor)):
                visit(node.iter)
                m = iter_model(node.iter)
                if m and isinstance(node.target, ast.Name):
                    typed[node.target.id] = m
                for s in node.body + node.orelse:
                    visit(s)
                return
            if isinstance(node, ast.If):
                who = self_or_admin(node)
                if who:
                    ev.append(("selfOrAdmin", who))
                visit(node.test)
                for s in node.body + node.orelse:
                    visit(s)
                return
            if isinstance(node, (ast.FunctionDef, ast.AsyncFunctionDef, ast.Lambda)) and node is not fn:
                # nested helper: scanned in place (conservative: as if it ran here)
                for s in (node.body if isinstance(node.body, list) else [node.body]):
                    visit(s)
                return
            if isinstance(node, ast.Call):
                for a in node.args:
                    visit(a)
                for k in node.keywords:
                    visit(k.value)
                call(node)
                if isinstance(node.func, ast.Attribute):
                    visit(node.func.value)
                return
            for ch in ast.iter_child_nodes(node):
                visit(ch)

        def self_or_admin(node: ast.If) -> str | None:
            t = node.test
            if not (isinstance(t, ast.BoolOp) and isinstance(t.op, ast.And)):
                return None
            who = None
            for v in t.values:
                if (isinstance(v, ast.UnaryOp) and isinstance(v.op, ast.Not)
                        and isinstance(v.operand, ast.Attribute) and v.operand.attr == "is_admin"
                        and isinstance(v.operand.value, ast.Name)):
                    who = v.operand.value.id
            if who is None:
                return None
            ok = False
            for v in t.values:
                if isinstance(v, ast.Compare) and len(v.ops) == 1 and isinstance(v.ops[0], ast.NotEq):
                    sides = [v.left, v.comparators[0]]
                    if all(isinstance(s, ast.Attribute) and s.attr == "pk" for s in sides) and \
                            any(isinstance(s.value, ast.Name) and s.value.id == who for s in sides):
                        ok = True
            if not ok or not node.body or not isinstance(node.body[-1], ast.Return):
                return None
            return {"jwt_current_user": "jwt", "current_user": "session"}.get(who)

        def call(node: ast.Call):
            f = node.func
            where = f"@{defining[0]}.py"
            # CSRF checks
            if isinstance(f, ast.Attribute) and f.attr == "check_csrf" and node.args:
                ev.append(("csrf", self.service(node.args[0], key)))
                return
            if (isinstance(f, ast.Attribute) and f.attr == "check" and isinstance(f.value, ast.Name)
                    and f.value.id == "CsrfProtection" and node.args):
                ev.append(("csrf", self.service(node.args[0], key)))
                return
            if isinstance(f, ast.Attribute) and f.attr in {"generate_csrf_token", "generate_token"} and node.args:
                if isinstance(node.args[0], ast.Constant):
                    self.services.add(node.args[0].value)
                elif isinstance(node.args[0], ast.Attribute):
                    self.service(node.args[0], key)
                return
            # session writes
            if isinstance(f, ast.Attribute) and _is_session(f.value):
                if f.attr in {"add", "delete", "merge"}:
                    m = model_of(node.args[0]) if node.args else None
                    if m in BOOKKEEPING_MODELS:
                        return
                    ev.append(("mut", f"session.{f.attr}({ast.unparse(node.args[0]) if node.args else ''}) {where}"))
                elif f.attr in {"commit", "flush"}:
                    ev.append(("commit", where))
                elif f.attr == "execute":
                    pass      # handlers only execute selects; deletes live in models (by name)
                return
            # construction of a model instance
            cls = model_class_expr(f)
            if cls:
                if cls not in BOOKKEEPING_MODELS:
                    ev.append(("construct", f"{cls}(…) {where}"))
                return
            # helpers of the handler itself
            if isinstance(f, ast.Attribute) and isinstance(f.value, ast.Name) and f.value.id in {"self", "cls"}:
                k, m = self.find_method(key, f.attr)
                if m is not None:
                    ev.extend(self.events(key, k, m, stack))
                    return
            if (isinstance(f, ast.Attribute) and isinstance(f.value, ast.Call)
                    and isinstance(f.value.func, ast.Name) and f.value.func.id == "super"):
                k, m = self.find_method(key, f.attr, after=defining)
                if m is not None:
                    ev.extend(self.events(key, k, m, stack))
                return
            if isinstance(f, ast.Name):
                o = self.origin(mod, f.id)
                m2 = self.mods.get(o[0])
                if m2 and o[1] in m2.functions:
                    ev.extend(self.events((o[0], "<module>"), (o[0], "<module>"), m2.functions[o[1]], stack))
                    return
                if m2 and o[1] in m2.classes:
                    return
            # model methods, by name
            if isinstance(f, ast.Attribute):
                if f.attr == "prune_database":
                    ev.append(("prune", where))
                    return
                if f.attr in BOOKKEEPING_CALLS:
                    return
                if f.attr in self.model_writers:
                    recv = model_of(f.value)
                    if f.attr in GENERIC_NAMES and not recv:
                        return
                    if recv in BOOKKEEPING_MODELS:
                        return
                    ev.append(("mut", f"{ast.unparse(f)}(…) {where}"))

        for st in fn.body:
            visit(st)
        return ev

    # ---- rows
    def handler_row(self, route: str, url: str, handler: str, verb: str):
        modname, clsname = handler.rsplit(".", 1)
        key = (modname, clsname)
        mod = self.mods.get(modname)
        if mod is None:
            self.problems.append(f"route {route}: unknown handler module {modname}")
            return None
        if clsname in mod.functions:          # plain view function (favicon)
            if verb not in {"GET", "HEAD"}:
                return None
            fn = mod.functions[clsname]
            guards = [g for g in (self.guard(mod, d, key) for d in fn.decorator_list) if g["g"] != "skip"]
            ev = self.events((modname, "<module>"), (modname, "<module>"), fn)
            return self.finish(route, url, handler, verb, f"{modname}.{clsname}", [], guards, ev)
        if self.class_node(key) is None:
            self.problems.append(f"route {route}: unknown handler {handler}")
            return None
        lname = verb.lower()
        k, fn = self.find_method(key, lname)
        if fn is None and verb == "HEAD":
            k, fn = self.find_method(key, "get")
        if fn is None:
            return None
        dk, dval = self.class_attr(key, "decorators")
        cdecs: list[dict] = []
        if dval is not None:
            if isinstance(dval, (ast.List, ast.Tuple)):
                cdecs = [self.guard(self.mods[dk[0]], e, key) for e in dval.elts]
            else:
                self.problems.append(f"{handler}.decorators is not a list literal")
        mdecs = [g for g in (self.guard(self.mods[k[0]], d, key) for d in fn.decorator_list) if g["g"] != "skip"]
        ev = self.events(key, k, fn)
        return self.finish(route, url, handler, verb, f"{k[0]}.{k[1]}.{fn.name}", cdecs, mdecs, ev,
                           isinstance(fn, ast.AsyncFunctionDef))

    def finish(self, route, url, handler, verb, impl, cdecs, mdecs, ev, is_async=False):
        has_commit = any(e[0] == "commit" for e in ev)
        first_mut = None
        evidence = []
        for i, e in enumerate(ev):
            if e[0] == "mut" or (e[0] == "construct" and has_commit):
                evidence.append(e[1])
                if first_mut is None:
                    first_mut = i
        mutates = first_mut is not None
        cut = first_mut if mutates else len(ev)
        body = []
        for e in ev[:cut]:
            if e[0] == "csrf":
                body.append({"g": "csrfbody", "service": e[1]})
            elif e[0] == "selfOrAdmin":
                body.append({"g": "selforadmin", "who": e[1]})
        csrf_first = not any(e[0] == "csrf" for e in ev[cut:])
        late = [e[1] for e in ev[cut:] if e[0] == "csrf"]
        kind = "none"
        for kd, names in DOC_KIND.items():
            if route in names or f"{route}:{verb}" in names:
                kind = kd
        return {"route": route, "url": url, "handler": handler, "method": verb, "impl": impl,
                "async": bool(is_async),
                "classDecorators": cdecs, "methodDecorators": mdecs, "bodyGuards": body,
                "lateCsrf": late, "mutates": mutates, "csrfFirst": csrf_first, "kind": kind,
                "prunes": any(e[0] == "prune" for e in ev),
                "evidence": evidence[:4]}


def read_routes(root: Path) -> list[tuple[str, str, str]]:
    """(endpoint name, URL template, handler) exactly as app.add_routes registers them"""
    tree = ast.parse((root / "dashlive/server/routes.py").read_text())
    out = []
    for node in tree.body:
        tgt = None
        if isinstance(node, ast.AnnAssign) and isinstance(node.target, ast.Name):
            tgt, val = node.target.id, node.value
        elif isinstance(node, ast.Assign) and isinstance(node.targets[0], ast.Name):
            tgt, val = node.targets[0].id, node.value
        if tgt not in {"routes", "ui_routes"} or not isinstance(val, ast.Dict):
            continue
        for k, v in zip(val.keys, val.values):
            name = k.value
            if not isinstance(v, ast.Call):
                raise ValueError(f"route {name}: not a Route(...) call")
            kw = {x.arg: x.value for x in v.keywords}
            tmpl = const_str(v.args[0] if v.args else kw["template"])
            if tgt == "ui_routes":
                # class UiRoute(Route): handler='htmlpage.MainPage'; registered as ui-<name>
                handler = ui_handler(tree)
                out.append((f"ui-{name}", tmpl, handler))
            else:
                h = kw.get("handler", v.args[1] if len(v.args) > 1 else None)
                out.append((name, tmpl, const_str(h)))
    return out


def const_str(e: ast.AST) -> str:
    """string literal, possibly split with `+`"""
    if isinstance(e, ast.Constant) and isinstance(e.value, str):
        return e.value
    if isinstance(e, ast.BinOp) and isinstance(e.op, ast.Add):
        return const_str(e.left) + const_str(e.right)
    raise ValueError(f"not a string literal: {ast.unparse(e)}")


def ui_handler(tree: ast.Module) -> str:
    for node in tree.body:
        if isinstance(node, ast.ClassDef) and node.name == "UiRoute":
            for n in ast.walk(node):
                if isinstance(n, ast.keyword) and n.arg == "handler":
                    return ast.literal_eval(n.value)
    raise ValueError("UiRoute handler not found")


def scan_prune_sites(root: Path) -> list[dict]:
    """every call of `prune_database` under dashlive/ (the definition itself excluded)"""
    sites = []
    base = root / "dashlive"
    for p in sorted(base.rglob("*.py")):
        try:
            tree = ast.parse(p.read_text())
        except SyntaxError:
            continue

        def walk(node, qual):
            for ch in ast.iter_child_nodes(node):
                q = qual
                if isinstance(ch, (ast.FunctionDef, ast.AsyncFunctionDef, ast.ClassDef)):
                    q = qual + [ch.name]
                if isinstance(ch, ast.Call):
                    f = ch.func
                    name = f.attr if isinstance(f, ast.Attribute) else (f.id if isinstance(f, ast.Name) else None)
                    if name == "prune_database":
                        kw = {k.arg: k.value for k in ch.keywords}
                        a = kw.get("all_csrf", ch.args[0] if ch.args else None)
                        allc = a.value if isinstance(a, ast.Constant) else None
                        rel = str(p.relative_to(base))
                        site = f"{rel}:{'.'.join(qual) or '<module>'}"
                        sites.append({"site": site, "allCsrf": bool(allc) if allc is not None else False,
                                      "allCsrfKnown": allc is not None,
                                      "startup": rel == "server/app.py" and qual[:1] == ["create_app"]})
                walk(ch, q)
        walk(tree, [])
    return sorted(sites, key=lambda d: d["site"])


def build(root: Path | None = None) -> dict:
    root = root or repo()
    sc = Scanner(root)
    rows = []
    for name, tmpl, handler in sorted(read_routes(root)):
        for verb in HTTP_METHODS:
            r = sc.handler_row(name, tmpl, handler, verb)
            if r:
                rows.append(r)
    return {"rows": rows, "services": sorted(sc.services - {"?"}), "problems": sorted(set(sc.problems)),
            "pruneSites": scan_prune_sites(root),
            "model_writers": sorted(sc.model_writers), "model_classes": sorted(sc.model_classes)}


# ---------------------------------------------------------------------------
# Lean rendering

def lstr(s: str) -> str:
    out = []
    for ch in s:
        if ch == "\\":
            out.append("\\\\")
        elif ch == '"':
            out.append('\\"')
        elif ch == "\n":
            out.append("\\n")
        elif ord(ch) < 32 or ord(ch) > 126:
            out.append("\\u{%x}" % ord(ch))
        else:
            out.append(ch)
    return '"' + "".join(out) + '"'


def lbool(b: bool) -> str:
    return "true" if b else "false"


def lperm(p: str) -> str:
    return {"none": "none", "media": "(some .media)", "user": "(some .user)", "admin": "(some .admin)"}[p]


def lguard(g: dict) -> str:
    k = g["g"]
    if k == "login":
        return f".loginRequired {lbool(g['html'])} {lbool(g['admin'])} {lperm(g['perm'])}"
    if k == "jwt":
        return f".jwtRequired {lbool(g['refresh'])} {lbool(g['optional'])}"
    if k == "jwtlogin":
        return f".jwtLoginRequired {lbool(g['admin'])} {lperm(g['perm'])}"
    if k == "csrfdec":
        return f".csrfDecorator {lstr(g['service'])} {lbool(g['next'])} {lbool(g['optional'])}"
    if k == "csrfbody":
        return f".csrfBody {lstr(g['service'])}"
    if k == "loader":
        return f".loader {lstr(g['what'])}"
    if k == "selforadmin":
        return f".selfOrAdmin {lbool(g['who'] == 'jwt')}"
    if k == "spa":
        return ".spa"
    return f".other {lstr(g.get('name', '?'))}"


def lguards(gs: list[dict]) -> str:
    return "[" + ", ".join(lguard(g) for g in gs) + "]"


def render(t: dict) -> str:
    lines = [
        "import DashLive.Model.Auth",
        "/-! GENERATED by harness/gen_routes.py from dashlive/server/routes.py and",
        "dashlive/server/requesthandler/*.py – do not edit.  One row per (route, URL template,",
        "handler class, HTTP method); see the generator's doc comment for the meaning of the columns.",
        "`kind` is the hand-written docs/users.md map (trusted). -/",
        "namespace DashLive.Gen.Routes",
        "open DashLive.Auth",
        "",
        "def table : List Row := [",
    ]
    rows = t["rows"]
    for i, r in enumerate(rows):
        sep = "," if i + 1 < len(rows) else ""
        lines.append(
            f"  {{ route := {lstr(r['route'])}, url := {lstr(r['url'])}, handler := {lstr(r['handler'])}, "
            f"method := .{r['method']}, impl := {lstr(r['impl'])},")
        lines.append(
            f"    classDecorators := {lguards(r['classDecorators'])}, methodDecorators := {lguards(r['methodDecorators'])}, "
            f"bodyGuards := {lguards(r['bodyGuards'])},")
        lines.append(
            f"    mutates := {lbool(r['mutates'])}, csrfFirst := {lbool(r['csrfFirst'])}, kind := .{r['kind']}"
            + (", prunes := true" if r["prunes"] else "") + f" }}{sep}")
        if r["evidence"]:
            lines.append("    -- writes: " + "; ".join(r["evidence"]).replace("\n", " "))
    lines.append("]")
    lines.append("")
    lines.append("/-- every CSRF service name that occurs in a check or in a token-generating call -/")
    lines.append("def services : List String := [" + ", ".join(lstr(s) for s in t["services"]) + "]")
    lines.append("")
    lines.append("/-- every call of `prune_database` (the only code that deletes CSRF replay records) under dashlive/ -/")
    lines.append("def pruneSites : List PruneSite := [" + ", ".join(
        f"{{ site := {lstr(p['site'])}, allCsrf := {lbool(p['allCsrf'])}, startup := {lbool(p['startup'])} }}"
        for p in t["pruneSites"]) + "]")
    lines.append("")
    lines.append("/-- things the translator could not follow (must be empty) -/")
    lines.append("def problems : List String := [" + ", ".join(lstr(s) for s in t["problems"]) + "]")
    lines.append("")
    lines.append("end DashLive.Gen.Routes")
    return "\n".join(lines) + "\n"


def main():
    t = build()
    src = render(t)
    OUT.parent.mkdir(parents=True, exist_ok=True)
    if not OUT.exists() or OUT.read_text() != src:
        OUT.write_text(src)
    if t["problems"]:
        raise RuntimeError("gen_routes could not follow the source: " + "; ".join(t["problems"][:5]))
    return t


if __name__ == "__main__":
    sys.dont_write_bytecode = True
    t = build()
    if "--json" in sys.argv:
        print(json.dumps(t, indent=1))
    else:
        OUT.parent.mkdir(parents=True, exist_ok=True)
        OUT.write_text(render(t))
        for r in t["rows"]:
            if r["mutates"]:
                print(r["route"], r["method"], r["impl"], "kind=" + r["kind"], "csrfFirst=" + str(r["csrfFirst"]),
                      [lguard(g) for g in r["classDecorators"]], [lguard(g) for g in r["methodDecorators"]],
                      [lguard(g) for g in r["bodyGuards"]], r["evidence"][:2])
        print("services", t["services"], "problems", t["problems"])
        print("model writers", t["model_writers"])
