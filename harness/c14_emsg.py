"""C14 helpers for the event-scheduling part: schedule / segment-run generators,
stub objects for calling the real `create_emsg_boxes`, the Layer-C oracle
(written from the property text, own arithmetic) and an independent ISO-BMFF
walker + `emsg` reader (ISO/IEC 23009-1 5.10.3.3)."""
from __future__ import annotations

import math
import struct
from fractions import Fraction
from types import SimpleNamespace as NS

import c14_scte35 as S

def run_driver(lines, timeout: int = 900):
    """common.run_driver, tolerating a concurrent `lake build` of another check that is
    relinking the shared driver binary (it disappears for a few seconds)"""
    import time
    import common
    last = None
    for _ in range(90):
        try:
            return common.run_driver(lines, timeout=timeout)
        except (FileNotFoundError, PermissionError, OSError) as e:
            last = e
            time.sleep(2)
    raise last


# boundary pool for integer event option values: around the 32-bit emsg fields, the 33-bit PTS wrap,
# the 2^53 limit of exact doubles (odd values above it are not representable) and the 64-bit v1 time
BOUNDARY = sorted({2 ** k + d for k in (31, 32, 33, 53, 54, 55, 62) for d in (-1, 0, 1)} |
                  {2 ** 53 + 3, 2 ** 54 + 3, 2 ** 55 + 5, 2 ** 60 + 7, 2 ** 63 - 1})


def boundary_value(rng, limit: int | None = None, odd_above_2_53: bool = False) -> int:
    """a value from BOUNDARY (below `limit` if given), sometimes nudged by a small offset"""
    pool = [v for v in BOUNDARY if limit is None or v < limit]
    v = rng.choice(pool) + rng.choice([0, 0, 0, 2, -2, 12345])
    if limit is not None and v >= limit:
        v = limit - 1
    if odd_above_2_53 and v > 2 ** 53 and v % 2 == 0:
        v += 1 if (limit is None or v + 1 < limit) else -1
    return max(0, v)


PING_SCHEME = "urn:dash-live:pingpong:2022"
SCTE_SCHEME = "urn:scte:scte35:2014:xml+bin"
TIMESCALES = [1, 10, 25, 90, 100, 240, 1000, 12800, 44100, 48000, 90000, 10 ** 6, 10 ** 7]


# ------------------------------------------------------------------ generators

def gen_layout(rng):
    """(rep_timescale, [segment durations])"""
    ts = rng.choice(TIMESCALES) if rng.random() < .85 else rng.randrange(1, 200000)
    n = rng.choice([2, 3, 5, 10, 10, 17, 40])
    base = max(1, int(ts * rng.choice([0.5, 1, 2, 4, 4, 6.006, 10])))
    kind = rng.random()
    if kind < .4:
        durs = [base] * n
    elif kind < .7:
        durs = [max(1, base + rng.randrange(-max(1, base // 50), max(1, base // 50) + 1)) for _ in range(n)]
    elif kind < .9:
        durs = [max(1, rng.randrange(max(1, base // 4), base * 2 + 1)) for _ in range(n)]
    else:
        durs = [base] * (n - 1) + [max(1, base // rng.choice([2, 3, 7]))]
    return ts, durs


def gen_run(rng, durs, live: bool):
    """consecutive segments [(tfdt, dur)] – contiguous in the media timebase (hypothesis of
    `emsg_exactly_once`): loop origin = loop * sum(durs) (no drift)"""
    n = len(durs)
    total = sum(durs)
    loop = 0
    if live:
        loop = rng.choice([0, 1, 2, 7, 1000, 10 ** 6]) if rng.random() < .8 else rng.randrange(0, 10 ** 8)
    j = rng.randrange(0, n)
    m = rng.choice([1, 2, 3, 4, 6, 12]) if not live else rng.choice([1, 2, 3, n, n + 1, 2 * n + 1, 12])
    if not live:
        m = min(m, n - j)
    m = min(m, 30)
    run = []
    prefix = [0]
    for d in durs:
        prefix.append(prefix[-1] + d)
    crosses = False
    for i in range(m):
        run.append((loop * total + prefix[j], durs[j]))
        j += 1
        if j == n:
            j = 0
            loop += 1
            crosses = crosses or i < m - 1
    return run, crosses


def gen_sched(rng, event: str, rep_ts: int, run, big: bool):
    ts = rng.choice([1, 10, 90, 100, 100, 100, 240, 1000, 90000, 10 ** 7]) if rng.random() < .85 \
        else rng.randrange(1, 10 ** 6)
    a0 = run[0][0] * ts // rep_ts
    b_last = (run[-1][0] + run[-1][1]) * ts // rep_ts
    seg_ticks = max(1, (run[0][1] * ts) // rep_ts)
    k = rng.random()
    if k < .25:
        interval = max(1, seg_ticks // rng.choice([2, 3, 4, 7]))
    elif k < .5:
        interval = seg_ticks
    elif k < .7:
        interval = max(1, int(seg_ticks * rng.choice([1.5, 2, 3, 5])))
    elif k < .8:
        interval = rng.choice([1, 2, 3])
    else:
        interval = rng.randrange(1, 4 * seg_ticks + 2)
    # bound the number of boxes per run
    max_boxes = (40 if event == "scte35" else (600 if big else 200))
    span = max(1, b_last - a0)
    if span // interval > max_boxes:
        interval = span // max_boxes + 1
    # start: before / inside / after the run, often exactly on a segment boundary
    bounds = [t * ts // rep_ts for t, _ in run] + [b_last]
    k = rng.random()
    if k < .35:
        b = rng.choice(bounds)
        start = b - interval * rng.choice([0, 0, 1, 2, 5, 1000])
        start += rng.choice([0, 0, 0, -1, 1])
    elif k < .55:
        start = rng.choice([0, 0, 1, 200, 256])
    elif k < .85:
        start = rng.randrange(a0 - 3 * interval, b_last + 2)
    else:
        start = rng.randrange(0, max(1, a0 + 1))
    if start < 0 and rng.random() < .9:
        start = start % interval
    # H: event ids fit the 32-bit emsg / splice_event_id fields (ledger D13j is the excluded case)
    if (b_last - start) // interval >= 2 ** 32 - 2:
        start = a0 - interval * rng.randrange(0, 1000) + rng.choice([0, 0, 1, -1])
    # count: unbounded / cut inside the run / cut before / after
    k = rng.random()
    first = max(0, -(-(a0 - start) // interval))
    last = max(0, -(-(b_last - start) // interval))
    if k < .35:
        count = 0
    elif k < .75:
        count = rng.randrange(first, last + 2) if last + 2 > first else first
        count += rng.choice([0, 0, 1, -1])
        count = max(0, count)
    elif k < .85:
        count = rng.choice([1, 2, 3, 4])
    elif k < .95:
        count = rng.choice([508, 509, 510, 511, 600, 70000])
    else:
        count = -rng.randrange(1, 5)
    duration = rng.choice([0, 1, 200, 200, ts, 10 * ts])
    version = 1 if event == "scte35" else rng.choice([0, 0, 1])
    s = dict(start=start, interval=interval, count=count, duration=duration, timescale=ts,
             version=version, inband=True)
    if event == "scte35":
        s["program_id"] = rng.choice([0, 1, 345, 1620, 1620, 65535])
    if rng.random() < .25:
        # the `value` string of the event stream (emsg `value` field): opaque text classes
        s["value"] = rng.choice(["", "0", "a b", "a+b", "x&y;z=1", "&nbsp;&#0;&lt;", "{0}{name}}", "0x1F", "true", "null",
                                 "dGVzdA==", "\u00e9\u00fc\u20ac\U0001f600", "emsg", "v" * 1024, "%41%2B"])
    return s


MAX_EVENTS_PER_SEGMENT = 10000      # RepeatingEventBase.MAX_EVENTS_PER_SEGMENT (fix 8c4223f)


def refused(sched: dict, rep_ts: int, tfdt: int, dur: int) -> bool:
    """the segment spans more than MAX_EVENTS_PER_SEGMENT intervals: create_emsg_boxes refuses it
    (ValueError -> 400) – outside the hypotheses of emsg_segment_exact, ledger D13k"""
    a, b = seg_interval(sched, rep_ts, tfdt, dur)
    return sched["interval"] >= 1 and (b - a) // sched["interval"] > MAX_EVENTS_PER_SEGMENT


def gen_dense_case(rng):
    """around the MAX_EVENTS_PER_SEGMENT guard: (B - A) // interval in {9999, 10000, 10001, …}"""
    rep_ts, durs = gen_layout(rng)
    ts = rng.choice([10 ** 6, 10 ** 7, 90000 * 1000, 10 ** 9])
    tfdt, dur = rng.randrange(0, 10 ** 9), durs[0]
    a, b = tfdt * ts // rep_ts, (tfdt + dur) * ts // rep_ts
    q = rng.choice([9999, 10000, 10000, 10001, 10001, 20000])
    interval = max(1, (b - a) // q)
    # nudge so that the quotient is exactly what was asked for where possible
    while interval > 1 and (b - a) // interval < q:
        interval -= 1
    event = rng.choice(["ping", "ping", "scte35"])
    s = dict(start=max(0, b - 3 * interval + rng.choice([0, 1])), interval=interval, count=rng.choice([0, 0, 2]),
             duration=200, timescale=ts, version=1 if event == "scte35" else rng.choice([0, 1]), inband=True)
    if (b - s["start"]) // interval >= 2 ** 32 - 2:
        s["start"] = max(0, a)
    if event == "scte35":
        s["program_id"] = 1620
    return {"event": event, "mode": "vod", "sched": s, "rep_timescale": rep_ts, "run": [[tfdt, dur]]}


def gen_case(rng, big: bool):
    if rng.random() < .012:
        return gen_dense_case(rng)
    event = "ping" if rng.random() < .65 else "scte35"
    live = rng.random() < .5
    rep_ts, durs = gen_layout(rng)
    run, crosses = gen_run(rng, durs, live)
    sched = gen_sched(rng, event, rep_ts, run, big)
    r = rng.random()
    if r < .02:
        sched["inband"] = False
    elif r < .05:
        sched["interval"] = rng.choice([0, 0, -1, -7])     # ValueError since fix a993bc6
    return {"event": event, "mode": "live" if live else "vod", "sched": sched,
            "rep_timescale": rep_ts, "run": [list(x) for x in run], "crosses_loop": crosses}


# ------------------------------------------------------------------ real code

def make_event(event: str, sched: dict):
    from dashlive.server.events.ping_pong import PingPongEvents
    from dashlive.server.events.scte35_events import Scte35Events
    kw = dict(sched)
    if event == "ping":
        kw.setdefault("value", "0")
        return PingPongEvents(**kw)
    kw.setdefault("value", "")
    kw.setdefault("program_id", 1620)
    return Scte35Events(**kw)


class NonTermination(BaseException):
    """the real code did not return within the time limit (BaseException: must not be swallowed)"""


class time_limit:
    """SIGALRM based guard around calls into the real code (main thread only): a regression
    that brings back the endless loop of D13b must become a failure, not a hung check"""

    def __init__(self, seconds: float):
        self.seconds = seconds

    def __enter__(self):
        import signal

        def _raise(*_a):
            raise NonTermination(f"no result after {self.seconds} s")
        try:
            self.old = signal.signal(signal.SIGALRM, _raise)
            signal.setitimer(signal.ITIMER_REAL, self.seconds)
            self.armed = True
        except ValueError:      # not the main thread
            self.armed = False
        return self

    def __exit__(self, *a):
        import signal
        if self.armed:
            signal.setitimer(signal.ITIMER_REAL, 0)
            signal.signal(signal.SIGALRM, self.old)
        return False


_HUNG: list = []


def real_boxes(case) -> list:
    """per segment: list of the real EventMessageBox objects, or the exception class name"""
    ev = make_event(case["event"], case["sched"])
    out = []
    for tfdt, dur in case["run"]:
        moof = NS(traf=NS(tfdt=NS(base_media_decode_time=tfdt)))
        rep = NS(timescale=case["rep_timescale"], segments=[None, NS(duration=dur)])
        try:
            with time_limit(0.5 if _HUNG else 10):
                out.append(ev.create_emsg_boxes(segment_num=1, mod_segment=1, moof=moof,
                                                representation=rep, adaptation_set=None))
        except (ValueError, AssertionError, ZeroDivisionError) as e:
            out.append(type(e).__name__)
        except NonTermination:
            _HUNG.append(1)      # later cases get a short limit: one slow failure is enough
            out.append("NonTermination")
            break
    return out


def box_fields(b) -> dict:
    return dict(version=b.version, flags=b.flags, scheme=b.scheme_id_uri, value=b.value,
                timescale=b.timescale, duration=b.event_duration, id=b.event_id,
                delta=getattr(b, "presentation_time_delta", None) if b.version == 0 else None,
                pt=getattr(b, "presentation_time", None) if b.version != 0 else None,
                data=bytes(b.data.data if hasattr(b.data, "data") else b.data))


def canon_boxes(seg) -> str:
    """same text as the driver's `emsg` channel prints for one segment"""
    if isinstance(seg, str):
        return seg
    if not seg:
        return "-"
    def o(v):
        return "-" if v is None else str(v)
    return "+".join(f"{f['id']},{o(f['delta'])},{o(f['pt'])}" for f in map(box_fields, seg))


def driver_line(case) -> str:
    s = case["sched"]
    run = ";".join(f"{a}:{d}" for a, d in case["run"])
    return (f"emsg {s['start']} {s['interval']} {s['count']} {s['duration']} {s['timescale']} "
            f"{s['version']} {1 if s['inband'] else 0} {case['rep_timescale']} {run}")


# ------------------------------------------------------------------ oracle (property text)

def ceil_div(a: int, b: int) -> int:
    return math.ceil(Fraction(a, b))


def expected_ids(sched: dict, a: int, b: int) -> list:
    """ids k >= 0 with a <= start + k*interval < b (k < count when count > 0), in order"""
    if b <= a:
        return []
    start, interval, count = sched["start"], sched["interval"], sched["count"]
    lo = max(0, ceil_div(a - start, interval))
    hi = max(0, ceil_div(b - start, interval))          # first k with time >= b
    if count > 0:
        hi = min(hi, count)
    return list(range(lo, hi))


def seg_interval(sched: dict, rep_ts: int, tfdt: int, dur: int):
    """the segment's time interval expressed in the event timebase (whole ticks)"""
    a = math.floor(Fraction(tfdt * sched["timescale"], rep_ts))
    b = math.floor(Fraction((tfdt + dur) * sched["timescale"], rep_ts))
    return a, b


def check_payload(event: str, sched: dict, k: int, t: int, data: bytes) -> str | None:
    if event == "ping":
        want = b"ping" if k % 2 == 0 else b"pong"
        return None if data == want else f"payload {data!r} for event {k}, expected {want!r}"
    try:
        d = S.decode_section(data)
    except Exception as e:
        return f"SCTE-35 payload of event {k} does not decode: {type(e).__name__}: {e}"
    if not d["crc_valid"]:
        return f"SCTE-35 payload of event {k}: CRC-32 invalid"
    cmd = d["sig"]["command"]
    if not cmd or "splice_insert" not in cmd:
        return f"SCTE-35 payload of event {k} is not a splice_insert"
    si = cmd["splice_insert"]
    ts = sched["timescale"]
    pts = (t * 90000 // ts) % (1 << 33)
    dur = sched["duration"] * 90000 // ts
    if si["splice_event_id"] != k:
        return f"splice_event_id {si['splice_event_id']} != event id {k}"
    if si["splice_time"] != pts:
        return f"PTS {si['splice_time']} != {pts} for event {k} at {t}/{ts}"
    if si["break_duration"] is None or si["break_duration"][1] != dur:
        return f"break duration {si['break_duration']} != {dur}"
    return None


def oracle_run(case, segs_fields: list) -> list:
    """C14 evaluated on what a run of segments actually carried.
    `segs_fields`: per segment the list of box field dicts (see box_fields).
    Returns a list of failure strings (empty = property holds)."""
    sched, rep_ts = case["sched"], case["rep_timescale"]
    fails = []
    got_ids = []
    for (tfdt, dur), boxes in zip(case["run"], segs_fields):
        a, b = seg_interval(sched, rep_ts, tfdt, dur)
        for f in boxes:
            k = f["id"]
            t = sched["start"] + k * sched["interval"]
            got_ids.append(k)
            if k < 0 or (sched["count"] > 0 and k >= sched["count"]):
                fails.append(f"event id {k} is not in the schedule (count={sched['count']})")
            if not (a <= t < b):
                fails.append(f"event {k} (time {t}) carried by the segment [{a},{b}) that does not contain it")
            if f["version"] == 0:
                if f["delta"] is None or f["delta"] < 0 or a + f["delta"] != t:
                    fails.append(f"event {k}: v0 delta {f['delta']} from segment start {a} does not resolve to {t}")
            else:
                if f["pt"] != t:
                    fails.append(f"event {k}: v1 presentation_time {f['pt']} != {t}")
            if f["version"] != sched["version"] or f["timescale"] != sched["timescale"] or \
                    f["duration"] != sched["duration"]:
                fails.append(f"event {k}: version/timescale/duration {f['version']}/{f['timescale']}/"
                             f"{f['duration']} differ from the schedule")
            want_scheme = PING_SCHEME if case["event"] == "ping" else SCTE_SCHEME
            if f["scheme"] != want_scheme:
                fails.append(f"event {k}: scheme {f['scheme']!r}")
            msg = check_payload(case["event"], sched, k, t, f["data"])
            if msg:
                fails.append(msg)
    a0, _ = seg_interval(sched, rep_ts, *case["run"][0])
    _, bl = seg_interval(sched, rep_ts, *case["run"][-1])
    want = expected_ids(sched, a0, bl) if sched["inband"] else []
    if got_ids != want:
        missing = [k for k in want if k not in got_ids]
        extra = [k for k in got_ids if k not in want]
        dup = sorted({k for k in got_ids if got_ids.count(k) > 1}) if len(got_ids) < 5000 else []
        fails.append(f"run [{a0},{bl}) carried ids {got_ids[:12]}{'…' if len(got_ids) > 12 else ''} "
                     f"but the schedule has {want[:12]}{'…' if len(want) > 12 else ''} "
                     f"(missing {missing[:6]}, unscheduled {extra[:6]}, duplicated {dup[:6]})")
    return fails


def contiguous(case) -> bool:
    """hypothesis H of emsg_exactly_once: event-timebase intervals abut"""
    sched, rep_ts = case["sched"], case["rep_timescale"]
    iv = [seg_interval(sched, rep_ts, t, d) for t, d in case["run"]]
    return all(iv[i][1] == iv[i + 1][0] for i in range(len(iv) - 1))


# ------------------------------------------------------------------ independent box walker

def walk(data: bytes, off: int = 0, end: int | None = None):
    """yield (type, payload_offset, box_end) of the boxes in data[off:end]"""
    end = len(data) if end is None else end
    while off + 8 <= end:
        size, typ = struct.unpack_from(">I4s", data, off)
        hdr = 8
        if size == 1:
            size = struct.unpack_from(">Q", data, off + 8)[0]
            hdr = 16
        elif size == 0:
            size = end - off
        if size < hdr or off + size > end:
            raise ValueError(f"bad box size {size} at {off}")
        yield typ.decode("latin-1"), off + hdr, off + size
        off += size


def _cstr(data: bytes, off: int, end: int):
    z = data.index(b"\0", off, end)
    return data[off:z].decode("utf-8"), z + 1


def read_emsg(data: bytes, off: int, end: int) -> dict:
    """DASHEventMessageBox payload (after the 8-byte box header)"""
    version = data[off]
    flags = int.from_bytes(data[off + 1:off + 4], "big")
    p = off + 4
    if version == 0:
        scheme, p = _cstr(data, p, end)
        value, p = _cstr(data, p, end)
        ts, delta, dur, eid = struct.unpack_from(">IIII", data, p)
        p += 16
        pt = None
    elif version == 1:
        ts, pt, dur, eid = struct.unpack_from(">IQII", data, p)
        p += 20
        scheme, p = _cstr(data, p, end)
        value, p = _cstr(data, p, end)
        delta = None
    else:
        raise ValueError(f"emsg version {version}")
    return dict(version=version, flags=flags, scheme=scheme, value=value, timescale=ts, duration=dur,
                id=eid, delta=delta, pt=pt, data=bytes(data[p:end]))


def read_segment(data: bytes) -> dict:
    """top-level emsg boxes (with their order relative to moof), tfdt and Σ trun sample durations"""
    out = {"emsg": [], "order_ok": True, "tfdt": None, "trun_duration": None, "types": []}
    seen_moof = False
    for typ, po, pe in walk(data):
        out["types"].append(typ)
        if typ == "emsg":
            out["emsg"].append(read_emsg(data, po, pe))
            if seen_moof:
                out["order_ok"] = False
        elif typ == "moof":
            seen_moof = True
            for t2, po2, pe2 in walk(data, po, pe):
                if t2 != "traf":
                    continue
                default_dur = None
                for t3, po3, pe3 in walk(data, po2, pe2):
                    if t3 == "tfhd":
                        fl = int.from_bytes(data[po3 + 1:po3 + 4], "big")
                        q = po3 + 8
                        if fl & 0x1:
                            q += 8
                        if fl & 0x2:
                            q += 4
                        if fl & 0x8:
                            default_dur = struct.unpack_from(">I", data, q)[0]
                    elif t3 == "tfdt":
                        v = data[po3]
                        out["tfdt"] = struct.unpack_from(">Q" if v == 1 else ">I", data, po3 + 4)[0]
                    elif t3 == "trun":
                        fl = int.from_bytes(data[po3 + 1:po3 + 4], "big")
                        n = struct.unpack_from(">I", data, po3 + 4)[0]
                        q = po3 + 8
                        if fl & 0x1:
                            q += 4
                        if fl & 0x4:
                            q += 4
                        per = 4 * bin(fl & 0xF00).count("1")
                        total = 0
                        for i in range(n):
                            if fl & 0x100:
                                total += struct.unpack_from(">I", data, q)[0]
                            else:
                                total += default_dur or 0
                            q += per
                        out["trun_duration"] = (out["trun_duration"] or 0) + total
    return out
