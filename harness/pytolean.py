"""A small typed translator from a subset of Python (`ast`) to Lean 4 definitions.

Used by gen_timeline.py for the loops of `Representation.generateSegmentTimeline`
(`dashlive/mpeg/dash/representation.py`).  gen_arith.py has the older, untyped
straight-line translator.

Supported subset
----------------
* values: Python `int` (Lean `Int`), `int | None` (`Option Int`), records = instances of a
  `@dataclass` whose fields are `int` / `int | None` (translated field by field:  the variable
  `s_node` becomes the Lean variables `s_node_duration`, `s_node_count`, ...), lists of such records
  that are only ever `append`ed to (`List <Class>`);
* expressions: integer constants, `None`, names, `rec.field`, `self.<attr>` (a parameter),
  `self.segments[i].duration` (`segDur i` for a parameter `segDur : Int → Int`),
  `+ - * //` (`//` is `Int.fdiv`), `x >> k` for a constant k (`Int.fdiv x 2^k`), `int(x)`, `max`, `min`, comparisons `< <= > >= == !=`, `is None`,
  `is not None`, `and`, `or`, `not`;
* statements: assignment / augmented assignment to a name or to `rec.field`, `rec = Class(k=v, ...)`,
  `x = []`, `seg = self.segments[i]` (an alias whose `.duration` is read at the time of the
  assignment – sound because the loop never writes to `self.segments`), `lst.append(rec)`,
  `if / elif / else`, `while` (→ a structurally recursive function over a fuel argument which
  returns the current state when the fuel runs out), calls of local closures (inlined),
  `return`; `assert` and `logging.*` are skipped (asserts are listed in the doc comment).

* `continue` and `break` in a `while` body: two Boolean control variables; after a `continue`/`break`
  every assignment of the iteration is guarded (`x := if skipped then x else v`), and the loop
  stops once the `break` flag is set;
* dictionaries with constant string keys (`kwargs = {'a': 1, …}`, `kwargs['b'] = v`, `Cls(**kwargs)`)
  are records whose keys may be absent (an absent integer key is `none`); values that are not
  integers (strings, bytes) are dropped and listed as skipped;
* `if c: return x` followed by more statements (an early return) becomes `if c then x else <rest>`;
* exceptions and calls (used by gen_liveindex.py): `raise` is translated into a *failure
  condition* – the disjunction of the path conditions of all `raise` statements – and the
  translated function returns `none` when it holds, `some <result>` otherwise (all translated
  expressions are total and pure, so evaluating past a `raise` is harmless); statements that
  precede a `raise` in the same block (logging, message formatting) are not translated;
  `try: … except …: … raise` is translated as its body (every handler must re-raise);
  method calls on known objects are inlined (`a, b, _ = self.m(x)` unpacks the returned tuple);
  calls listed in `ext_calls` / `ext_funcs` / `ext_tuple_funcs` become parameters or calls of
  already translated definitions; conditions whose value is known from the types (`x is None`
  for an `int`, comparisons of string constants such as `mode == 'live'`) are folded, and only
  the live branch of such an `if` is translated – this is how a function with optional
  parameters is specialised to one calling convention.

Aliasing: Python lists hold references.  The translation treats `lst.append(rec)` as appending
the *value* of `rec`; that is only faithful if `rec` is not written to afterwards through the
same object.  The translator tracks this: a record that has been appended is "shared" until the
variable is rebound to a new object, and a field assignment to a shared record (on any path,
including around the loop) raises `CannotTranslate`.

Everything else raises `CannotTranslate` – reported by check.py as a broken translator
obligation (followed by the failing-input search), never papered over.
"""
from __future__ import annotations

import ast
import copy

INT, OPT, PROP, STR, BOOL = "Int", "Option Int", "Prop", "<str>", "Bool"
SKIP, BRK = "__skip", "__brk"      # control variables of a loop body (`continue` / `break`)


class Ret:
    """a block ended with `return`: the returned values"""

    def __init__(self, values, is_tuple):
        self.values, self.is_tuple = values, is_tuple


RAISED = "raised"       # a block ended with `raise` on every path


class CannotTranslate(Exception):
    pass


LEAN_RESERVED = {"end", "from", "at", "do", "then", "else", "if", "let", "fun", "in", "have", "show", "open",
                 "namespace", "section", "def", "theorem", "instance", "structure", "class", "where", "with",
                 "match", "by", "import", "local", "prefix", "infix", "notation", "variable", "universe", "example",
                 "abbrev", "inductive", "mutual", "deriving", "return", "for", "unless", "this", "Type", "Prop", "Sort"}


def lean_ident(key: str) -> str:
    if key in (SKIP, BRK):
        return key.strip("_") + "_"
    k = key.replace(".", "_")
    return k + "_" if k in LEAN_RESERVED else k


class DataClass:
    @classmethod
    def manual(cls, name: str, fields: list) -> "DataClass":
        """an object whose translated fields are declared by the caller (e.g. `self` of a class with __slots__)"""
        d = cls.__new__(cls)
        d.name, d.fields = name, list(fields)
        return d

    def __init__(self, node: ast.ClassDef):
        self.name = node.name
        self.fields: list[tuple[str, str, str]] = []     # (name, type, default lean)
        for s in node.body:
            if isinstance(s, ast.AnnAssign) and isinstance(s.target, ast.Name):
                ann = ast.unparse(s.annotation).replace(" ", "")
                if ann == "int":
                    ty = INT
                elif ann in ("int|None", "None|int", "Optional[int]"):
                    ty = OPT
                else:
                    raise CannotTranslate(f"{node.name}.{s.target.id}: field type {ann}")
                if s.value is None:
                    raise CannotTranslate(f"{node.name}.{s.target.id}: no default")
                if isinstance(s.value, ast.Constant) and s.value.value is None and ty == OPT:
                    d = "none"
                elif isinstance(s.value, ast.Constant) and isinstance(s.value.value, int) and ty == INT:
                    d = f"({s.value.value} : Int)"
                else:
                    raise CannotTranslate(f"{node.name}.{s.target.id}: default {ast.unparse(s.value)}")
                self.fields.append((s.target.id, ty, d))

    def lean(self) -> str:
        fs = "".join(f"  {n} : {t} := {d}\n" for n, t, d in self.fields)
        return f"structure {self.name} where\n{fs}  deriving DecidableEq, Repr\n"


class Ctx:
    """translation state of one straight-line region"""

    def __init__(self):
        self.env: dict[str, tuple[str, str]] = {}    # key ('x' or 'x.f') -> (lean expr, type)
        self.records: dict[str, str] = {}            # variable -> dataclass name
        self.lists: dict[str, str] = {}              # variable -> element class
        self.shared: set[str] = set()                # records appended to a list and not rebound since
        self.lets: list[str] = []
        self.reads: set[str] = set()
        self.writes: list[str] = []
        self.path: list[str] = []                    # conditions under which this region executes
        self.fails: list[str] = []                   # path conditions of the `raise` statements met
        self.early: list = []                        # (path condition, Ret) of `if c: return x` statements

    def fork(self) -> "Ctx":
        c = Ctx()
        c.env, c.records, c.lists, c.shared = dict(self.env), dict(self.records), dict(self.lists), set(self.shared)
        c.lets, c.reads, c.writes, c.fails = self.lets, self.reads, self.writes, self.fails   # shared accumulators
        c.early = self.early
        c.path = list(self.path)
        return c

    def adopt(self, o: "Ctx"):
        self.env, self.records, self.lists, self.shared = o.env, o.records, o.lists, o.shared


class Translator:
    CMP = {ast.Lt: "<", ast.Gt: ">", ast.LtE: "≤", ast.GtE: "≥", ast.Eq: "=", ast.NotEq: "≠"}

    def __init__(self, classes: dict[str, DataClass], attrs: dict[tuple[str, str], str], fname: str,
                 list_class: str | None):
        self.classes = classes
        self.attrs = attrs                   # ("self","x") -> lean parameter name
        self.used_attrs: list[str] = []
        self.fname = fname
        self.list_class = list_class         # element class of `x = []` (from the return annotation)
        self.closures: dict[str, ast.FunctionDef] = {}
        self.loops: list[str] = []
        self.asserts: list[str] = []
        self.counter = 0
        self.ext_calls: dict[str, tuple[str, str]] = {}     # call text -> (lean, type)
        self.ext_funcs: dict[str, str] = {}                 # callee text -> lean function (Int → Int)
        self.ext_tuple_funcs: dict[str, tuple[str, int]] = {}   # callee text -> (lean prefix, arity of result)
        self.methods: dict[tuple[str, str], ast.FunctionDef] = {}   # (object name, method) -> definition
        self.tuple_classes: set[str] = set()                # NamedTuple constructors = tuples
        self.skip_assign: set[str] = set()                  # assignment texts that only create aliases
        self.opaque_calls: set[str] = set()                 # callees whose (non-integer) result is never translated
        self.skipped: list[str] = []

    # ---- expressions ---------------------------------------------------------------------
    def lookup(self, c: Ctx, key: str):
        if key not in c.env:
            raise CannotTranslate(f"{key} is read before it is assigned")
        c.reads.add(key)
        return c.env[key]

    def ex(self, c: Ctx, e) -> tuple[str, str]:
        if not isinstance(e, (ast.Name, ast.Constant)) and ast.unparse(e) in self.ext_calls:
            return self.ext_calls[ast.unparse(e)]
        if isinstance(e, ast.Call):
            ftext = ast.unparse(e.func)
            if ftext in self.ext_funcs and len(e.args) == 1 and not e.keywords:
                a, t = self.ex(c, e.args[0])
                self.need(t, INT, e.args[0])
                return f"({self.ext_funcs[ftext]} {a})", INT
            if ftext in ("max", "min") and len(e.args) == 2 and not e.keywords:
                a, ta = self.ex(c, e.args[0])
                b, tb = self.ex(c, e.args[1])
                self.need(ta, INT, e.args[0])
                self.need(tb, INT, e.args[1])
                return f"({ftext} {a} {b})", INT
        if isinstance(e, ast.Constant):
            if e.value is None:
                return "none", OPT
            if isinstance(e.value, bool):
                return ("True" if e.value else "False"), PROP
            if isinstance(e.value, int):
                return f"({e.value} : Int)", INT
            if isinstance(e.value, str):
                return repr(e.value), STR
            raise CannotTranslate(f"constant {e.value!r}")
        if isinstance(e, ast.Name):
            if e.id in c.records or e.id in c.lists:
                raise CannotTranslate(f"{e.id} used as a value")
            return self.lookup(c, e.id)
        if isinstance(e, ast.Attribute) and isinstance(e.value, ast.Name):
            if e.value.id in c.records:
                return self.lookup(c, f"{e.value.id}.{e.attr}")
            key = (e.value.id, e.attr)
            if key in self.attrs:
                v = self.attrs[key]
                if isinstance(v, tuple):
                    return v
                if v not in self.used_attrs:
                    self.used_attrs.append(v)
                return v, INT
            raise CannotTranslate(f"unknown attribute {ast.unparse(e)}")
        if (isinstance(e, ast.Subscript) and isinstance(e.value, ast.Name) and c.records.get(e.value.id) == "__dict__"
                and isinstance(e.slice, ast.Constant) and isinstance(e.slice.value, str)):
            v, t = self.lookup(c, f"{e.value.id}.{e.slice.value}")
            if t != INT:
                raise CannotTranslate(f"{ast.unparse(e)} may be absent")
            return v, t
        if isinstance(e, ast.Attribute) and e.attr == "duration" and self.is_segment(e):
            i, t = self.ex(c, e.value.slice)
            self.need(t, INT, e)
            return f"(segDur {i})", INT
        if isinstance(e, ast.BinOp):
            a, ta = self.ex(c, e.left)
            b, tb = self.ex(c, e.right)
            self.need(ta, INT, e.left)
            self.need(tb, INT, e.right)
            if isinstance(e.op, ast.Add):
                return f"({a} + {b})", INT
            if isinstance(e.op, ast.Sub):
                return f"({a} - {b})", INT
            if isinstance(e.op, ast.Mult):
                return f"({a} * {b})", INT
            if isinstance(e.op, ast.FloorDiv):
                return f"(Int.fdiv {a} {b})", INT
            if isinstance(e.op, ast.RShift) and isinstance(e.right, ast.Constant) and isinstance(e.right.value, int) \
                    and e.right.value >= 0:
                return f"(Int.fdiv {a} ({2 ** e.right.value} : Int))", INT
            raise CannotTranslate(f"operator {type(e.op).__name__}")
        if isinstance(e, ast.Call) and isinstance(e.func, ast.Name) and e.func.id == "int" \
                and len(e.args) == 1 and not e.keywords:
            return self.ex(c, e.args[0])
        if isinstance(e, ast.Compare) and len(e.ops) == 1:
            op = e.ops[0]
            a, ta = self.ex(c, e.left)
            b, tb = self.ex(c, e.comparators[0])
            if isinstance(op, (ast.Is, ast.IsNot)) and b == "none" and (ta == INT or a == "none"):
                # known from the type: an int is never None / the value is the constant None
                return ("True" if (a == "none") == isinstance(op, ast.Is) else "False"), PROP
            if ta == STR and tb == STR and isinstance(op, (ast.Eq, ast.NotEq)):
                return ("True" if (a == b) == isinstance(op, ast.Eq) else "False"), PROP
            if isinstance(op, (ast.Is, ast.IsNot)):
                if b != "none" or ta != OPT:
                    raise CannotTranslate(f"`is` only against None on an optional: {ast.unparse(e)}")
                return f"({a} {'=' if isinstance(op, ast.Is) else '≠'} none)", PROP
            if type(op) not in self.CMP:
                raise CannotTranslate(f"comparison {ast.unparse(e)}")
            if ta != tb:
                if isinstance(op, (ast.Eq, ast.NotEq)) and {ta, tb} == {INT, OPT}:
                    # Python: an int never equals None, so lifting the int side with `some` is exact
                    a = f"(some {a})" if ta == INT else a
                    b = f"(some {b})" if tb == INT else b
                else:
                    raise CannotTranslate(f"comparison between {ta} and {tb}: {ast.unparse(e)}")
            elif ta == OPT and not isinstance(op, (ast.Eq, ast.NotEq)):
                raise CannotTranslate(f"ordering of optionals: {ast.unparse(e)}")
            return f"({a} {self.CMP[type(op)]} {b})", PROP
        if isinstance(e, ast.BoolOp):
            parts = []
            is_and = isinstance(e.op, ast.And)
            for v in e.values:
                s, t = self.ex(c, v)
                self.need(t, PROP, v)
                if s == ("False" if is_and else "True"):
                    return s, PROP
                if s != ("True" if is_and else "False"):
                    parts.append(s)
            if not parts:
                return ("True" if is_and else "False"), PROP
            if len(parts) == 1:
                return parts[0], PROP
            return "(" + (" ∧ " if is_and else " ∨ ").join(parts) + ")", PROP
        if isinstance(e, ast.UnaryOp) and isinstance(e.op, ast.Not):
            s, t = self.ex(c, e.operand)
            self.need(t, PROP, e.operand)
            if s in ("True", "False"):
                return ("False" if s == "True" else "True"), PROP
            return f"(¬ {s})", PROP
        raise CannotTranslate(f"expression {ast.unparse(e)}")

    @staticmethod
    def is_segment(e) -> bool:
        """`self.segments[<i>]` possibly followed by `.duration`"""
        if isinstance(e, ast.Attribute):
            e = e.value
        return (isinstance(e, ast.Subscript) and isinstance(e.value, ast.Attribute) and e.value.attr == "segments"
                and isinstance(e.value.value, ast.Name) and e.value.value.id == "self")

    @staticmethod
    def need(t, want, node):
        if t != want:
            raise CannotTranslate(f"{ast.unparse(node)} has type {t}, {want} expected")

    # ---- statements ----------------------------------------------------------------------
    def bind(self, c: Ctx, key: str, lean: str, ty: str):
        sk = c.env.get(SKIP)
        if sk is not None and sk[0] != "false" and key != SKIP and key in c.env and c.env[key][1] == ty:
            # after a `continue`/`break` on some path of this iteration: keep the old value there
            lean = f"(if {sk[0]} = true then {c.env[key][0]} else {lean})"
        self.counter += 1
        name = f"{lean_ident(key)}_{self.counter}"
        c.lets.append(f"let {name} : {ty} := {lean}")
        c.env[key] = (name, ty)
        if key not in c.writes:
            c.writes.append(key)

    def coerce(self, lean: str, have: str, want: str, node) -> str:
        if have == want:
            return lean
        if have == INT and want == OPT:
            return f"(some {lean})"
        raise CannotTranslate(f"{ast.unparse(node)}: {have} assigned where {want} is expected")

    def assign_field(self, c: Ctx, rec: str, field: str, lean: str, ty: str, node):
        if rec in c.shared:
            raise CannotTranslate(f"{rec}.{field} is written after {rec} was appended to a list "
                                  f"(the list element would change too: aliasing)")
        cls = self.classes[c.records[rec]]
        want = next((t for n, t, _ in cls.fields if n == field), None)
        if want is None:
            raise CannotTranslate(f"{cls.name} has no field {field}")
        self.bind(c, f"{rec}.{field}", self.coerce(lean, ty, want, node), want)

    def block(self, c: Ctx, body):
        """translate statements; returns None, a `Ret` (the block ends with `return`) or RAISED"""
        if body and isinstance(body[-1], ast.Raise):
            # nothing computed in a block that ends with `raise` can reach the caller
            self.skipped.extend(ast.unparse(x)[:80] for x in body[:-1])
            c.fails.append("(" + " ∧ ".join(c.path) + ")" if c.path else "True")
            return RAISED
        for idx, s in enumerate(body):
            if isinstance(s, ast.Expr) and isinstance(s.value, ast.Constant) and isinstance(s.value.value, str):
                continue
            if isinstance(s, ast.Assert):
                self.asserts.append(ast.unparse(s.test))
                continue
            if isinstance(s, ast.FunctionDef):
                self.closures[s.name] = s
                continue
            if isinstance(s, ast.Expr) and isinstance(s.value, ast.Call):
                f = s.value.func
                if isinstance(f, ast.Attribute) and isinstance(f.value, ast.Name) and f.value.id == "logging":
                    continue
                if isinstance(f, ast.Name) and f.id in self.closures:
                    self.inline(c, self.closures[f.id], s.value)
                    continue
                if (isinstance(f, ast.Attribute) and f.attr == "append" and isinstance(f.value, ast.Name)
                        and f.value.id in c.lists and len(s.value.args) == 1
                        and isinstance(s.value.args[0], ast.Name) and s.value.args[0].id in c.records):
                    lst, rec = f.value.id, s.value.args[0].id
                    cls = self.classes[c.records[rec]]
                    if cls.name != c.lists[lst]:
                        raise CannotTranslate(f"{lst}.append({rec}): element class")
                    fields = ", ".join(f"{n} := {self.lookup(c, f'{rec}.{n}')[0]}" for n, _, _ in cls.fields)
                    cur = self.lookup(c, lst)[0]
                    self.bind(c, lst, f"({cur} ++ [{{ {fields} }}])", f"List {cls.name}")
                    c.shared.add(rec)
                    continue
                if (isinstance(f, ast.Attribute) and f.attr == "append" and isinstance(f.value, ast.Name)
                        and f.value.id in c.lists and len(s.value.args) == 1 and isinstance(s.value.args[0], ast.Call)
                        and isinstance(s.value.args[0].func, ast.Name) and s.value.args[0].func.id in self.classes):
                    # lst.append(Cls(...)): a fresh object, appended at once
                    self.counter += 1
                    tmp = f"tmp{self.counter}"
                    self.assign(c, ast.Name(id=tmp, ctx=ast.Store()), s.value.args[0])
                    body2 = ast.parse(f"{f.value.id}.append({tmp})").body
                    r = self.block(c, body2)
                    assert r is None
                    continue
                raise CannotTranslate(f"call {ast.unparse(s)[:60]}")
            if isinstance(s, ast.Assign) and len(s.targets) == 1:
                if ast.unparse(s) in self.skip_assign or isinstance(s.value, ast.JoinedStr):
                    self.skipped.append(ast.unparse(s)[:80])
                    continue
                if self.assign(c, s.targets[0], s.value) is RAISED:
                    return RAISED
                continue
            if isinstance(s, ast.AnnAssign):
                if s.value is not None and self.assign(c, s.target, s.value) is RAISED:
                    return RAISED
                continue
            if isinstance(s, ast.Try) and not s.orelse and not s.finalbody and s.handlers \
                    and all(h.body and isinstance(h.body[-1], ast.Raise) for h in s.handlers):
                r = self.block(c, s.body)
                if r is RAISED:
                    return RAISED
                if r is not None:
                    raise CannotTranslate("return inside `try`")
                continue
            if isinstance(s, ast.AugAssign) and isinstance(s.op, (ast.Add, ast.Sub)):
                cur, tc = self.ex(c, self.as_load(s.target))
                v, tv = self.ex(c, s.value)
                self.need(tc, INT, s.target)
                self.need(tv, INT, s.value)
                op = "+" if isinstance(s.op, ast.Add) else "-"
                self.store(c, s.target, f"({cur} {op} {v})", INT)
                continue
            if isinstance(s, ast.If):
                r = self.if_stmt(c, s)
                if r is RAISED:
                    return RAISED
                if r is not None:
                    # only an `if` whose condition was folded can return: the rest of the block is dead
                    self.skipped.extend("dead: " + ast.unparse(x)[:70] for x in body[idx + 1:])
                    return r
                continue
            if isinstance(s, (ast.Continue, ast.Break)):
                if SKIP not in c.env:
                    raise CannotTranslate(f"`{ast.unparse(s)}` outside a translated loop")
                if idx != len(body) - 1:
                    raise CannotTranslate(f"statements after `{ast.unparse(s)}`")
                if isinstance(s, ast.Break):
                    self.bind(c, BRK, "true", BOOL)
                self.bind(c, SKIP, "true", BOOL)
                continue
            if isinstance(s, ast.While) and not s.orelse:
                self.while_loop(c, s)
                continue
            if isinstance(s, ast.Return):
                if idx != len(body) - 1:
                    raise CannotTranslate("return in the middle of a block")
                if isinstance(s.value, ast.Name) and s.value.id in c.lists:
                    return Ret([self.lookup(c, s.value.id)], False)
                if isinstance(s.value, ast.List) and not s.value.elts and self.list_class:
                    return Ret([("[]", f"List {self.list_class}")], False)
                vals = self.values(c, s.value)
                if vals is RAISED:
                    return RAISED
                return Ret(vals, isinstance(s.value, ast.Tuple) or len(vals) != 1)
            raise CannotTranslate(f"statement {ast.unparse(s)[:60]}")
        return None

    @staticmethod
    def as_load(t):
        t = copy.deepcopy(t)
        t.ctx = ast.Load()
        return t

    def store(self, c: Ctx, target, lean: str, ty: str):
        if isinstance(target, ast.Name):
            if target.id in c.records or target.id in c.lists:
                raise CannotTranslate(f"{target.id} rebound to a scalar")
            self.bind(c, target.id, lean, ty)
        elif isinstance(target, ast.Attribute) and isinstance(target.value, ast.Name) and target.value.id in c.records:
            self.assign_field(c, target.value.id, target.attr, lean, ty, target)
        elif (isinstance(target, ast.Subscript) and isinstance(target.value, ast.Name)
              and c.records.get(target.value.id) == "__dict__" and isinstance(target.slice, ast.Constant)
              and isinstance(target.slice.value, str)):
            if target.value.id in c.shared:
                raise CannotTranslate(f"{ast.unparse(target)} is written after the dictionary was used to build an object")
            if ty != INT:
                raise CannotTranslate(f"{ast.unparse(target)}: only integers are stored in a translated dictionary")
            self.bind(c, f"{target.value.id}.{target.slice.value}", lean, INT)
        else:
            raise CannotTranslate(f"assignment target {ast.unparse(target)}")

    def values(self, c: Ctx, e):
        """the values of a (possibly tuple-valued) expression: a list of (lean, type), or RAISED"""
        if isinstance(e, ast.Tuple):
            return [self.ex(c, x) for x in e.elts]
        if isinstance(e, ast.Call):
            ftext = ast.unparse(e.func)
            if isinstance(e.func, ast.Name) and e.func.id in self.tuple_classes and not e.keywords:
                return [self.ex(c, x) for x in e.args]
            if ftext in self.ext_tuple_funcs and not e.keywords:
                pre, n = self.ext_tuple_funcs[ftext]
                args = []
                for a in e.args:
                    v, t = self.ex(c, a)
                    self.need(t, INT, a)
                    args.append(v)
                self.counter += 1
                name = f"t_{self.counter}"
                c.lets.append(f"let {name} : {' × '.join(['Int'] * n)} := {pre} {' '.join(args)}")
                return [(name + ".2" * i + (".1" if i < n - 1 else ""), INT) for i in range(n)]
            if (isinstance(e.func, ast.Attribute) and isinstance(e.func.value, ast.Name)
                    and (e.func.value.id, e.func.attr) in self.methods and not e.keywords):
                return self.inline_method(c, self.methods[(e.func.value.id, e.func.attr)], e.args)
        return [self.ex(c, e)]

    def inline_method(self, c: Ctx, fn: ast.FunctionDef, args):
        params = [a.arg for a in fn.args.args][1:]
        if len(params) != len(args):
            raise CannotTranslate(f"call of {fn.name}: arity")
        nc = Ctx()
        nc.lets, nc.reads, nc.writes, nc.fails = c.lets, c.reads, c.writes, c.fails
        nc.path = list(c.path)
        n_early = len(nc.early)
        for p, a in zip(params, args):
            nc.env[p] = self.ex(c, a)
        r = self.block(nc, fn.body)
        if r is RAISED:
            return RAISED
        if r is None:
            raise CannotTranslate(f"{fn.name} does not end with `return`")
        if len(nc.early) != n_early:
            raise CannotTranslate(f"early return in the inlined method {fn.name}")
        return r.values

    def assign(self, c: Ctx, target, value):
        if isinstance(value, ast.Call) and ast.unparse(value.func) in self.opaque_calls and isinstance(target, ast.Name):
            # a value outside the translated subset (bytes, str): the name stays unbound, any read of it fails
            self.skipped.append(ast.unparse(target) + " = " + ast.unparse(value)[:60])
            c.env.pop(target.id, None)
            return None
        if isinstance(target, ast.Tuple):
            vals = self.values(c, value)
            if vals is RAISED:
                return RAISED
            if len(vals) != len(target.elts):
                raise CannotTranslate(f"unpacking {ast.unparse(target)}")
            for t, (v, ty) in zip(target.elts, vals):
                if isinstance(t, ast.Name) and t.id == "_":
                    continue
                self.store(c, t, v, ty)
            return None
        if isinstance(target, ast.Name):
            name = target.id
            # d = {'k': v, ...}: a record with the (integer-valued) keys as fields
            if isinstance(value, ast.Dict) and value.keys and all(
                    isinstance(k, ast.Constant) and isinstance(k.value, str) for k in value.keys):
                if name in c.env or name in c.lists:
                    raise CannotTranslate(f"{name} rebound to a dictionary")
                c.records[name] = "__dict__"
                c.shared.discard(name)
                for old in [k for k in c.env if k.startswith(name + ".")]:
                    del c.env[old]
                for k, v in zip(value.keys, value.values):
                    try:
                        lv, tv = self.ex(c, v)
                    except CannotTranslate:
                        lv, tv = None, None
                    if tv == INT:
                        self.bind(c, f"{name}.{k.value}", lv, INT)
                    else:
                        self.skipped.append(f"dictionary value {name}[{k.value!r}] = {ast.unparse(v)[:40]} (not an integer)")
                return
            # rec = Class(**d)
            if (isinstance(value, ast.Call) and isinstance(value.func, ast.Name) and value.func.id in self.classes
                    and not value.args and len(value.keywords) == 1 and value.keywords[0].arg is None
                    and isinstance(value.keywords[0].value, ast.Name)
                    and c.records.get(value.keywords[0].value.id) == "__dict__"):
                d = value.keywords[0].value.id
                cls = self.classes[value.func.id]
                have = {k[len(d) + 1:] for k in c.env if k.startswith(d + ".")}
                if have - {n for n, _, _ in cls.fields}:
                    raise CannotTranslate(f"{cls.name} has no field(s) {sorted(have - {n for n, _, _ in cls.fields})}")
                if name in c.env or name in c.lists:
                    raise CannotTranslate(f"{name} rebound to a record")
                c.records[name] = cls.name
                c.shared.discard(name)
                c.shared.add(d)          # the object was built from the dictionary's current contents
                for n, t, dflt in cls.fields:
                    if n in have:
                        v, tv = self.lookup(c, f"{d}.{n}")
                        self.bind(c, f"{name}.{n}", self.coerce(v, tv, t, value), t)
                    else:
                        self.bind(c, f"{name}.{n}", dflt, t)
                return
            # rec = Class(k=v, ...)
            if isinstance(value, ast.Call) and isinstance(value.func, ast.Name) and value.func.id in self.classes:
                if value.args:
                    raise CannotTranslate("positional constructor arguments")
                cls = self.classes[value.func.id]
                kw = {k.arg: k.value for k in value.keywords}
                if set(kw) - {n for n, _, _ in cls.fields}:
                    raise CannotTranslate(f"unknown field in {ast.unparse(value)}")
                vals = {}
                for n, t, d in cls.fields:
                    if n in kw:
                        v, tv = self.ex(c, kw[n])
                        vals[n] = (self.coerce(v, tv, t, kw[n]), t)
                    else:
                        vals[n] = (d, t)
                if name in c.env or name in c.lists:
                    raise CannotTranslate(f"{name} rebound to a record")
                c.records[name] = cls.name
                c.shared.discard(name)
                for n, (v, t) in vals.items():
                    self.bind(c, f"{name}.{n}", v, t)
                return
            # x = []
            if isinstance(value, ast.List) and not value.elts:
                if self.list_class is None:
                    raise CannotTranslate("empty list of unknown element type")
                if name in c.env and name not in c.lists:
                    raise CannotTranslate(f"{name} rebound to a list")
                c.lists[name] = self.list_class
                self.bind(c, name, "[]", f"List {self.list_class}")
                return
            # seg = self.segments[i]
            if self.is_segment(value) and isinstance(value, ast.Subscript):
                i, t = self.ex(c, value.slice)
                self.need(t, INT, value.slice)
                c.records[name] = "__segment__"
                self.bind(c, f"{name}.duration", f"(segDur {i})", INT)
                return
        vals = self.values(c, value)
        if vals is RAISED:
            return RAISED
        if len(vals) != 1:
            raise CannotTranslate(f"tuple stored in {ast.unparse(target)}")
        v, t = vals[0]
        if t in (PROP, STR):
            raise CannotTranslate(f"non-integer value stored: {ast.unparse(value)}")
        self.store(c, target, v, t)
        return None

    def inline(self, c: Ctx, fn: ast.FunctionDef, call: ast.Call):
        params = [a.arg for a in fn.args.args]
        if len(params) != len(call.args) or call.keywords or not all(isinstance(a, ast.Name) for a in call.args):
            raise CannotTranslate(f"call {ast.unparse(call)}")
        ren = {p: a.id for p, a in zip(params, call.args)}

        class R(ast.NodeTransformer):
            def visit_Name(self, n):
                return ast.copy_location(ast.Name(id=ren.get(n.id, n.id), ctx=n.ctx), n)
        body = [R().visit(copy.deepcopy(s)) for s in fn.body]
        # `if <cond>: return` as the first statement = guard around the rest
        if (body and isinstance(body[0], ast.If) and not body[0].orelse and len(body[0].body) == 1
                and isinstance(body[0].body[0], ast.Return) and body[0].body[0].value is None):
            guard = ast.If(test=ast.UnaryOp(op=ast.Not(), operand=body[0].test), body=body[1:], orelse=[])
            body = [guard] if body[1:] else []
        if self.block(c, body) is not None:
            raise CannotTranslate(f"closure {fn.name} returns a value or raises")

    def merge(self, c: Ctx, cond: str, a: Ctx, b: Ctx):
        if set(a.records) != set(b.records) or any(a.records[k] != b.records[k] for k in a.records) or a.lists != b.lists:
            raise CannotTranslate("a record or list exists on one branch only")
        c.records, c.lists = dict(a.records), dict(a.lists)
        c.shared = a.shared | b.shared
        for key in list(dict.fromkeys(list(a.env) + list(b.env))):
            if key in a.env and key in b.env:
                (x, tx), (y, ty) = a.env[key], b.env[key]
                if tx != ty:
                    raise CannotTranslate(f"{key} has type {tx} on one branch and {ty} on the other")
                if x == y:
                    c.env[key] = (x, tx)
                else:
                    self.bind(c, key, f"(if {cond} then {x} else {y})", tx)
            elif "." in key and c.records.get(key.split(".")[0]) == "__dict__":
                # a dictionary key set on one branch only: present there, absent (none) on the other
                side = a if key in a.env else b
                x, tx = side.env[key]
                some = x if tx == OPT else f"(some {x})"
                self.bind(c, key, f"(if {cond} then {some} else none)" if side is a else f"(if {cond} then none else {some})", OPT)
            else:
                c.env.pop(key, None)          # assigned on one branch only: not usable afterwards

    def if_stmt(self, c: Ctx, s: ast.If):
        cond, t = self.ex(c, s.test)
        self.need(t, PROP, s.test)
        if cond in ("True", "False"):
            # decided by the types / constants: only the live branch is translated
            dead = s.orelse if cond == "True" else s.body
            self.skipped.extend("dead: " + ast.unparse(x)[:70] for x in dead)
            return self.block(c, s.body if cond == "True" else s.orelse)
        a, b = c.fork(), c.fork()
        a.path.append(cond)
        b.path.append(f"(¬ {cond})")
        ra, rb = self.block(a, s.body), self.block(b, s.orelse)
        if isinstance(ra, Ret) and isinstance(rb, Ret):
            raise CannotTranslate("both branches of an `if` return")
        # `if c: return x` – an early return: recorded with its path condition; the caller builds
        # `if c then x else <rest>` (earlier returns first; all expressions are total and pure)
        if isinstance(ra, Ret):
            c.early.append(("(" + " ∧ ".join(a.path) + ")", ra))
            ra = RAISED
        if isinstance(rb, Ret):
            c.early.append(("(" + " ∧ ".join(b.path) + ")", rb))
            rb = RAISED
        if ra is RAISED and rb is RAISED:
            return RAISED
        if ra is RAISED:
            c.adopt(b)
        elif rb is RAISED:
            c.adopt(a)
        else:
            self.merge(c, cond, a, b)
        return None

    def while_loop(self, c: Ctx, w: ast.While):
        outer_ctrl = {k: c.env[k] for k in (SKIP, BRK) if k in c.env}
        if outer_ctrl.get(SKIP, ("false",))[0] != "false":
            raise CannotTranslate("a loop after a `continue`/`break` of an enclosing loop body")
        c.env.pop(SKIP, None)
        c.env[BRK] = ("false", BOOL)

        def attempt(shared_at_entry: set):
            inner = Ctx()
            inner.records, inner.lists = dict(c.records), dict(c.lists)
            inner.shared = set(shared_at_entry)
            inner.env = {k: (lean_ident(k), t) for k, (_, t) in c.env.items()}
            inner.env[SKIP] = ("false", BOOL)
            save_counter = self.counter
            cond, t = self.ex(inner, w.test)
            self.need(t, PROP, w.test)
            if self.block(inner, w.body) is not None or inner.early or inner.fails:
                raise CannotTranslate("return or raise inside `while`")
            return inner, cond, save_counter
        inner, cond, _ = attempt(c.shared)
        if inner.shared - c.shared:
            # a record appended in one iteration is still the same object in the next one
            inner, cond, _ = attempt(inner.shared)
        # records created inside the body are locals of one iteration: they are not in the environment at
        # the start of the next one, so a read before re-creation fails the translation
        if inner.lists != c.lists:
            raise CannotTranslate("a list is created inside the loop")
        state = [k for k in inner.writes if k in c.env]
        if BRK in state:
            cond = f"((({lean_ident(BRK)} = false)) ∧ {cond})"
        for k in state:
            if inner.env[k][1] != c.env[k][1]:
                raise CannotTranslate(f"{k} changes type in the loop")
        free = sorted(k for k in inner.reads if k in c.env and k not in state)
        attrs = [a for a in self.used_attrs]
        # attributes used inside the loop only (those used in the loop text)
        loop_src = ast.unparse(w)
        attrs = [lean for (obj, at), lean in self.attrs.items() if f"{obj}.{at}" in loop_src]
        lname = f"{self.fname}_while{len(self.loops) + 1}"
        ty = lambda k: c.env[k][1]
        params = "".join(f" ({lean_ident(k)} : {ty(k)})" for k in free) + "".join(f" ({a} : Int)" for a in attrs)
        pat = ", ".join(lean_ident(k) for k in state)
        sty = [f"({ty(k)})" for k in state]
        lets = "".join(f"      {l}\n" for l in inner.lets)
        named = " ".join(f"({lean_ident(k)} := {lean_ident(k)})" for k in free) + " " + \
            " ".join(f"({a} := {a})" for a in attrs)
        rec_args = " ".join(inner.env[k][0] for k in state)
        self.loops.append(
            f"/-- the `while {ast.unparse(w.test)}` loop of `{self.fname}`;\nstate ({pat}) -/\n"
            f"def {lname} (segDur : Int → Int){params} :\n    Nat → {' → '.join(sty)} → {' × '.join(sty)}\n"
            f"  | 0, {pat} => ({pat})\n"
            f"  | fuel+1, {pat} =>\n"
            f"    if {cond} then\n{lets}"
            f"      {lname} segDur {named} fuel {rec_args}\n"
            f"    else ({pat})\n")
        self.counter += 1
        res = f"w_{self.counter}"
        call_named = " ".join(f"({lean_ident(k)} := {c.env[k][0]})" for k in free) + " " + \
            " ".join(f"({a} := {a})" for a in attrs)
        for k in free:
            c.reads.add(k)
        c.lets.append(f"let {res} : {' × '.join(sty)} := {lname} segDur {call_named} fuel "
                      + " ".join(c.env[k][0] for k in state))
        for i, k in enumerate(state):
            proj = res + ".2" * i + (".1" if i < len(state) - 1 else "")
            self.bind(c, k, proj, ty(k))
        c.shared |= {r for r in inner.shared if r in c.records}
        c.env.pop(BRK, None)
        c.env.pop(SKIP, None)
        c.env.update(outer_ctrl)
