"""c18_run – drive the real bundled `DashValidator` in-process against the real Flask app
(as upstream's tests/mixins/check_manifest.py does) through an HTTP-client adapter that can
rewrite exactly one response of the session, under a controlled clock that advances whenever
the validator sleeps.

Everything the correspondence / oracle layers need is recorded while the session runs:

* every exchange (class manifest|patch|init|media, representation, URL, status, the bytes the
  validator was given, whether they were rewritten),
* per `validate()` pass and per Representation a snapshot of the generated `MediaSegment`
  expectations *before* the pass (after `prefetch_media_info()` / `refresh()`) and of the
  expectations, parsed values and errors *after* it,
* the final error list with the manifest line range the validator attaches to each error.

No verdict is taken here; see props/c18.py.
"""
from __future__ import annotations

import asyncio
import dataclasses
import datetime
import logging
import re
import struct
import time
import urllib.parse
from concurrent.futures import ThreadPoolExecutor
from typing import Any, Optional
from unittest import mock

from lxml import etree

import appboot
import mp4walk

DASH_NS = "urn:mpeg:dash:schema:mpd:2011"
NS = {"d": DASH_NS}
HOST = "http://localhost"
MAX_LOOPS = {"live": 100, "vod": 2, "odvod": 2}       # upstream's own refresh budget (check_manifest.py)


# --------------------------------------------------------------------------- cases

@dataclasses.dataclass
class Case:
    stream: str
    template: str
    mode: str                      # live | vod
    query: dict
    duration: int                  # ValidatorOptions.duration (seconds of media to check)
    now: str                       # ISO clock at session start
    corruption: Optional[dict] = None
    break_on_error: bool = True    # upstream's driver stops at the first pass that has errors

    def path(self) -> str:
        q = "&".join(f"{k}={v}" for k, v in self.query.items())
        return f"/dash/{self.mode}/{self.stream}/{self.template}" + (f"?{q}" if q else "")

    def encrypted(self) -> bool:
        return self.query.get("drm", "none") not in ("none", "")

    def json(self) -> dict:
        return dataclasses.asdict(self)

    @staticmethod
    def from_json(j: dict) -> "Case":
        return Case(**j)

    def key(self):
        return (self.stream, self.template, self.mode, tuple(sorted(self.query.items())), self.duration,
                self.now, repr(sorted((self.corruption or {}).items())))


# --------------------------------------------------------------------------- corruptions

class CorruptionError(Exception):
    """the selected response cannot carry this corruption (box/attribute absent)"""


def _put(data: bytes, pos: int, fmt: str, value: int) -> bytes:
    return data[:pos] + struct.pack(fmt, value) + data[pos + struct.calcsize(fmt):]


def corrupt_tfdt(data: bytes, delta: int):
    boxes = mp4walk.walk(data)
    b = mp4walk.find(boxes, "moof/traf/tfdt")
    if b is None:
        raise CorruptionError("no tfdt")
    v1 = b.fields["version"] == 1
    old = b.fields["base_media_decode_time"]
    new = old + delta
    if new < 0 or new >= (1 << (64 if v1 else 32)):
        raise CorruptionError("tfdt out of range")
    return _put(data, b.payload_start + 4, ">Q" if v1 else ">I", new), {"old": old, "new": new}


def corrupt_mfhd(data: bytes, delta: int):
    b = mp4walk.find(mp4walk.walk(data), "moof/mfhd")
    if b is None:
        raise CorruptionError("no mfhd")
    old = b.fields["sequence_number"]
    new = old + delta
    if not 0 <= new < 1 << 32:
        raise CorruptionError("mfhd out of range")
    return _put(data, b.payload_start + 4, ">I", new), {"old": old, "new": new}


def corrupt_trun(data: bytes, delta: int):
    b = mp4walk.find(mp4walk.walk(data), "moof/traf/trun")
    if b is None or b.fields.get("data_offset_pos") is None:
        raise CorruptionError("no trun data_offset")
    old = b.fields["data_offset"]
    new = old + delta
    if not -(1 << 31) <= new < 1 << 31:
        raise CorruptionError("trun offset out of range")
    return _put(data, b.fields["data_offset_pos"], ">i", new), {"old": old, "new": new}


def corrupt_saio(data: bytes, delta: int):
    b = mp4walk.find(mp4walk.walk(data), "moof/traf/saio")
    if b is None or not b.fields["offsets"]:
        raise CorruptionError("no saio")
    v1 = b.fields["version"] == 1
    old = b.fields["offsets"][0]
    new = old + delta
    if new < 0:
        raise CorruptionError("saio offset negative")
    return _put(data, b.fields["offsets_pos"], ">Q" if v1 else ">I", new), {"old": old, "new": new}


MEDIA_HEADERS = {"vmhd", "smhd", "hmhd", "sthd", "nmhd"}


def drop_box(data: bytes, path: str):
    """remove the first box matching `path`, fixing the 32-bit sizes of its ancestors"""
    boxes = mp4walk.walk(data)
    parts = path.split("/")
    chain = []
    cur = boxes
    for p in parts:
        if p.startswith("*"):
            nxt = next((b for b in cur if b.type.endswith(p[1:]) and b.type in MEDIA_HEADERS), None)
        else:
            nxt = next((b for b in cur if b.type == p), None)
        if nxt is None:
            raise CorruptionError(f"no {path}")
        chain.append(nxt)
        cur = nxt.children
    victim = chain[-1]
    out = bytearray(data)
    for anc in chain[:-1]:
        (sz,) = struct.unpack(">I", out[anc.start:anc.start + 4])
        if sz < 2:
            raise CorruptionError("64-bit ancestor size")
        out[anc.start:anc.start + 4] = struct.pack(">I", sz - victim.size)
    del out[victim.start:victim.end]
    return bytes(out), {"dropped": "/".join(b.type for b in chain), "size": victim.size}


def _q(tag: str) -> str:
    return f"{{{DASH_NS}}}{tag}"


def _serialise(root) -> bytes:
    return etree.tostring(root, xml_declaration=True, encoding="UTF-8")


def mpd_drop_attr(xml: bytes, xpath: str, attr: str):
    root = etree.fromstring(xml)
    hits = root.xpath(xpath, namespaces=NS)
    if not hits:
        raise CorruptionError(f"no element {xpath}")
    el = hits[0]
    if el.get(attr) is None:
        raise CorruptionError(f"no attribute {attr}")
    old = el.get(attr)
    del el.attrib[attr]
    return _serialise(root), {"xpath": xpath, "attr": attr, "old": old}


def mpd_shift_ast(xml: bytes, seconds: int):
    root = etree.fromstring(xml)
    old = root.get("availabilityStartTime")
    if old is None:
        raise CorruptionError("no availabilityStartTime")
    m = re.match(r"^(\d{4})-(\d\d)-(\d\d)T(\d\d):(\d\d):(\d\d)(\.\d+)?Z$", old)
    if not m:
        raise CorruptionError(f"unparsed AST {old}")
    dt = datetime.datetime(*[int(m.group(i)) for i in range(1, 7)]) + datetime.timedelta(seconds=seconds)
    new = dt.strftime("%Y-%m-%dT%H:%M:%S") + (m.group(7) or "") + "Z"
    root.set("availabilityStartTime", new)
    return _serialise(root), {"old": old, "new": new}


def mpd_change_id(xml: bytes, suffix: str):
    root = etree.fromstring(xml)
    old = root.get("id")
    new = (old or "") + suffix
    root.set("id", new)
    return _serialise(root), {"old": old, "new": new}


def timeline_expand(tl) -> list:
    """independent DASH reading of a SegmentTimeline element: [(t, d)]"""
    out = []
    t = 0
    for s in tl.findall(_q("S")):
        if s.get("t") is not None:
            t = int(s.get("t"))
        d = int(s.get("d"))
        for _ in range(int(s.get("r", "0")) + 1):
            out.append((t, d))
            t += d
    return out


def timeline_rebuild(tl, entries: list) -> None:
    """replace the S children by one S per entry, with @t exactly where the list is discontinuous"""
    for s in tl.findall(_q("S")):
        tl.remove(s)
    prev_end = None
    for t, d in entries:
        s = etree.SubElement(tl, _q("S"))
        s.set("d", str(d))
        if prev_end is None or t != prev_end:
            s.set("t", str(t))
        prev_end = t + d


def mpd_timeline(xml: bytes, which: int, op: str, index: int, amount: int = 0):
    """op = gap   : drop expanded entry `index` (later entries keep their times → a hole)
       op = shift : drop expanded entry `index` and let later entries follow on (all later times wrong)
       op = dur   : add `amount` to the duration of entry `index`, later entries follow on"""
    root = etree.fromstring(xml)
    tls = root.findall(f".//{_q('SegmentTimeline')}")
    if which >= len(tls):
        raise CorruptionError("no such SegmentTimeline")
    tl = tls[which]
    ent = timeline_expand(tl)
    if not 0 < index < len(ent) - 1:
        raise CorruptionError("timeline too short for an interior edit")
    old = list(ent)
    if op == "gap":
        ent = ent[:index] + ent[index + 1:]
    elif op == "shift":
        removed = ent[index][1]
        ent = ent[:index] + [(t - removed, d) for t, d in ent[index + 1:]]
    elif op == "dur":
        t, d = ent[index]
        if d + amount <= 0:
            raise CorruptionError("non-positive duration")
        ent = ent[:index] + [(t, d + amount)] + [(t2 + amount, d2) for t2, d2 in ent[index + 1:]]
    else:
        raise CorruptionError(f"unknown timeline op {op}")
    timeline_rebuild(tl, ent)
    owner = tl.getparent().getparent()
    return _serialise(root), {"op": op, "index": index, "owner": owner.tag.split('}')[1],
                              "owner_id": owner.get("id"), "old": old[max(0, index - 1):index + 2]}


def apply_corruption(c: dict, data: bytes):
    k = c["kind"]
    if k == "tfdt":
        return corrupt_tfdt(data, c["delta"])
    if k == "mfhd":
        return corrupt_mfhd(data, c["delta"])
    if k == "trun":
        return corrupt_trun(data, c["delta"])
    if k == "saio":
        return corrupt_saio(data, c["delta"])
    if k == "initbox":
        return drop_box(data, c["box"])
    if k == "mpdattr":
        return mpd_drop_attr(data, c["xpath"], c["attr"])
    if k == "ast":
        return mpd_shift_ast(data, c["seconds"])
    if k == "mpdid":
        return mpd_change_id(data, c["suffix"])
    if k == "timeline":
        return mpd_timeline(data, c["which"], c["op"], c["index"], c.get("amount", 0))
    raise CorruptionError(f"unknown corruption {k}")


CLASS_OF_KIND = {"tfdt": "media", "mfhd": "media", "trun": "media", "saio": "media",
                 "initbox": "init", "mpdattr": "manifest", "ast": "manifest", "mpdid": "manifest",
                 "timeline": "manifest"}


# --------------------------------------------------------------------------- HTTP adapter

@dataclasses.dataclass
class Exchange:
    idx: int
    cls: str
    rep: Optional[str]
    url: str
    status: int
    data: bytes
    content_type: str
    rewritten: bool = False
    pass_no: int = 0


class Response:
    """what the validator needs of an HTTP response (http_client.HttpResponse)"""

    def __init__(self, status: int, headers, data: bytes):
        self.status_code = status
        self.headers = headers
        self._data = data

    def get_data(self, as_text: bool = False):
        return self._data.decode("utf-8") if as_text else self._data


class Adapter:
    """HttpClient over the Flask test client; rewrites the nth response of one class/representation"""

    def __init__(self, client, manifest_path: str, corruption: Optional[dict]):
        self.client = client
        self.manifest_path = manifest_path
        self.corruption = corruption
        self.exchanges: list[Exchange] = []
        self.counts: dict = {}
        self.applied: Optional[dict] = None
        self.apply_error: Optional[str] = None
        self.pass_no = 0
        self.override: dict = {}        # url -> bytes handed to the validator instead of the served ones

    def classify(self, url: str):
        p = urllib.parse.urlparse(url)
        parts = p.path.split("/")
        if p.path == self.manifest_path:
            return "manifest", None
        if len(parts) > 1 and parts[1] == "patch":
            return "patch", None
        if len(parts) > 5 and parts[1] == "dash":
            rep = parts[4]
            if parts[5].startswith("init."):
                return "init", rep
            return "media", rep
        return "other", None

    async def get(self, url: str, headers: dict | None = None, params=None, status=None, xhr=False):
        m = re.match(r"^https?://[^/]+(/.*)$", url)
        r = self.client.get(m.group(1) if m else url, headers=headers)
        data = r.get_data(as_text=False)
        if url in self.override and r.status_code in (200, 206):
            data = self.override[url]
        cls, rep = self.classify(url)
        c = self.corruption
        rewritten = False
        if c is not None and self.applied is None and self.apply_error is None and r.status_code in (200, 206):
            if CLASS_OF_KIND[c["kind"]] == cls and (c.get("rep") is None or c.get("rep") == rep):
                key = (cls, c.get("rep"))
                n = self.counts.get(key, 0)
                self.counts[key] = n + 1
                # a corruption addressed to a LISTED segment names its URL; the others count requests
                if (url == c["target_url"]) if "target_url" in c else (n == c.get("nth", 0)):
                    try:
                        data, info = apply_corruption(c, data)
                        self.applied = {"url": url, "exchange": len(self.exchanges), **info}
                        rewritten = True
                    except (CorruptionError, mp4walk.WalkError) as e:
                        self.apply_error = f"{type(e).__name__}: {e}"
        ex = Exchange(len(self.exchanges), cls, rep, url, r.status_code, data,
                      r.headers.get("Content-Type", ""), rewritten, self.pass_no)
        self.exchanges.append(ex)
        return Response(r.status_code, r.headers, data)

    head = get


# --------------------------------------------------------------------------- snapshots

def _err(e) -> dict:
    loc = e.location
    return {"msg": e.msg, "start": getattr(loc, "start", None), "end": getattr(loc, "end", None),
            "source": e.source.name, "clause": e.clause, "where": e.assertion.qualname}


def _own_errors(el) -> list:
    return [_err(e) for e in (el.attrs.errors + el.elt.errors)]


def snap_segment(ms) -> dict:
    def num(x):
        return None if x is None else int(x)
    return {"oid": id(ms), "name": ms.name, "url": ms.url,
            "exp_seq": num(ms.expected_seg_num), "exp_dt": num(ms.expected_decode_time),
            "exp_dur": num(ms.expected_duration), "tol": int(ms.tolerance // 1), "pto": int(ms.presentation_time_offset),
            "validated": bool(ms.validated), "seq": num(ms.seg_num), "dt": num(ms.decode_time),
            "dur": num(ms.duration), "next_dt": num(ms.next_decode_time),
            "avail_start_us": _dt_us(ms.availability_start_time), "avail_end_us": _dt_us(ms.availability_end_time),
            "errors": _own_errors(ms)}


_EPOCH = datetime.datetime(1970, 1, 1, tzinfo=datetime.timezone.utc)


def _dt_us(dt) -> Optional[int]:
    if dt is None:
        return None
    if dt.tzinfo is None:
        dt = dt.replace(tzinfo=datetime.timezone.utc)
    return _td_us(dt - _EPOCH)


def snap_rep(rep) -> dict:
    st = rep.segmentTemplate
    init = rep.init_segment
    info = init.dash_representation if init is not None else None
    tl = None
    if st is not None and st.segmentTimeline is not None:
        tl = [[int(s.start), int(s.duration)] for s in st.segmentTimeline.segments]
    fr = None
    for cand in (rep.frameRate, rep.parent.maxFrameRate, rep.parent.minFrameRate):
        if cand is not None:
            fr = str(cand)
            break
    return {
        "id": rep.id, "content_type": rep.parent.contentType, "mode": rep.mode,
        "start": rep.elt.location.start, "end": rep.elt.location.end,
        "dash_ts": int(rep.dash_timescale()) if init is not None else None,
        "media_ts": None if info is None else info.timescale,
        "encrypted": None if info is None else bool(info.encrypted),
        "iv_size": None if info is None else info.iv_size,
        "start_number": None if st is None else st.startNumber,
        "tmpl_duration": None if st is None else st.duration,
        "tmpl_pto": None if st is None else st.presentationTimeOffset,
        "media": None if st is None else st.media,
        "timeline": tl, "frame_rate": fr,
        "target_us": None if rep.target_duration is None else _td_us(rep.target_duration),
        "mime": rep.mimeType,
        "period_ast_us": _dt_us(rep.period.availability_start_time()) if rep.mode == "live" else None,
        "inband": sorted({(ev.schemeIdUri, ev.value) for ev in list(rep.event_streams) + list(rep.parent.event_streams)
                          if type(ev).__name__ == "InbandEventStream"}),
        "segments": [snap_segment(ms) for ms in rep.media_segments],
        "own_errors": _own_errors(rep),
        "init_errors": [] if init is None else _own_errors(init),
        "init_url": None if init is None else init.url,
    }


def _td_us(td: datetime.timedelta) -> int:
    return (td.days * 86400 + td.seconds) * 1_000_000 + td.microseconds


def snap_manifest(dv) -> dict:
    m = dv.manifest
    if m is None:
        return {"reps": []}
    reps = []
    for p in m.periods:
        for a in p.adaptation_sets:
            for r in a.representations:
                reps.append(snap_rep(r))

    def iso(x):
        return None if x is None else x.isoformat()
    return {"reps": reps, "publishTime": iso(m.publishTime), "ast": iso(m.availabilityStartTime),
            "mup_us": None if m.minimumUpdatePeriod is None else _td_us(m.minimumUpdatePeriod),
            "tsbd_us": None if m.timeShiftBufferDepth is None else _td_us(m.timeShiftBufferDepth),
            "mpd_id": m.id, "mpd_type": m.mpd_type, "mpd_errors": _own_errors(m),
            "period_errors": [_own_errors(p) for p in m.periods],
            "period_ids": [p.id for p in m.periods], "n_periods": len(m.periods),
            "has_mpd_duration": m.mediaPresentationDuration is not None,
            "n_patches": len(m.patches), "lines": list(dv.manifest_text),
            "tree_errors": [_err(e) for e in m.get_errors()]}


@dataclasses.dataclass
class Result:
    case: Case
    loaded: bool = False
    finished: bool = False
    loops: int = 0
    wall: float = 0.0
    timed_out: bool = False
    crashed: Optional[str] = None
    errors: list = dataclasses.field(default_factory=list)         # final get_errors()
    top_errors: list = dataclasses.field(default_factory=list)     # errors held by the DashValidator itself
    passes: list = dataclasses.field(default_factory=list)         # [{"pre":…, "post":…, "now":…}]
    exchanges: list = dataclasses.field(default_factory=list)
    applied: Optional[dict] = None
    apply_error: Optional[str] = None
    refresh_checks: list = dataclasses.field(default_factory=list)
    # error bookkeeping: after every step of the session the identities of the error objects held by the
    # validator itself (`top`), by the current manifest tree (`tree`) and by every history entry (`hist`);
    # `final_ids` = dv.get_errors() after the session – what a user of the validator reads
    report_obs: list = dataclasses.field(default_factory=list)
    final_ids: list = dataclasses.field(default_factory=list)
    final_has_errors: Optional[bool] = None
    # a corruption addressed to a listed segment that the validator had not requested by the end of the first
    # pass: what the SERVER answers for that URL at that instant (the segment is offered or not)
    unexamined: Optional[dict] = None

    def has_errors(self) -> bool:
        return bool(self.errors)


# --------------------------------------------------------------------------- the session

async def _session(app, case: Case, clock, res: Result, wall_limit: float):
    from dashlive.mpeg.dash.validator import ConcurrentWorkerPool, DashValidator, ValidatorOptions
    real_sleep = asyncio.sleep

    async def fake_sleep(delay, result=None):
        if delay and delay > 0:
            clock.set(clock.now + datetime.timedelta(seconds=delay))
        return await real_sleep(0, result)

    url = HOST + case.path()
    adapter = Adapter(app.client(), urllib.parse.urlparse(url).path, case.corruption)
    t0 = time.monotonic()
    log = logging.getLogger("c18.validator")
    with mock.patch.object(asyncio, "sleep", fake_sleep), ThreadPoolExecutor(max_workers=2) as tpe:
        opts = ValidatorOptions(duration=case.duration, encrypted=case.encrypted(),
                                pool=ConcurrentWorkerPool(tpe))
        opts.log = log
        dv = DashValidator(url, adapter, mode=case.mode, options=opts)
        keep: list = []          # keeps every error object alive, so that id() stays unique for the session
        seen_top: set = set()

        def observe(point: str) -> list:
            top = list(dv.attrs.errors) + list(dv.elt.errors)
            tree = list(dv.manifest.get_errors()) if dv.manifest is not None else []
            hist = [list(h.errors) for h in dv.history]
            keep.extend(top)
            keep.extend(tree)
            for h in hist:
                keep.extend(h)
            new_top = [e for e in top if id(e) not in seen_top]
            seen_top.update(id(e) for e in top)
            res.report_obs.append({"point": point, "top": [id(e) for e in top], "tree": [id(e) for e in tree],
                                   "hist": [[id(e) for e in h] for h in hist]})
            return [_err(e) for e in new_top]
        try:
            res.loaded = await dv.load()
            budget = MAX_LOOPS[case.mode]
            if res.loaded:
                await dv.prefetch_media_info()
            observe("load")
            while res.loaded and not dv.finished() and budget > 0:
                if time.monotonic() - t0 > wall_limit:
                    res.timed_out = True
                    break
                pre = snap_manifest(dv)
                prev = dv.prev_manifest
                prev_info = None
                if prev is not None:
                    prev_info = {"ast": prev.availabilityStartTime, "pub": prev.publishTime, "id": prev.id}
                adapter.pass_no = len(res.passes)
                await dv.validate()
                post = snap_manifest(dv)
                top = observe("validate")        # the errors the validator itself gained in this pass
                res.passes.append({"pre": pre, "post": post, "now": clock.now.isoformat(), "top_errors": top})
                tgt = (case.corruption or {}).get("target_url")
                if tgt and len(res.passes) == 1 and adapter.applied is None:
                    m_ = re.match(r"^https?://[^/]+(/.*)$", tgt)
                    pr = adapter.client.get(m_.group(1) if m_ else tgt)
                    res.unexamined = {"url": tgt, "status": pr.status_code, "now": clock.now.isoformat(),
                                      "given_up": any(sg["url"] == tgt and sg["validated"]
                                                      for r_ in post["reps"] for sg in r_["segments"])}
                if prev_info is not None and dv.manifest is not None:
                    m = dv.manifest
                    res.refresh_checks.append({
                        "prev_ast": None if prev_info["ast"] is None else prev_info["ast"].isoformat(),
                        "ast": None if m.availabilityStartTime is None else m.availabilityStartTime.isoformat(),
                        "prev_pub": prev_info["pub"].isoformat(), "pub": m.publishTime.isoformat(),
                        "mup_us": None if m.minimumUpdatePeriod is None else _td_us(m.minimumUpdatePeriod),
                        "prev_id": prev_info["id"], "id": m.id, "top_errors": top})
                if case.break_on_error and dv.has_errors():
                    break
                if not dv.finished():
                    budget -= 1
                    res.loops += 1
                    await dv.sleep()
                    observe("sleep")
                    adapter.pass_no = len(res.passes)
                    await dv.refresh()
                    observe("refresh")
            res.finished = bool(res.loaded and dv.finished())
        except Exception as e:      # a crash of the validator is an observation, not a harness error
            import traceback
            res.crashed = f"{type(e).__name__}: {e} @ " + " < ".join(
                f"{f.name}:{f.lineno}" for f in traceback.extract_tb(e.__traceback__)[-3:][::-1])
        final = list(dv.get_errors())
        keep.extend(final)
        res.errors = [_err(e) for e in final]
        res.final_ids = [id(e) for e in final]
        res.final_has_errors = bool(dv.has_errors())
        res.top_errors = _own_errors(dv)
        if not res.passes and dv.manifest is not None:
            res.passes.append({"pre": snap_manifest(dv), "post": snap_manifest(dv),
                               "now": clock.now.isoformat(), "top_errors": res.top_errors})
    res.exchanges = adapter.exchanges
    res.applied = adapter.applied
    res.apply_error = adapter.apply_error
    res.wall = time.monotonic() - t0


def run_case(app, case: Case, wall_limit: float = 30.0) -> Result:
    res = Result(case=case)
    with appboot.Clock(case.now) as clock:
        try:
            asyncio.run(asyncio.wait_for(_session(app, case, clock, res, wall_limit), timeout=wall_limit * 2))
        except asyncio.TimeoutError:
            res.timed_out = True
    return res


# --------------------------------------------------------------------------- single segments, chosen expectations

async def _direct(app, case: Case, plan, out: list, per_rep: int, max_reps: Optional[int] = None):
    """Load the manifest and the init segments exactly as a session does, then create *real*
    `MediaSegment` objects on the real `Representation`s with expectations chosen by `plan` (None, 0,
    exact, tolerance boundaries …) over the served or boundary-patched bytes, and run the real
    `validate_segment()` on each."""
    from dashlive.mpeg.dash.validator import ConcurrentWorkerPool, DashValidator, ValidatorOptions
    from dashlive.mpeg.dash.validator.media_segment import MediaSegment
    url = HOST + case.path()
    adapter = Adapter(app.client(), urllib.parse.urlparse(url).path, None)
    with ThreadPoolExecutor(max_workers=2) as tpe:
        opts = ValidatorOptions(duration=case.duration, encrypted=case.encrypted(), pool=ConcurrentWorkerPool(tpe))
        opts.log = logging.getLogger("c18.validator")
        dv = DashValidator(url, adapter, mode=case.mode, options=opts)
        if not await dv.load():
            return
        await dv.prefetch_media_info()
        done_types: dict = {}
        for p in dv.manifest.periods:
            for a in p.adaptation_sets:
                for rep in a.representations:
                    segs = rep.media_segments
                    if not segs or rep.init_segment is None or rep.init_segment.dash_representation is None:
                        continue
                    if max_reps is not None:
                        # one Representation per content type, up to `max_reps` (video first, then audio …)
                        if a.contentType in done_types or len(done_types) >= max_reps:
                            continue
                        done_types[a.contentType] = rep.id
                    idx = sorted({0, len(segs) // 2, len(segs) - 1})[:per_rep]
                    rsnap = snap_rep(rep)
                    for i in idx:
                        base = segs[i]
                        r0 = await adapter.get(base.url)
                        if r0.status_code != 200:
                            continue
                        ctype = r0.headers.get("Content-Type", "")
                        for label, exp, data in plan(rsnap, snap_segment(base), r0.get_data()):
                            adapter.override = {base.url: data}
                            ms = MediaSegment(rep, url=base.url, presentation_time_offset=exp["pto"],
                                              tolerance=exp["tol"], expected_duration=exp["dur"],
                                              expected_seg_num=exp["seq"], expected_decode_time=exp["dt"])
                            crashed = None
                            try:
                                await ms.validate_segment()
                            except Exception as e:
                                crashed = f"{type(e).__name__}: {e}"
                            out.append({"rep": rsnap, "index": i, "label": label, "seg": snap_segment(ms),
                                        "data": data, "status": 200, "content_type": ctype, "crashed": crashed,
                                        "init_url": rep.init_segment.url})
                        adapter.override = {}
        out.append({"inits": {ex.rep: ex.data for ex in adapter.exchanges if ex.cls == "init" and ex.status == 200}})


def run_direct(app, case: Case, plan, per_rep: int = 3, wall_limit: float = 60.0,
               max_reps: Optional[int] = None) -> list:
    out: list = []
    with appboot.Clock(case.now):
        try:
            asyncio.run(asyncio.wait_for(_direct(app, case, plan, out, per_rep, max_reps), timeout=wall_limit))
        except asyncio.TimeoutError:
            out.append({"timed_out": True})
    return out


# --------------------------------------------------------------------------- manifests only

async def _load_only(app, case: Case, xml_list: list, out: list):
    from dashlive.mpeg.dash.validator import ConcurrentWorkerPool, DashValidator, ValidatorOptions
    url = HOST + case.path()
    with ThreadPoolExecutor(max_workers=1) as tpe:
        for xml in xml_list:
            adapter = Adapter(app.client(), urllib.parse.urlparse(url).path, None)
            opts = ValidatorOptions(duration=case.duration, encrypted=case.encrypted(), pool=ConcurrentWorkerPool(tpe))
            opts.log = logging.getLogger("c18.validator")
            dv = DashValidator(url, adapter, mode=case.mode, options=opts)
            crashed = None
            try:
                await dv.load(data=xml)
            except Exception as e:
                crashed = f"{type(e).__name__}: {e}"
            out.append({"xml": xml, "crashed": crashed, "snap": None if crashed else snap_manifest(dv)})


def load_only(app, case: Case, xml_list: list) -> list:
    """parse manifests with the real validator classes (no request is made): what `Manifest`, `SegmentTemplate`
    and `SegmentTimeline` make of each text"""
    out: list = []
    with appboot.Clock(case.now):
        asyncio.run(_load_only(app, case, xml_list, out))
    return out
