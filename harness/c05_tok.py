"""Model tokenizer (`xmltok` channel of the Lean driver) vs lxml on the same bytes.

Both sides are reduced to the same canonical event list
    ("o", qualified name, ((attr name, value), …))   start tag (namespace declarations dropped)
    ("t", text)                                        maximal run of character data inside the root
    ("c", qualified name)                              end tag
with references expanded and attribute values normalised the way an XML processor
reports them.  Comments and processing instructions are dropped on both sides.
"""
from __future__ import annotations

import html
import re

from lxml import etree


def _hex(s: str) -> str:
    return s.encode("utf-8").hex() or "-"


def _unhex(h: str) -> str:
    return "" if h in ("-", "") else bytes.fromhex(h).decode("utf-8")


_REF = re.compile(r"&(#x[0-9a-fA-F]+|#[0-9]+|amp|lt|gt|quot|apos);")


def expand_refs(raw: str) -> str:
    def sub(m):
        r = m.group(1)
        if r.startswith("#x"):
            return chr(int(r[2:], 16))
        if r.startswith("#"):
            return chr(int(r[1:]))
        return {"amp": "&", "lt": "<", "gt": ">", "quot": '"', "apos": "'"}[r]
    return _REF.sub(sub, raw)


def norm_attr(raw: str) -> str:
    """attribute-value normalisation (XML 1.0 §3.3.3, CDATA type): literal white space → space,
    then references are expanded"""
    return expand_refs(re.sub(r"\r\n|[\t\n\r]", " ", raw))


def norm_text(raw: str) -> str:
    return expand_refs(raw.replace("\r\n", "\n").replace("\r", "\n"))


def model_events(line: str):
    """driver answer of `xmltok` → (well_formed, events)"""
    if line == "malformed":
        return False, None
    nested, _, rest = line.partition(" ")
    if nested != "1":
        return False, None
    ev, depth, buf = [], 0, []

    def flush():
        if buf:
            t = "".join(buf)
            buf.clear()
            if depth > 0 and t:
                ev.append(("t", t))

    for tok in (rest.split("|") if rest else []):
        f = tok.split(";")
        k = f[0]
        if k in ("o", "e"):
            flush()
            attrs = []
            if f[2]:
                for a in f[2].split(","):
                    n, _, v = a.partition("=")
                    if n == "xmlns" or n.startswith("xmlns:"):
                        continue
                    attrs.append((n, norm_attr(_unhex(v))))
            ev.append(("o", f[1], tuple(sorted(attrs))))
            if k == "o":
                depth += 1
            else:
                ev.append(("c", f[1]))
        elif k == "c":
            flush()
            depth -= 1
            ev.append(("c", f[1]))
        elif k == "t":
            buf.append(norm_text(_unhex(f[1])))
        elif k == "d":
            buf.append(_unhex(f[1]).replace("\r\n", "\n").replace("\r", "\n"))
        # k, p: dropped
    return True, ev


def lxml_events(body: bytes):
    parser = etree.XMLParser(recover=False, resolve_entities=False, no_network=True, load_dtd=False, huge_tree=True)
    try:
        root = etree.fromstring(body, parser)
    except etree.XMLSyntaxError:
        return False, None
    ev = []

    def qname(el):
        q = etree.QName(el)
        return f"{el.prefix}:{q.localname}" if el.prefix else q.localname

    def attr_name(el, key):
        if not key.startswith("{"):
            return key
        uri, _, loc = key[1:].partition("}")
        if uri == "http://www.w3.org/XML/1998/namespace":
            return "xml:" + loc
        for p, u in sorted((p, u) for p, u in el.nsmap.items() if p):
            if u == uri:
                return f"{p}:{loc}"
        return key

    def text(t):
        if t:
            if ev and ev[-1][0] == "t":
                ev[-1] = ("t", ev[-1][1] + t)
            else:
                ev.append(("t", t))

    def walk(el):
        if not isinstance(el.tag, str):       # comment / PI: only its tail is character data
            text(el.tail)
            return
        ev.append(("o", qname(el), tuple(sorted((attr_name(el, k), v) for k, v in el.attrib.items()))))
        text(el.text)
        for c in el:
            walk(c)
        ev.append(("c", qname(el)))
        text(el.tail if el is not root else None)

    walk(root)
    return True, ev


def request_line(body_text: str) -> str:
    return "xmltok " + _hex(body_text)


def first_difference(a, b):
    for i, (x, y) in enumerate(zip(a, b)):
        if x != y:
            return {"index": i, "model": repr(x)[:200], "lxml": repr(y)[:200]}
    if len(a) != len(b):
        return {"index": min(len(a), len(b)), "model_len": len(a), "lxml_len": len(b)}
    return None


# raw (unescaped) fragments that model and lxml must judge alike when written into character data
# or into a double-quoted attribute value of a real manifest
MUTANTS = ["<", "&", '"', "'", "<b>", "</Title>", "</MPD>", "&amp;", "&lt;x", "&bogus;", "&#60;", "&#x3c;", "&#;",
           "<!--", "-->", "<!-- x -->", "<?x", "<?x y?>", "?>", "<b/>", "<b a='1'/>", '<b a="1" a="2"/>',
           "<b a=1/>", "< b>", "<1>", "é漢", "<![CDATA[a<b]]>", "<b>t</b>", "<b></c>", "a=b", "/>", ">"]


def mutate(rng, body_text: str):
    """insert one raw fragment at a character-data or attribute-value position of the body"""
    frag = rng.choice(MUTANTS)
    # not inside the XML declaration (its pseudo-attributes are not modelled) and not into a namespace
    # declaration (libxml2 validates namespace names, the model does not look at them)
    first = body_text.find("?>") + 2 if body_text.startswith("<?xml") else 0
    spots = [m.end() for m in re.finditer(r'(?<![\w:])(?!xmlns)[\w:.-]+="|>', body_text) if m.end() > first]
    if not spots:
        return None
    pos = rng.choice(spots)
    where = "attr" if body_text[pos - 1] == '"' else "text"
    return body_text[:pos] + frag + body_text[pos:], {"fragment": frag, "where": where, "offset": pos}
