#!/usr/bin/env python3
"""Regenerate the two generated tables at the end of DESIGN.md:
§14 (seeded changes: which check catches which change) from seeded/*/meta.json and
§15 (genuine defects: fixed / open) from known_findings.json.
Everything between the markers `<!-- BEGIN GENERATED:x -->` / `<!-- END GENERATED:x -->` is replaced."""
import json
import re
from pathlib import Path

V = Path(__file__).resolve().parent.parent


def seeded_table():
    rows = ["| seeded change (directory under `seeded/`) | property | what it needs to manifest | result of the registered quick check(s) when the change was received | strengthening it triggered | final sweep (all current checks, `harness/seedsweep.py`) |",
            "|---|---|---|---|---|---|"]
    for d in sorted((V / "seeded").iterdir()):
        m = d / "meta.json"
        if not m.exists():
            continue
        j = json.loads(m.read_text())
        cr = j.get("check_result", {})
        if "runs" in cr:
            parts = []
            for r in cr["runs"]:
                line = r.get("violation_line") or ""
                kind = ("VIOLATION (failing input)" if r["exit"] == 1 and "no-failing-input-found" not in line
                        else "VIOLATION no-failing-input-found" if r["exit"] == 1 else "quiet (exit 0)")
                parts.append(f"{r['check']} seed {r['seed']}: {kind}")
            res = "; ".join(parts)
            note = cr.get("note", "")
        else:
            res = cr.get("outcome") or cr.get("after_strengthening") or ""
            note = cr.get("strengthening", "") or cr.get("first_run", "")
        needs = (j.get("needs") or "").replace("\n", " ").replace("|", "/")
        if len(needs) > 260:
            needs = needs[:257] + "…"
        note = note.replace("\n", " ")
        if len(note) > 700:
            note = note[:697] + "… (full text: meta.json)"
        fs = j.get("final_sweep") or {}
        if fs.get("error"):
            final = fs["error"]
        elif fs:
            final = (("VIOLATION with failing input" if fs.get("failing_input") else "VIOLATION no-failing-input-found")
                     if fs.get("exit") == 1 else f"quiet (exit {fs.get('exit')})") + f" @ {fs.get('repo_head')}"
        else:
            final = ""
        rows.append(f"| `{d.name}` | {j.get('property')} | {needs} | {res.replace('|', '/')} | {note.replace('|', '/')} | {final} |")
    return "\n".join(rows)


def findings_table():
    d = json.loads((V / "known_findings.json").read_text())["findings"]
    rows = ["| property | id | status | commit | what failed |", "|---|---|---|---|---|"]
    for f in d:
        what = f["what"].replace("\n", " ").replace("|", "/")
        if len(what) > 300:
            what = what[:297] + "…"
        rows.append(f"| {f['property']} | {f['id']} | {f['status']} | {f.get('commit', '')} | {what} |")
    return "\n".join(rows)


def main():
    p = V / "DESIGN.md"
    s = p.read_text()
    for key, body in (("seeded", seeded_table()), ("findings", findings_table())):
        b, e = f"<!-- BEGIN GENERATED:{key} -->", f"<!-- END GENERATED:{key} -->"
        if b not in s:
            raise SystemExit(f"marker {b} missing in DESIGN.md")
        s = re.sub(re.escape(b) + r".*?" + re.escape(e), lambda m: b + "\n" + body + "\n" + e, s, flags=re.S)
    p.write_text(s)
    print("DESIGN.md tables regenerated")


if __name__ == "__main__":
    main()
