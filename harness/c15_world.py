"""C15 fixture world: the real application with one user per role, throw-away
objects for every kind of persistent state, a snapshot of the database and the
blob store that is restored before every case, SHA-256 fingerprints of both, and
an observer that tells whether the body of a view method was entered
(`sys.monitoring`, nothing in /repo is patched).

Fingerprint exclusions (each justified; the same list is the translator's
bookkeeping list in gen_routes.py):
  * table `Token`      – refresh-token rows, revocation flags and consumed CSRF tokens:
                         written by every login, logout and CSRF check for any visitor by design;
                         it is the CSRF protocol's own state, examined by the csrf_seq channel.
  * `User.last_login`  – timestamp a successful login writes on the caller's own row.
Everything else – every column of every other table, all of `User` otherwise
(password hash, e-mail, groups …) – is fingerprinted.
"""
from __future__ import annotations

import contextlib
import hashlib
import io
import json
import os
import shutil
import sqlite3
import sys
from pathlib import Path
from unittest import mock

import appboot

ROLES = ["anonymous", "user", "media", "admin"]
RANK = {r: i for i, r in enumerate(ROLES)}
CREDS = {"user": appboot.USER, "media": appboot.MEDIA, "admin": appboot.ADMIN}
VICTIM = ("c15victim", "v1ctim-pw")
# Accounts of the USER group only whose stored names contain what is special to lookup machinery other than
# exact equality: LIKE wildcards, other case, surrounding spaces, prefixes / extensions of privileged names,
# numeric-looking names (primary keys), a name of maximal length.  They are created AFTER admin/media/user,
# so any fuzzy lookup that takes the first match resolves them to a more privileged row.
SHADOW_NAMES = ["ad_in", "a%", "%", "_____", "Admin", "ADMIN", "admin ", " admin", "adm", "admin2",
                "Media", "me_ia", "medi%", "MEDIA ", "1", "3", "0", "admin" + "x" * 27, "User", "us%"]
SHADOWS = {f"s{i}": n for i, n in enumerate(SHADOW_NAMES)}


def shadow_password(sid: str) -> str:
    return f"shadow-pw-{sid}"
EXCLUDED_TABLES = {"Token"}
EXCLUDED_COLUMNS = {("User", "last_login")}


class Session:
    """what a role owns after logging in and looking around"""

    def __init__(self):
        self.session_cookie: str | None = None
        self.csrf_cookie: str | None = None
        self.access: str | None = None
        self.refresh: str | None = None
        self.csrf: dict[str, str] = {}      # service → token harvested from pages the role may GET
        self.pk: int | None = None
        self.sources: dict[str, str] = {}
        self.account: dict = {}             # the role's own account as its login JSON shows it
        self.readable: dict[str, dict] = {}  # JSON of objects the role may GET: stream, other_stream, mps, key


class World:
    def __init__(self):
        self.a = appboot.get_app(("bbb",), real_index=False)
        self.app = self.a.app
        self.models = self.a.models
        self.blob_folder = Path(self.a.blob_folder)
        self.upload_folder = Path(self.app.config["UPLOAD_FOLDER"])
        self.ids: dict[str, object] = {}
        self._build_objects()
        self.creds = dict(CREDS)
        self.creds.update({sid: (name, shadow_password(sid)) for sid, name in SHADOWS.items()})
        self.sessions = {r: self._login(r) for r in ROLES + list(SHADOWS)}
        with self.app.app_context():
            self.models.db.session.remove()
            rc = self.models.db.engine.raw_connection()
            self.conn: sqlite3.Connection = rc.driver_connection
            rc.close()
        self._columns = {}
        self.snap = sqlite3.connect(":memory:")
        self.conn.backup(self.snap)
        self.base_db = self.db_fingerprint()
        self.base_users = self.user_rows()
        self.blob_backup = self.a.scratch / "c15-blob-backup"
        if self.blob_backup.exists():
            shutil.rmtree(self.blob_backup)
        shutil.copytree(self.blob_folder, self.blob_backup)
        self.base_blobs = self.blob_listing()
        self._init_monitor()

    # ------------------------------------------------------------------ objects
    def _build_objects(self):
        m = self.models
        src = self.a.scratch / "c15src"
        src.mkdir(exist_ok=True)
        shutil.copyfile(appboot.FIXTURES / "bbb" / "bbb_a1.mp4", src / "c15_a1.mp4")
        self.upload_bytes = (appboot.FIXTURES / "bbb" / "bbb_t1.mp4").read_bytes()
        spk = self.a.add_stream("c15s", "C15 scratch stream", [("c15_a1", src / "c15_a1.mp4")],
                                real_index=True, timing_from="c15_a1")
        with self.app.app_context():
            import datetime
            bbb = m.Stream.get(directory="bbb")
            mf = m.MediaFile.get(name="c15_a1")
            key = m.Key(hkid="c15c15c15c15c15c15c15c15c15c15c1", hkey="0123456789abcdef0123456789abcdef",
                        computed=False)
            m.db.session.add(key)
            victim = m.User(username=VICTIM[0], email="victim@dashlive.unit.test",
                            password=m.User.hash_password(VICTIM[1]), groups_mask=m.Group.USER,
                            must_change=False)
            m.db.session.add(victim)
            # cheap password hashes (bcrypt, 4 rounds) for the fixture accounts of this in-memory world:
            # the checks log in hundreds of times; the hashing scheme is not what C15 is about
            from dashlive.server.models.user import password_context
            cheap = password_context.using(bcrypt__rounds=4)
            for name, pw in list(CREDS.values()) + [VICTIM]:
                u = victim if name == VICTIM[0] else m.User.get(username=name)
                u.password = cheap.hash(pw)
            m.db.session.flush()
            shadow_rows = {}
            for sid, name in SHADOWS.items():
                su = m.User(username=name, email=f"shadow-{sid}@dashlive.unit.test",
                            password=cheap.hash(shadow_password(sid)), groups_mask=m.Group.USER,
                            must_change=False)
                m.db.session.add(su)
                shadow_rows[sid] = su
            mps = m.MultiPeriodStream(name="c15mps", title="C15 multi-period stream")
            m.db.session.add(mps)
            period = m.Period(pid="p1", parent=mps, ordering=1, stream=bbb,
                              start=datetime.timedelta(0), duration=datetime.timedelta(seconds=20))
            m.db.session.add(period)
            ct = m.ContentType.get(name="video")
            vid = [f for f in bbb.media_files if f.content_type == "video"][0]
            m.db.session.add(m.AdaptationSet(period=period, track_id=vid.track_id, role=1, content_type=ct))
            m.db.session.commit()
            self.ids = {
                "spk": spk, "mfid": mf.pk, "mfname": mf.name, "kpk": key.pk, "hkid": key.hkid,
                "victim": victim.pk, "guest": m.User.get_guest_user().pk, "mps": "c15mps",
                "mps_pk": mps.pk, "ppk": period.pk, "bbb_spk": bbb.pk,
                "bbb_video": vid.name,
                "users": {n: m.User.get(username=c[0]).pk for n, c in CREDS.items()},
            }
            self.ids["users"].update({sid: su.pk for sid, su in shadow_rows.items()})
            self.ids["all_accounts"] = [(u.pk, u.username) for u in
                                        sorted(m.User.all(), key=lambda x: x.pk)]
            m.db.session.remove()

    def _login(self, role: str) -> Session:
        s = Session()
        c = self.app.test_client()
        if role == "anonymous":
            # what a visitor who never logs in can legitimately fetch
            r = c.get("/api/refresh/access")
            s.access = r.json["accessToken"]["jwt"]
            s.pk = self.ids["guest"]
            s.sources["access"] = "GET /api/refresh/access (guest access token)"
        else:
            r = self.a.login(c, self.creds[role])
            assert r.status_code == 200 and r.json.get("success"), (role, r.status_code, r.text[:200])
            s.access = r.json["accessToken"]["jwt"]
            s.refresh = r.json["refreshToken"]["jwt"]
            s.pk = r.json["user"]["pk"]
            s.account = dict(r.json["user"])
            ck = c.get_cookie("session")
            s.session_cookie = ck.value if ck else None
            s.sources["access"] = "POST /api/login"
        r = c.get("/streams?ajax=1")
        toks = r.json["csrf_tokens"]
        for svc, field in (("files", "files"), ("keys", "kids"), ("streams", "streams"), ("upload", "upload")):
            if toks.get(field):
                s.csrf[svc] = toks[field]
                s.sources[svc] = "GET /streams?ajax=1"
        ck = c.get_cookie("csrf")
        s.csrf_cookie = ck.value if ck else None
        if role == "anonymous":
            # the guest token's subject is readable by its holder
            s.account = {"username": "_AnonymousUser_"}
        # what the role can read about the objects: used to build full-form bodies
        keys = r.json.get("keys") or []
        if keys:
            s.readable["key"] = {k: v for k, v in keys[0].items() if not isinstance(v, (dict, list))}
        hdr = {"Authorization": f"Bearer {s.access}"}
        for name, url in (("stream", f"/stream/{self.ids['spk']}?ajax=1"),
                          ("other_stream", f"/stream/{self.ids['bbb_spk']}?ajax=1"),
                          ("mps", f"/api/multi-period-streams/{self.ids['mps']}?ajax=1")):
            rr = c.get(url, headers=hdr)
            js = rr.json if rr.status_code == 200 and isinstance(rr.json, dict) else {}
            if name == "mps":
                js = js.get("model") or {}
            s.readable[name] = {k: v for k, v in js.items() if not isinstance(v, (dict, list))}
        return s

    # ------------------------------------------------------------------ snapshot / fingerprints
    def restore(self):
        with self.app.app_context():
            self.models.db.session.remove()
        try:
            self.conn.rollback()
        except Exception:
            pass
        self.snap.backup(self.conn)
        if self.blob_listing() != self.base_blobs:
            for root in (self.blob_folder,):
                shutil.rmtree(root)
                shutil.copytree(self.blob_backup, root)
            if self.upload_folder.exists():
                for p in self.upload_folder.iterdir():
                    if p.is_file():
                        p.unlink()

    def _cols(self, table: str) -> str:
        if table not in self._columns:
            cols = [r[1] for r in self.conn.execute(f'PRAGMA table_info("{table}")')]
            cols = [c for c in cols if (table, c) not in EXCLUDED_COLUMNS]
            self._columns[table] = ", ".join(f'"{c}"' for c in cols)
        return self._columns[table]

    def db_fingerprint(self) -> dict[str, str]:
        out = {}
        names = [r[0] for r in self.conn.execute(
            "select name from sqlite_master where type='table' order by name")]
        for t in names:
            if t in EXCLUDED_TABLES:
                continue
            h = hashlib.sha256()
            for row in self.conn.execute(f'select {self._cols(t)} from "{t}" order by 1'):
                h.update(repr(row).encode())
                h.update(b"\n")
            out[t] = h.hexdigest()
        return out

    def user_rows(self) -> dict[int, str]:
        """fingerprint of every User row on its own (for the 'own account only' clause)"""
        out = {}
        for row in self.conn.execute(f'select "pk", {self._cols("User")} from "User"'):
            out[row[0]] = hashlib.sha256(repr(row[1:]).encode()).hexdigest()
        return out

    def changed_users(self) -> list[int]:
        now = self.user_rows()
        return sorted(pk for pk in set(now) | set(self.base_users) if now.get(pk) != self.base_users.get(pk))

    def blob_listing(self) -> list[tuple[str, int]]:
        out = []
        for root in (self.blob_folder, self.upload_folder):
            if not root.exists():
                continue
            for d, _, files in os.walk(root):
                for f in files:
                    p = Path(d) / f
                    out.append((f"{root.name}/{p.relative_to(root)}", p.stat().st_size))
        return sorted(out)

    def changes(self) -> list[str]:
        """what differs from the snapshot: table names, 'blobs'"""
        now = self.db_fingerprint()
        ch = sorted(t for t in set(now) | set(self.base_db) if now.get(t) != self.base_db.get(t))
        if self.blob_listing() != self.base_blobs:
            ch.append("blobs")
        return ch

    # ------------------------------------------------------------------ body-entered observer
    def _init_monitor(self):
        mon = sys.monitoring
        self._tool = mon.PROFILER_ID
        try:
            mon.use_tool_id(self._tool, "c15")
        except ValueError:
            pass
        self.hits: set = set()
        mon.register_callback(self._tool, mon.events.PY_START, lambda code, off: self.hits.add(code))
        self._watched: set = set()

    def body_code(self, endpoint: str, verb: str):
        vf = self.app.view_functions[endpoint]
        vc = getattr(vf, "view_class", None)
        if vc is None:
            fn = vf
        else:
            fn = getattr(vc, verb.lower(), None)
            if fn is None and verb == "HEAD":
                fn = getattr(vc, "get", None)
        if fn is None:
            return None
        depth = 0
        while hasattr(fn, "__wrapped__"):
            fn = fn.__wrapped__
            depth += 1
        code = fn.__code__
        if code not in self._watched:
            sys.monitoring.set_local_events(self._tool, code, sys.monitoring.events.PY_START)
            self._watched.add(code)
        return code

    # ------------------------------------------------------------------ requests
    def client(self, role: str, send_session: bool, csrf_cookie: bool = True):
        c = self.app.test_client()
        s = self.sessions[role]
        if send_session and s.session_cookie:
            c.set_cookie("session", s.session_cookie, domain="localhost")
        if csrf_cookie and s.csrf_cookie:
            c.set_cookie("csrf", s.csrf_cookie, domain="localhost")
        return c


class ClockControl:
    """the controlled clock of a scenario: `at(seconds)` makes every `now()` the application reads
    (datetime.datetime.now, time.time, and the `datetime` name models/token.py imported) read
    start + seconds"""

    def __init__(self, clock, start):
        self.clock, self.start, self.offset = clock, start, 0

    def at(self, seconds: int):
        import datetime as _dt
        self.offset = seconds
        self.clock.set(self.start + _dt.timedelta(seconds=seconds))


@contextlib.contextmanager
def controlled_clock(jwt: bool = False):
    """appboot.Clock plus the one place it does not reach: models/token.py does
    `from datetime import datetime`, so `prune_database`/`has_expired` keep the real class.
    The start is one hour after the real time: session cookies and JWTs made when the world was
    built stay valid (their signatures carry real timestamps), only forward offsets are used.
    `jwt=True` additionally gives the JWT libraries this clock (token `exp` handling)."""
    import datetime as _dt
    import dashlive.server.models.token as token_mod
    start = (_dt.datetime.now(_dt.timezone.utc) + _dt.timedelta(hours=1)).replace(microsecond=0)
    with appboot.Clock(start) as clock:
        with contextlib.ExitStack() as stack:
            stack.enter_context(mock.patch.object(token_mod, "datetime", clock._cls))
            if jwt:
                # the JWT libraries import the class too: `iat`/`exp` are written and checked with it.
                # Only for scenarios that make their own logins under this clock (the world's tokens
                # carry real timestamps).
                import flask_jwt_extended.config as fjc
                import flask_jwt_extended.tokens as fjt
                import flask_jwt_extended.view_decorators as fjv
                import jwt.api_jwt as pyjwt
                for mod in (fjc, fjt, fjv, pyjwt):
                    stack.enter_context(mock.patch.object(mod, "datetime", clock._cls))
            yield ClockControl(clock, start)


_WORLD = None


def world() -> World:
    global _WORLD
    if _WORLD is None:
        _WORLD = World()
    return _WORLD
