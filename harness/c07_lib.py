"""C07 helpers: the valspec encoding shared with lean/DashLive/Driver/Options.lean,
generators of option values/texts per codec kind, and adapters to the real
option objects.  Nothing here decides a verdict."""
from __future__ import annotations

import datetime
import re

import gen_options

U_MANIFEST, U_VIDEO, U_AUDIO, U_TEXT, U_TIME, U_HTML = 1, 2, 4, 8, 16, 32
MEDIA_BITS = {"video": U_VIDEO, "audio": U_AUDIO, "text": U_TEXT}


# ------------------------------------------------------------------ text <-> hex
def hx(s) -> str:
    b = bytes(s) if isinstance(s, (bytes, bytearray)) else str(s).encode("utf-8")
    return b.hex() or "-"


def unhx(h: str) -> str:
    return "" if h == "-" else bytes.fromhex(h).decode("utf-8")


def iso_text(v) -> str:
    """text of a datetime/time the way the service writes it (isoformat, `Z` for
    UTC or naive) – written here independently of dashlive.utils.date_time"""
    s = v.isoformat()
    if v.tzinfo is None:
        return s + "Z"
    return re.sub(r"[+-]00:00$", "Z", s)


# ------------------------------------------------------------------ registry
def kind_spec(lean_term: str) -> str:
    """`.bool` → `bool`, `(.intOrDefault (-5))` → `intOrDefault:-5`"""
    t = lean_term.strip().strip("()").lstrip(".")
    m = re.match(r"(\w+)\s*\(?(-?\d+)?\)?$", t)
    if not m:
        raise ValueError(lean_term)
    return m.group(1) + (f":{m.group(2)}" if m.group(2) is not None else "")


_REG = None
_REG_TOLERANT = None

# from_string callable → kind, used only when the translator cannot identify an option's codec pair
# (then the correspondence is reported as broken, but the Layer-C search must still be able to run)
_FROM_KIND = {
    "bool_from_string": "bool", "int_or_none_from_string": "intOrNone", "float_or_none_from_string": "floatOrNone",
    "string_or_none": "strOrNone", "default_to_string": "strRaw", "list_without_none_from_string": "listJoin",
    "_drm_selection_from_string": "drmSelection", "unquoted_url_or_none_from_string": "quotedUrl",
    "ast_from_string": "astDateTime", "datetime_or_none_from_string": "dtOrNone",
    "_errors_from_string": "errorList",
}


def _tolerant_rows():
    from dashlive.server.options.repository import OptionsRepository
    rows = []
    defaults = OptionsRepository.get_default_options()
    for opt in OptionsRepository.get_dash_options():
        try:
            kspec = kind_spec(gen_options.kind_of(opt))
        except Exception:
            try:
                f = gen_options.callable_id(opt.from_string)
                if f[0] in ("int_or_default", "positive_int_or_default"):
                    kspec = ("intOrDefault" if f[0] == "int_or_default" else "posIntOrDefault") + f":{f[1]}"
                else:
                    kspec = _FROM_KIND[f[0]]
            except Exception:
                cont = defaults[opt.prefix] if opt.prefix else defaults
                dv = cont[opt.full_name]
                kspec = ("bool" if isinstance(dv, bool) else "intOrNone" if isinstance(dv, int) else
                         "listJoin" if isinstance(dv, list) else "strOrNone")
        rows.append({"cgi": opt.cgi_name, "short": opt.short_name, "pfx": opt.prefix, "full": opt.full_name,
                     "usage": int(opt.usage), "kind": "?", "dflt": gen_options.default_text(opt),
                     "choices": gen_options.choice_values(opt), "kspec": kspec, "kbase": kspec.split(":")[0]})
    return rows


def registry(strict: bool = True):
    """(rows, live DashOption objects, dump) in registry order; rows carry `kind` as driver spec.
    `strict=False`: never raises – kinds the translator cannot identify are guessed (search only)."""
    global _REG, _REG_TOLERANT
    from dashlive.server.options.repository import OptionsRepository
    if strict:
        if _REG is None:
            d = gen_options.dump()
            rows = d["rows"]
            for r in rows:
                r["kspec"] = kind_spec(r["kind"])
                r["kbase"] = r["kspec"].split(":")[0]
            _REG = (rows, list(OptionsRepository.get_dash_options()), d)
        return _REG
    if _REG_TOLERANT is None:
        try:
            _REG_TOLERANT = registry(True)
        except Exception:
            _REG_TOLERANT = (_tolerant_rows(), list(OptionsRepository.get_dash_options()), None)
    return _REG_TOLERANT


# ------------------------------------------------------------------ valspec
def _loc_mask(locs) -> int:
    m = 0
    for loc in locs:
        name = loc if isinstance(loc, str) else loc.value
        m |= {"cenc": 1, "moov": 2, "pro": 4}.get(name.lower(), 64)
    return m


def dt_text(v) -> str:
    """the driver's date-time value: the canonical text; a naive datetime keeps no zone (it is a
    different value from the aware one its URL text parses back to)"""
    if isinstance(v, datetime.datetime) and v.tzinfo is None:
        return v.isoformat()
    return iso_text(v)


def enc_pos(p) -> str:
    if p is None:
        return "-"
    if isinstance(p, bool):
        return f"?{p!r}"
    if isinstance(p, int):
        return f"n{p}"
    if isinstance(p, (datetime.datetime, datetime.time)):
        return "t" + hx(dt_text(p))
    return f"?{type(p).__name__}"


def enc_val(kbase: str, v) -> str:
    """valspec of a value produced by the real code for an option of this kind"""
    try:
        if v is None:
            return "N"
        if kbase == "bool":
            return "B1" if v is True else "B0" if v is False else f"?{v!r}"
        if kbase in ("intOrNone", "intOrDefault", "posIntOrDefault"):
            if isinstance(v, bool) or not isinstance(v, int):
                return f"?{v!r}"
            return f"I{v}"
        if kbase == "floatOrNone":
            if not isinstance(v, float):
                return f"?{v!r}"
            t = round(v * 10)
            if t < 0 or repr(v) != f"{t // 10}.{t % 10}":
                return f"?float:{v!r}"
            return f"F{t}"
        if kbase in ("strOrNone", "strRaw", "quotedUrl"):
            if isinstance(v, bool) or isinstance(v, int):
                return f"I{v}" if kbase == "strRaw" else f"?{v!r}"
            return "S" + hx(v) if isinstance(v, str) else f"?{v!r}"
        if kbase == "listJoin":
            if not isinstance(v, list) or not all(isinstance(i, str) for i in v):
                return f"?{v!r}"
            return "L" + ",".join(hx(i) for i in v)
        if kbase == "drmSelection":
            return "D" + ",".join(f"{hx(n)}/{_loc_mask(locs)}" for n, locs in v)
        if kbase in ("astDateTime", "dtOrNone"):
            if isinstance(v, str):
                return "S" + hx(v)
            if isinstance(v, (datetime.datetime, datetime.time)):
                return "A" + hx(dt_text(v))
            return f"?{type(v).__name__}"
        if kbase == "errorList":
            return "E" + ",".join(f"{c}/{enc_pos(p)}" for c, p in v)
    except Exception as e:  # an unexpected shape is reported, never hidden
        return f"?{type(e).__name__}:{v!r}"
    return f"?kind:{kbase}"


def exc_name(e: BaseException) -> str:
    if isinstance(e, KeyError):
        return "!keyError"
    if isinstance(e, ValueError):
        return "!valueError"
    return f"!other:{type(e).__name__}"


def enc_text(t) -> str:
    """result of opt.to_string(v): None, or the text dict_to_cgi_params would format"""
    return "N" if t is None else "T" + hx(str(t))


# ------------------------------------------------------------------ value generators
NON_ASCII = ["é", "ß", "ñandú", "日本", "😀", "straße"]
RESERVED = ["a&b", "a+b", "a b", "50%", "%41", "x%2Bx", "a#b", "a?b=c", "a=b", "a;b", "<x>", "\"q\"",
            "o'k", "a/b", "$Time$", "$$", "~t", "a\\b", "{x}", "a|b", "&nbsp;", "&#0;", "&lt;x&gt;", "}{", "{0}",
            "0x1F", "QUJD+/==", "{\"a\":1}", "true", "null", "%00", "x" * 1024]
PLAIN = ["abc", "x", "mp4a", "ec-3", "im1t|etd1", "http-ntp", "0", "1", "42", "stream.2", "A_b-9"]


def is_none_ci(s: str) -> bool:
    return s.lower() in ("", "none")


def gen_string(rng, allow_none_like=False) -> str:
    k = rng.random()
    if k < .35:
        s = rng.choice(PLAIN)
    elif k < .7:
        s = rng.choice(RESERVED)
    elif k < .85:
        s = rng.choice(NON_ASCII)
    else:
        s = "".join(rng.choice(PLAIN + RESERVED + NON_ASCII) for _ in range(rng.randrange(1, 4)))
    if not allow_none_like and is_none_ci(s):
        s = "x" + s
    return s


URLS = [
    "https://licence.example/acquire", "https://l.example/rights?a=1&b=2", "http://x.y/a%20b?q=1&r=2+3",
    "ms3://host/path#frag", "https://l.example/?sig=ab%2Bcd%3D%3D", "https://ü.example/路径?k=v w",
    "http://h/a+b", "http://h/100%", "https://h/p;x=1?$a=$b", "http://h/'quoted'\"double\"<tag>",
]


def gen_url(rng) -> str:
    if rng.random() < .7:
        return rng.choice(URLS)
    return "https://h/" + gen_string(rng)


def _tz(rng):
    from dashlive.utils.timezone import UTC, FixedOffsetTimeZone
    k = rng.random()
    if k < .4:
        return UTC()
    if k < .9:
        sign = rng.choice("+-")
        h = rng.randrange(0, 15)
        m = rng.choice([0, 0, 30, 45, 15])
        return FixedOffsetTimeZone(f"{sign}{h:02d}:{m:02d}")
    return FixedOffsetTimeZone("+00:00")


def gen_datetime(rng, micro=True) -> datetime.datetime:
    y = rng.choice([1970, 1999, 2000, 2023, 2024, 2025, 2038, 2099]) if rng.random() < .7 else rng.randrange(1, 9999)
    mo = rng.randrange(1, 13)
    d = rng.randrange(1, 29) if rng.random() < .8 else min(rng.choice([29, 30, 31]), _dim(y, mo))
    us = 0
    if micro and rng.random() < .4:
        us = rng.choice([1, 500000, 999999, 123456, 100, 250000, rng.randrange(1, 1000000)])
    return datetime.datetime(y, mo, d, rng.randrange(24), rng.randrange(60), rng.randrange(60), us, tzinfo=_tz(rng))


def _dim(y, m):
    if m == 2:
        return 29 if (y % 4 == 0 and y % 100 != 0) or y % 400 == 0 else 28
    return 30 if m in (4, 6, 9, 11) else 31


def gen_time(rng) -> datetime.time:
    return datetime.time(rng.randrange(24), rng.randrange(60), rng.randrange(60))


INTS = [0, 1, -1, 2, 4, 9, 10, 16, 30, 60, 99, 100, 1800, 2 ** 31 - 1, 2 ** 31, 2 ** 31 + 1, 2 ** 32 - 1, 2 ** 32,
        2 ** 32 + 1, 2 ** 33 - 1, 2 ** 33 + 1, 2 ** 53 - 1, 2 ** 53, 2 ** 53 + 1, 2 ** 63 - 1, -2 ** 63, 10 ** 30,
        4095, 4096, 4097, 9999, 10000, 10001, 65535, 65536, 99999, 100000, 100001, 4999999, 5000000, 5000001]


def gen_int(rng, lo=None) -> int:
    v = rng.choice(INTS) if rng.random() < .6 else rng.randrange(-10 ** 6, 10 ** 9)
    if lo is not None and v < lo:
        v = lo + abs(v) % 1000
    return v


TENTHS = [0, 1, 9, 10, 20, 25, 30, 40, 99, 100, 101, 12345, 10 ** 15 - 1]


def gen_value(kspec: str, rng, allow_none=True):
    """a canonical (round-trippable) value of the kind: (python value) – see
    lean/DashLive/Props/C07.lean `Canonical`"""
    from dashlive.drm.location import DrmLocation
    kbase = kspec.split(":")[0]
    if kbase == "bool":
        return rng.random() < .5
    if kbase == "intOrNone":
        return None if allow_none and rng.random() < .12 else gen_int(rng)
    if kbase == "intOrDefault":
        return gen_int(rng)
    if kbase == "posIntOrDefault":
        return gen_int(rng, lo=1)
    if kbase == "floatOrNone":
        if allow_none and rng.random() < .12:
            return None
        t = rng.choice(TENTHS) if rng.random() < .7 else rng.randrange(0, 10 ** 7)
        return t / 10.0
    if kbase == "strOrNone":
        return None if allow_none and rng.random() < .12 else gen_string(rng)
    if kbase == "strRaw":
        return gen_string(rng, allow_none_like=True) if rng.random() < .9 else rng.choice(["", "none", "None"])
    if kbase == "listJoin":
        n = rng.choice([0, 1, 1, 2, 3])
        return [gen_string(rng).replace(",", ";") for _ in range(n)]
    if kbase == "quotedUrl":
        return None if allow_none and rng.random() < .12 else gen_url(rng)
    if kbase == "drmSelection":
        names = ["clearkey", "marlin", "playready"]
        k = rng.random()
        if k < .1:
            return []
        if k < .2:
            order = names[:]
            rng.shuffle(order)
            return [(n, set(DrmLocation.all())) for n in order]
        chosen = rng.sample(names, rng.randrange(1, 4))
        if rng.random() < .08:
            chosen.append(rng.choice(chosen))
        out = []
        for n in chosen:
            locs = set(DrmLocation.all()) if rng.random() < .4 else set(
                rng.sample(list(DrmLocation.all()), rng.randrange(1, 4)))
            out.append((n, locs))
        return out
    if kbase == "astDateTime":
        k = rng.random()
        if k < .3:
            return rng.choice(["now", "today", "month", "year", "epoch"])
        if allow_none and k < .35:
            return None
        return gen_datetime(rng)
    if kbase == "dtOrNone":
        return None if allow_none and rng.random() < .15 else gen_datetime(rng)
    if kbase == "errorList":
        n = rng.choice([0, 1, 1, 2, 3])
        out = []
        for _ in range(n):
            code = rng.choice([404, 410, 500, 503, 504]) if rng.random() < .8 else gen_int(rng)
            k = rng.random()
            pos = gen_int(rng) if k < .55 else gen_time(rng) if k < .8 else gen_datetime(rng) if k < .95 else None
            out.append((code, pos))
        return out
    raise ValueError(kspec)


def spec_of_value(kspec: str, v) -> str:
    return enc_val(kspec.split(":")[0], v)


def cgi_text_of(kspec: str, v) -> str:
    """a URL text for a canonical value, written here from the documented syntax
    of each option type (not with the option's own to_string)"""
    import urllib.parse
    kbase = kspec.split(":")[0]
    if kbase == "bool":
        return "1" if v else "0"
    if v is None:
        return "" if kbase == "astDateTime" else "none"
    if kbase in ("intOrNone", "intOrDefault", "posIntOrDefault"):
        return str(v)
    if kbase == "floatOrNone":
        t = round(v * 10)
        return f"{t // 10}.{t % 10}"
    if kbase in ("strOrNone", "strRaw"):
        return v
    if kbase == "listJoin":
        return ",".join(v)
    if kbase == "quotedUrl":
        return urllib.parse.quote(v, safe="").replace("%20", "+")
    if kbase == "drmSelection":
        items = []
        for name, locs in v:
            names = sorted(loc.value for loc in locs)
            items.append(name if len(names) == 3 else "-".join([name] + names))
        return ",".join(items)
    if kbase in ("astDateTime", "dtOrNone"):
        return v if isinstance(v, str) else iso_text(v)
    if kbase == "errorList":
        return ",".join(f"{c}={'' if p is None else p if isinstance(p, int) else iso_text(p)}" for c, p in v)
    raise ValueError(kspec)


# ------------------------------------------------------------------ hostile / malformed texts per kind
COMMON_TEXTS = ["", "none", "None", "NONE", "nOnE", " ", "a&b", "a+b", "%", "%2", "%zz", "%41", "x%2Bx", "#", "?",
                "é", "日本", "o'k", "\"q\"", "<x>", ",", ",,", "a,,b", "-", "true", "True", "ON", "on", "off",
                "0", "1", "-1", "+5", " 7 ", "1_0", "_1", "1__0", "1_", "\t5\n", "5\x1f", "\x0c6", "007", "- 5",
                "5 5", "0x10", "1e3x", "--1", "+-1", "12a", "9e4", "1000.0", "true", "null", "&nbsp;", "{x}"]
FLOAT_TEXTS = ["1.0", "2.0", "3.0", "4.0", "0.5", "10.9", " 2.0 ", "7", "123456.7", "abc", "1.2.3", "1,5", "2.x",
               "x.1", "", "none", "None", "..", "a.b"]
DRM_TEXTS = ["all", "ALL", "All", "all-pro", "all-pro-cenc", "all-moov", "all-foo", "allx", "all-", "none",
             "nonesuch", "None-x", "playready", "PlayReady", "playready-pro", "playready-PRO", "playready-",
             "playready--pro", "foo", "foo-pro", "foo-bar", "playready,marlin-moov-cenc", "clearkey-cenc-cenc",
             ",", "playready,", ",playready", "-pro", " all", "marlin-cenc,clearkey-moov,playready-pro-cenc-moov",
             "clearkey,marlin,playready", "playready,clearkey,marlin", "é", "a&b", "all,playready",
             "playready-pro,all"]
ERR_TEXTS = ["503=5", "404=1,410=3", "503=07:00:00Z", "503=2024-01-01T00:00:00Z", "404=2024-06-07T08:09:10.500000+05:30",
             "503", "503=", "=5", "503=5=6", "x=5", "503=x", ",", "none", "NONE", "", "503=5,", "503= 5 ", " 503 =5",
             "503=-3", "-1=2", "503=1_0", "a&b", "503=25:00:00Z", "503=2024-13-01T00:00:00Z", "404=5,none"]
AST_TEXTS = ["now", "today", "month", "year", "epoch", "Now", "TODAY", "", "none", "x", "a&b",
             "2024-01-01T05:30:00 05:30", "2024-01-01T05:30:00+05:30", "2024-01-01T00:00:00Z",
             "2024-02-30T00:00:00Z", "2024-13-01T00:00:00Z", "2024-01-01T24:00:00Z", "2024-01-01T00:00:60Z",
             "0000-01-01T00:00:00Z", "12:30:45Z", "25:00:00Z", "2024-01-01 00:00:00Z", "20240101T000000Z",
             "2023-12-31T23:59:59.999999-08:00", "2024-01-01T00:00:00.000001Z", "2024-01-01Tx", "T", "Z",
             "2024-01-01T00:00:00", "2024-06-07T08:09:10.250000"]
URL_TEXTS = ["http%3A%2F%2Fx%2Fa%2520b", "https%3A%2F%2Fl.x%2F%3Fa%3D1%26b%3D2", "a+b", "a%2Bb", "%C3%A9", "%c3%A9",
             "%E6%97%A5", "%25", "%2525", "%%41", "%4", "%", "%zz", "x%zzy%41", "none", "NONE", "", "é%41", "a b"]


def texts_for(kbase: str, rng, n: int) -> list[str]:
    pool = list(COMMON_TEXTS)
    if kbase == "floatOrNone":
        pool = FLOAT_TEXTS + ["abc", "é", "a&b", " ", "-"]
    elif kbase == "drmSelection":
        pool = DRM_TEXTS
    elif kbase == "errorList":
        pool = ERR_TEXTS
    elif kbase in ("astDateTime", "dtOrNone"):
        pool = AST_TEXTS
    elif kbase == "quotedUrl":
        pool = URL_TEXTS + ["a&b", "#", "é"]
    elif kbase in ("strOrNone", "strRaw", "listJoin", "bool"):
        pool = COMMON_TEXTS + RESERVED + NON_ASCII
    if n >= len(pool):
        return list(pool)
    return rng.sample(pool, n)


# ------------------------------------------------------------------ the deterministic part of the value generators
OFFSETS = ["+00:00", "-03:30", "-00:30", "+12:45", "+14:00", "-12:00", "+23:59", "+05:30"]
MICROS = [0, 1, 250000, 499999, 500000, 750000, 999999]
YEARS = [1, 100, 1479, 1900, 1970, 2000, 2024, 2036, 2038, 2040, 2100, 9999]


def fixed_datetimes():
    from dashlive.utils.timezone import UTC, FixedOffsetTimeZone
    out = []
    for k, y in enumerate(YEARS):
        off = OFFSETS[k % len(OFFSETS)]
        tz = UTC() if k % 3 == 0 else FixedOffsetTimeZone(off)
        mo, d = [(1, 1), (12, 31), (2, 28), (3, 1)][k % 4]
        out.append(datetime.datetime(y, mo, d, [0, 23, 12][k % 3], [0, 59, 30][k % 3], [0, 59, 1][k % 3],
                                     MICROS[k % len(MICROS)], tzinfo=tz))
    for off in OFFSETS:
        out.append(datetime.datetime(2024, 2, 29, 23, 59, 59, 0, tzinfo=FixedOffsetTimeZone(off)))
    for us in MICROS:
        out.append(datetime.datetime(2024, 5, 6, 7, 8, 9, us, tzinfo=UTC()))
    return out


def fixed_values(kspec: str) -> list:
    """boundary and spelling classes every run covers, whatever the seed (harness/CHECKLIST.md 2, 3, 5, 7)"""
    from dashlive.drm.location import DrmLocation
    kbase = kspec.split(":")[0]
    strings = [x for x in PLAIN + RESERVED + NON_ASCII if not is_none_ci(x)]
    if kbase == "bool":
        return [True, False]
    if kbase == "intOrNone":
        return [None] + INTS + [-x for x in INTS[1:12]]
    if kbase == "intOrDefault":
        return INTS + [-x for x in INTS[1:12]]
    if kbase == "posIntOrDefault":
        return [x for x in INTS if x >= 1]
    if kbase == "floatOrNone":
        return [None] + [t / 10.0 for t in TENTHS]
    if kbase == "strOrNone":
        return [None] + strings
    if kbase == "strRaw":
        return strings + ["", "none", "None", "0"]
    if kbase == "listJoin":
        items = [x.replace(",", ";") for x in strings]
        return [[], [items[0]], items[1:3], items[3:6]] + [[x] for x in items[6:]]
    if kbase == "quotedUrl":
        return [None] + URLS
    if kbase == "drmSelection":
        allloc = set(DrmLocation.all())
        return [[], [("playready", allloc)], [("marlin", allloc), ("clearkey", allloc), ("playready", allloc)],
                [("clearkey", {DrmLocation.MOOV}), ("marlin", {DrmLocation.MOOV}), ("playready", {DrmLocation.MOOV})],
                [("playready", {DrmLocation.PRO, DrmLocation.CENC}), ("clearkey", allloc)]]
    if kbase == "astDateTime":
        return ["now", "today", "month", "year", "epoch", None] + fixed_datetimes()
    if kbase == "dtOrNone":
        return [None] + fixed_datetimes()
    if kbase == "errorList":
        dts = fixed_datetimes()
        return [[], [(404, 0)], [(503, 1), (410, 2 ** 31)], [(404, datetime.time(0, 0, 0)), (503, datetime.time(23, 59, 59))],
                [(500, dts[3]), (504, None), (404, -1)], [(2 ** 53 + 1, 2 ** 63 - 1), (-1, 10000), (0, 4096)]]
    raise ValueError(kspec)
