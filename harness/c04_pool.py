"""C04: content classes for opaque byte payloads (shared by c04_gen.py and c04_synth.py).

A byte string field (unknown box payload, emsg message_data, pssh data, key ids,
system ids, IVs, SPS/PPS/NAL units, descriptor data, mdat) is opaque: whatever
the bytes look like, they must come back unchanged.  Random bytes practically
never look like anything, so half of the draws come from classes of content
that *could be mistaken for another encoding of data*: hex text (`0x…`, even /
odd length, valid / invalid digits), base64 text, JSON values, digits, UTF-8
multi-byte text, all-zero, empty, a single byte, bytes that start like a box
header, and fixed-width values that start with the ASCII bytes `0x`.
Independent of dashlive.
"""
from __future__ import annotations

import base64
import struct

HEXD = "0123456789abcdefABCDEF"


def _rand(rng, n):
    return bytes(rng.randrange(256) for _ in range(n))


def _hex_text(rng, digits: int, valid: bool = True) -> bytes:
    s = "".join(rng.choice(HEXD) for _ in range(digits))
    if not valid and digits:
        i = rng.randrange(digits)
        s = s[:i] + rng.choice("gxz-_ ") + s[i + 1:]
    return ("0x" + s).encode("ascii")


CLASSES = ["hex-even", "hex-odd", "hex-invalid", "hex-bare", "base64", "json-object", "json-array",
           "json-string", "digits", "json-literal", "utf8", "zeros", "empty", "one-byte", "box-header",
           "0x-binary"]


def content(rng, cls: str | None = None) -> bytes:
    """a variable-length payload of one content class"""
    cls = cls or rng.choice(CLASSES)
    if cls == "hex-even":
        return _hex_text(rng, 2 * rng.choice([0, 1, 4, 8, 16]))
    if cls == "hex-odd":
        return _hex_text(rng, 2 * rng.choice([0, 1, 4, 8]) + 1)
    if cls == "hex-invalid":
        return _hex_text(rng, 2 * rng.choice([1, 4, 8]), valid=False)
    if cls == "hex-bare":
        return "".join(rng.choice(HEXD) for _ in range(2 * rng.choice([1, 8, 16]))).encode()
    if cls == "base64":
        return base64.b64encode(_rand(rng, rng.choice([1, 2, 3, 12, 16])))
    if cls == "json-object":
        return rng.choice([b"{}", b'{"a":1}', b'{"_type":"dashlive.utils.binary.Binary","b64":"AAEC"}',
                           b'{"hx":"0011"}'])
    if cls == "json-array":
        return rng.choice([b"[]", b"[1,2,3]", b'["0x00"]'])
    if cls == "json-string":
        return rng.choice([b'""', b'"0x1234"', b'"abc"'])
    if cls == "digits":
        return "".join(rng.choice("0123456789") for _ in range(rng.choice([1, 2, 8, 16]))).encode()
    if cls == "json-literal":
        return rng.choice([b"true", b"false", b"null", b"None", b"0", b"-1", b"1e3"])
    if cls == "utf8":
        return "".join(rng.choice("aé€日𝄞ß ") for _ in range(rng.randrange(1, 9))).encode("utf-8")
    if cls == "zeros":
        return bytes(rng.choice([1, 2, 8, 16, 33]))
    if cls == "empty":
        return b""
    if cls == "one-byte":
        return bytes([rng.choice([0, 0x30, 0x78, 0xFF, rng.randrange(256)])])
    if cls == "box-header":
        inner = _rand(rng, rng.choice([0, 4, 9]))
        return struct.pack(">I4s", rng.choice([8 + len(inner), 0, 1, 16]), rng.choice([b"free", b"moof", b"mdat", b"uuid"])) + inner
    if cls == "0x-binary":
        return b"0x" + _rand(rng, rng.choice([0, 2, 14, 15]))
    raise ValueError(cls)


def payload(rng, sizes=(0, 0, 1, 3, 8, 9, 40)) -> bytes:
    """variable-length opaque bytes: half content classes, half random of a boundary length"""
    if rng.random() < .5:
        return content(rng)
    return _rand(rng, rng.choice(list(sizes)))


def fixed(rng, n: int) -> bytes:
    """exactly `n` opaque bytes (key id, system id, IV, brand …): values that start with
    the ASCII bytes `0x` (followed by valid hex text, invalid hex text or binary), text-like
    and constant values next to random ones"""
    k = rng.random()
    if k < .5 or n < 2:
        return _rand(rng, n)
    if k < .62:
        return _hex_text(rng, n - 2)[:n]                 # '0x' + hex digits: even total length iff n even
    if k < .70:
        return _hex_text(rng, n - 2, valid=False)[:n]
    if k < .78:
        return (b"0x" + _rand(rng, n - 2))[:n]
    if k < .84:
        return bytes(n)
    if k < .90:
        return b"\xff" * n
    if k < .95:
        return "".join(rng.choice("0123456789") for _ in range(n)).encode()
    return base64.b64encode(_rand(rng, n))[:n]
