"""c18_layouts – stored-media *layout variety* for the acceptance half of C18.

The fixtures (bbb, tears) all store their media the same way: 32-bit box headers, version-0/1 tfdt as
needed, default-base-is-moof, `saiz saio senc` in that order, fragments numbered from 1 …  The validator has
to accept what the server generates from *any* stored layout the server accepts, so this module registers
streams whose files are laid out differently while staying inside the layout hypotheses of the acceptance
theorems (equal segment durations, no loop drift, first decode time 0):

  c18la  mdat boxes with the 64-bit `largesize` header (16 bytes) in video and audio
  c18lb  version-1 tfdt, explicit tfhd base_data_offset, styp + sidx in front of every moof, composition offsets
  c18lc  no tfdt at all, implicit base (neither tfhd flag), sample durations only as tfhd / trex defaults
  c18ld  encrypted: senc in front of saiz/saio, 16-byte IVs, version-1 saio (video) / sub-sample-free audio
  c18le  fragments numbered from 0 (audio) and from 7 (video), largesize moof-less … big segments (64 KiB payloads)
  c18lf  largesize mdat + encrypted + a stored PIFF clone of the senc

Files are written by the independent writer `mp4synth`; the `largesize` form is produced by byte surgery here
(mp4synth has no such switch): every top-level `mdat` header is rewritten from `size32 'mdat'` to
`1 'mdat' size64`, and the trun data_offset of the preceding moof (relative to the moof with
default-base-is-moof) is moved by the eight inserted bytes.
"""
from __future__ import annotations

import struct

import mp4synth
import mp4walk

V_TS, V_DUR, N_SEG = 240, 960, 5                 # 5 segments of 4 s
A_TS, A_DUR, A_SAMPLES = 48000, 192000, 192      # 192 samples of 1000 ticks = 4 s exactly

STREAMS = {
    "c18la": {"enc": False, "what": "largesize mdat"},
    "c18lb": {"enc": False, "what": "tfdt v1, explicit base, styp+sidx, cto"},
    "c18lc": {"enc": False, "what": "no tfdt, implicit base, default durations"},
    "c18ld": {"enc": True, "what": "senc before saiz/saio, 16-byte IV, saio v1"},
    "c18le": {"enc": False, "what": "numbered from 0 / 7, 64 KiB segments"},
    "c18lf": {"enc": True, "what": "largesize mdat, encrypted, PIFF clone"},
    "c18lg": {"enc": False, "what": "two segments only, timescales 10^7 (video) and 1000 (audio)"},
}
DURATION_S = N_SEG * 4

# streams with SHORT segments (around the validator's two-second availability margin): name -> video ticks per
# segment at V_TS; audio has the same duration at A_TS (96 samples per segment); 12 segments each
SHORT = {"c18s05": 120, "c18s10": 240, "c18s19": 456, "c18s20": 480, "c18s21": 504}
SHORT_SEGMENTS = 12


def largesize_mdat(data: bytes) -> bytes:
    """rewrite every top-level mdat with the 64-bit largesize header; fix the trun data_offset of the moof
    in front of it (requires default-base-is-moof addressing and no sidx, which would hold stale sizes)"""
    boxes = mp4walk.walk(data)
    out = bytearray()
    pos = 0
    prev_moof = None
    for bx in boxes:
        if bx.type == "sidx":
            raise ValueError("largesize surgery on a file with sidx boxes")
        if bx.type == "moof":
            prev_moof = bx
        if bx.type != "mdat" or bx.header_size != 8:
            continue
        out += data[pos:bx.start]
        if prev_moof is not None:
            # patch the trun data_offset inside the already copied moof
            shift = len(out) - bx.start                      # bytes inserted so far
            for trun in mp4walk.find_all(prev_moof, "traf/trun"):
                p = trun.fields.get("data_offset_pos")
                tfhd = mp4walk.find(prev_moof, "traf/tfhd")
                if p is None or tfhd is None or not tfhd.fields["default_base_is_moof"]:
                    raise ValueError("largesize surgery needs default-base-is-moof and a trun data_offset")
                (old,) = struct.unpack(">i", data[p:p + 4])
                out[p + shift:p + shift + 4] = struct.pack(">i", old + 8)
        out += struct.pack(">I4sQ", 1, b"mdat", bx.size + 8)
        pos = bx.payload_start
    out += data[pos:]
    res = bytes(out)
    mp4walk.walk(res)          # must still nest exactly
    return res


def build(name: str) -> dict:
    v_d, a_d = [V_DUR] * N_SEG, [A_DUR] * N_SEG
    if name == "c18la":
        v = largesize_mdat(mp4synth.make_track("video", V_TS, v_d, samples_per_segment=4, seed=181, track_id=1))
        a = largesize_mdat(mp4synth.make_track("audio", A_TS, a_d, samples_per_segment=A_SAMPLES, seed=182,
                                               track_id=2))
    elif name == "c18lb":
        v = mp4synth.make_track("video", V_TS, v_d, samples_per_segment=4, seed=183, track_id=1, tfdt_version=1,
                                base="explicit", with_styp=True, with_sidx=True, trun_cto=True)
        a = mp4synth.make_track("audio", A_TS, a_d, samples_per_segment=A_SAMPLES, seed=184, track_id=2,
                                tfdt_version=1, base="explicit", with_styp=True)
    elif name == "c18lc":
        v = mp4synth.make_track("video", V_TS, v_d, samples_per_segment=4, seed=185, track_id=1, with_tfdt=False,
                                base="implicit", sample_durations_in="tfhd")
        a = mp4synth.make_track("audio", A_TS, a_d, samples_per_segment=A_SAMPLES, seed=186, track_id=2,
                                with_tfdt=False, base="implicit", sample_durations_in="trex")
    elif name == "c18ld":
        v = mp4synth.make_track("video", V_TS, v_d, samples_per_segment=4, seed=187, track_id=1, encrypted=True,
                                iv_size=16, saio_version=1, traf_order="trun,senc,saiz,saio")
        a = mp4synth.make_track("audio", A_TS, a_d, samples_per_segment=A_SAMPLES, seed=188, track_id=2,
                                encrypted=True, iv_size=8, traf_order="senc_first", saiz_default=False)
    elif name == "c18le":
        v = mp4synth.make_track("video", V_TS, v_d, samples_per_segment=4, seed=189, track_id=1, start_number=7,
                                payload_bytes=[65536, 70000, 65535, 66000, 131072])
        a = mp4synth.make_track("audio", A_TS, a_d, samples_per_segment=A_SAMPLES, seed=190, track_id=2,
                                start_number=0)
    elif name == "c18lf":
        v = largesize_mdat(mp4synth.make_track("video", V_TS, v_d, samples_per_segment=4, seed=191, track_id=1,
                                               encrypted=True, traf_order="trun,senc,piff,saiz,saio"))
        a = largesize_mdat(mp4synth.make_track("audio", A_TS, a_d, samples_per_segment=A_SAMPLES, seed=192,
                                               track_id=2, encrypted=True))
    elif name == "c18lg":
        v = mp4synth.make_track("video", 10_000_000, [40_000_000] * 2, samples_per_segment=4, seed=193, track_id=1)
        a = mp4synth.make_track("audio", 1000, [4000] * 2, samples_per_segment=4, seed=194, track_id=2)
    elif name in SHORT:
        vd = SHORT[name]
        ad = vd * (A_TS // V_TS)
        v = mp4synth.make_track("video", V_TS, [vd] * SHORT_SEGMENTS, samples_per_segment=4, seed=195, track_id=1)
        a = mp4synth.make_track("audio", A_TS, [ad] * SHORT_SEGMENTS, samples_per_segment=96, seed=196, track_id=2)
        return {f"{name}_v1": v, f"{name}_a1": a}
    else:
        raise KeyError(name)
    suffix = "_enc" if STREAMS[name]["enc"] else ""
    return {f"{name}_v1{suffix}": v, f"{name}_a1{suffix}": a}


_READY: set = set()


def ensure(app, names=None) -> list:
    """register the layout streams (once per process); returns the names that registered"""
    ok = []
    for name in (names or (list(STREAMS) + list(SHORT))):
        if name not in _READY:
            tracks = build(name)
            video = next(k for k in tracks if "_v1" in k)
            what = STREAMS[name]["what"] if name in STREAMS else f"short segments ({SHORT[name]}/{V_TS} s)"
            mp4synth.register(app, name, f"C18 layout: {what}", tracks, timing_from=video)
            _READY.add(name)
        ok.append(name)
    return ok
