"""Request builders / response readers shared by the C11 and C10 checks.

Everything that *judges* a response uses the independent walker `mp4walk`, lxml and
`c11_oracle`; nothing here calls into dashlive except through HTTP.
"""
from __future__ import annotations

import base64
import itertools
import urllib.parse

from lxml import etree

import c11_oracle as orc
import mp4walk

SYSTEMS = ["clearkey", "marlin", "playready"]
LOCATIONS = ["cenc", "moov", "pro"]
PR_VERSIONS = [None, "1.0", "2.0", "3.0", "4.0"]

MPD_NS = "urn:mpeg:dash:schema:mpd:2011"
CENC_NS = "urn:mpeg:cenc:2013"
MSPR_NS = "urn:microsoft:playready"


def hx(b) -> str:
    return bytes(b).hex() or "-"


def hexlist(bs) -> str:
    return ",".join(bytes(b).hex() for b in bs) or "-"


def text_cp(s: str) -> str:
    return ".".join(str(ord(c)) for c in s) or "-"


def cp_text(s: str) -> str:
    return "" if s == "-" else "".join(chr(int(x)) for x in s.split("."))


def selection_string(sel: list[tuple[str, list[str] | None]]) -> str:
    """[(system, locations or None for all)] -> value of the `drm` parameter"""
    parts = []
    for name, locs in sel:
        parts.append(name if locs is None else "-".join([name] + list(locs)))
    return ",".join(parts)


def all_selections():
    """every subset of systems x every non-empty subset of locations (same locations for
    each system of the subset) + per-system mixes are generated separately"""
    loc_subsets = [None] + [list(c) for n in (1, 2, 3) for c in itertools.combinations(LOCATIONS, n)]
    for n in (1, 2, 3):
        for systems in itertools.combinations(SYSTEMS, n):
            for locs in loc_subsets:
                yield [(s, locs) for s in systems]


def requested_ex(sel_value: str):
    """the property's reading of a `drm` value: (system -> requested locations, ambiguous systems).
    A bare name means every location; `all` means every system with every location, `all-<locs>`
    every system with those locations.  A system named more than once with different location
    lists is *ambiguous* (the documentation does not say which entry counts): the last entry is
    reported and the system is listed in the second result.  None when the value is not one this
    reader understands (unknown names, `all-…` mixed with further suffixed items)."""
    v = sel_value.lower()
    if v in ("", "none"):
        return {}, set()
    items = v.split(",")
    out: dict[str, set[str]] = {}
    ambiguous: set[str] = set()

    def put(name, locs):
        if name in out and out[name] != locs:
            ambiguous.add(name)
        out[name] = locs

    if items[0] == "all" or items[0].startswith("all-"):
        locs = items[0].split("-")[1:]
        if any(x not in LOCATIONS for x in locs) or (items[0] != "all" and not locs):
            return None
        if len(items) > 1 and (locs or any("-" in it for it in items[1:])):
            return None          # `all` combined with suffixed items: meaning not documented
        for s in SYSTEMS:
            put(s, set(locs) if locs else set(LOCATIONS))
        items = items[1:]
    for item in items:
        parts = item.split("-")
        if parts[0] not in SYSTEMS:
            return None
        locs = parts[1:]
        if any(x not in LOCATIONS for x in locs) or (len(parts) > 1 and not locs):
            return None
        put(parts[0], set(locs) if locs else set(LOCATIONS))
    return out, ambiguous


def requested(sel_value: str) -> dict[str, set[str]] | None:
    """as requested_ex, None also when any system is ambiguous"""
    r = requested_ex(sel_value)
    if r is None or r[1]:
        return None
    return r[0]


def targeted_mixed_selections() -> list[str]:
    """mixed-form `drm` values: one item with an explicit location list next to a bare name, in
    both orders, for every ordered pair of systems and every non-empty location subset; plus
    three-item mixes, differing per-item suffixes, repeated systems and `all` with names"""
    loc_subsets = [list(c) for n in (1, 2, 3) for c in itertools.combinations(LOCATIONS, n)]
    out = []
    for a, b in itertools.permutations(SYSTEMS, 2):
        for locs in loc_subsets:
            suff = "-".join([a] + locs)
            out.append(f"{suff},{b}")
            out.append(f"{b},{suff}")
    for a, b, c in itertools.permutations(SYSTEMS, 3):
        out.append(f"{a}-cenc,{b},{c}")
        out.append(f"{a},{b}-pro,{c}")
        out.append(f"{a}-cenc,{b}-moov,{c}")
        out.append(f"{a}-pro-cenc,{b}-moov-cenc,{c}-pro")
    for a in SYSTEMS:
        out += [f"{a}-cenc,{a}", f"{a},{a}-cenc", f"{a}-moov,{a}-cenc", f"{a}-cenc,{a}-moov", f"{a}-pro,{a}-pro",
                f"all,{a}", f"all,{a}-cenc", f"all-cenc,{a}"]
    return out


def random_mixed_selection(rng) -> str:
    items = []
    for _ in range(rng.choice([1, 2, 2, 3, 3, 4])):
        name = rng.choice(SYSTEMS)
        if rng.random() < .45:
            items.append(name)
        else:
            locs = rng.sample(LOCATIONS, rng.choice([1, 1, 2, 3]))
            items.append("-".join([name] + locs))
    v = ",".join(items)
    r = rng.random()
    if r < .06:
        v = "all," + v
    elif r < .12:
        v = v.upper()
    return v


def query(params: dict[str, str | None]) -> str:
    q = urllib.parse.urlencode({k: v for k, v in params.items() if v is not None},
                               quote_via=urllib.parse.quote, safe="")
    return ("?" + q) if q else ""


def ext_for(content_type: str) -> str:
    return {"video": "m4v", "audio": "m4a"}.get(content_type, "mp4")


def init_url(media: dict, mode: str, params: dict, mps: tuple[str, int] | None = None) -> str:
    ext = ext_for(media["content_type"])
    if mps is not None:
        return f"/mps/{mode}/{mps[0]}/{mps[1]}/{media['name']}/init.{ext}" + query(params)
    return f"/dash/{mode}/{media['stream']}/{media['name']}/init.{ext}" + query(params)


class PsshInfo:
    def __init__(self, raw: bytes, version: int, system_id: bytes, kids: list[bytes], data: bytes):
        self.raw, self.version, self.system_id, self.kids, self.data = raw, version, system_id, kids, data

    def to_json(self):
        return dict(raw=self.raw.hex(), version=self.version, system_id=self.system_id.hex(),
                    kids=[k.hex() for k in self.kids], data=self.data.hex())


def pssh_of_box(data: bytes, box) -> PsshInfo:
    f = box.fields
    return PsshInfo(bytes(data[box.start:box.end]), f["version"], bytes.fromhex(f["system_id"]),
                    [bytes.fromhex(k) for k in f["kids"]], bytes.fromhex(f["data"]))


def moov_psshs(data: bytes) -> list[PsshInfo]:
    """pssh boxes that are direct children of moov, in file order (strict walker)"""
    boxes = mp4walk.walk(data)
    return [pssh_of_box(data, b) for b in mp4walk.find_all(boxes, "moov/pssh")]


def parse_standalone_pssh(raw: bytes) -> PsshInfo:
    boxes = mp4walk.walk(raw)
    if len(boxes) != 1 or boxes[0].type != "pssh":
        raise ValueError("not exactly one pssh box")
    return pssh_of_box(raw, boxes[0])


def tenc_default_kid(init: bytes) -> bytes | None:
    boxes = mp4walk.walk(init)
    t = mp4walk.find_all(boxes, "moov/trak/mdia/minf/stbl/stsd/*/sinf/schi/tenc")
    if not t:
        return None
    return bytes.fromhex(t[0].fields["default_kid"])


# ------------------------------------------------------------------ manifests

def q(ns, name):
    return f"{{{ns}}}{name}"


def read_manifest(xml: bytes, request_url: str = "http://localhost/"):
    """-> list of adaptation sets: dict(content_type, rep_ids, cps=[dict(scheme, default_kid,
    pssh(bytes|None), pro(bytes|None), laurl, marlin_ids, value)], init_urls={rep id: URL the
    manifest advertises for the init segment, resolved against the BaseURL chain; None if there is
    no SegmentTemplate@initialization})"""
    root = etree.fromstring(xml)

    def base_of(el, base):
        b = el.find(q(MPD_NS, "BaseURL"))
        return urllib.parse.urljoin(base, (b.text or "").strip()) if b is not None else base

    out = []
    mpd_base = base_of(root, request_url)
    for period in root.iter(q(MPD_NS, "Period")):
        period_base = base_of(period, mpd_base)
        for adp in period.findall(q(MPD_NS, "AdaptationSet")):
            adp_base = base_of(adp, period_base)
            adp_tmpl = adp.find(q(MPD_NS, "SegmentTemplate"))
            reps = adp.findall(q(MPD_NS, "Representation"))
            init_urls = {}
            for rep in reps:
                tmpl = rep.find(q(MPD_NS, "SegmentTemplate"))
                tmpl = tmpl if tmpl is not None else adp_tmpl
                init = tmpl.get("initialization") if tmpl is not None else None
                if init is None:
                    init_urls[rep.get("id")] = None
                    continue
                init = init.replace("$RepresentationID$", rep.get("id") or "").replace("$Bandwidth$", rep.get("bandwidth") or "")
                init_urls[rep.get("id")] = urllib.parse.urljoin(base_of(rep, adp_base), init.replace("$$", "$"))
            cps = []
            holders = [adp] + reps
            for holder in holders:
                for cp in holder.findall(q(MPD_NS, "ContentProtection")):
                    pssh = cp.find(q(CENC_NS, "pssh"))
                    pro = cp.find(q(MSPR_NS, "pro"))
                    laurl = None
                    marlin_ids = None
                    for ch in cp:
                        if isinstance(ch.tag, str) and ch.tag.endswith("}Laurl"):
                            laurl = ch.text
                        if isinstance(ch.tag, str) and ch.tag.endswith("}MarlinContentIds"):
                            marlin_ids = [x.text for x in ch]
                    cps.append(dict(
                        scheme=(cp.get("schemeIdUri") or ""),
                        default_kid=cp.get(q(CENC_NS, "default_KID")),
                        value=cp.get("value"),
                        pssh=base64.b64decode(pssh.text.strip(), validate=True) if pssh is not None else None,
                        pro=base64.b64decode(pro.text.strip(), validate=True) if pro is not None else None,
                        laurl=laurl, marlin_ids=marlin_ids,
                        on="adaptation" if holder is adp else "representation"))
            out.append(dict(content_type=adp.get("contentType") or (adp.get("mimeType") or "").split("/")[0],
                            rep_ids=[r.get("id") for r in reps], cps=cps,
                            period=period.get("id"), init_urls=init_urls))
    return out


def local_path(url: str) -> str:
    """absolute URL of the test server -> path?query for the WSGI client"""
    u = urllib.parse.urlsplit(url)
    return u.path + ("?" + u.query if u.query else "")


def system_of_scheme(scheme: str) -> str | None:
    s = scheme.lower()
    if s == orc.MP4PROTECTION:
        return "mp4protection"
    if s in ("urn:uuid:9a04f079-9840-4286-ab92-e65be0885f95", "urn:uuid:" + orc.PLAYREADY_SYSTEM_ID_V10):
        return "playready"
    if s in (orc.CLEARKEY_MPD_SCHEME, "urn:uuid:1077efec-c0b2-4d02-ace3-3c1e52e2fb4b"):
        return "clearkey"
    if s == orc.MARLIN_SCHEME:
        return "marlin"
    return None


# ------------------------------------------------------------------ process-wide state

def canon_value(v, depth=0):
    """order-free, address-free rendering of a module-level constant"""
    import enum
    if depth > 6:
        return "…"
    if isinstance(v, (set, frozenset)):
        return "{" + ",".join(sorted(canon_value(x, depth + 1) for x in v)) + "}"
    if isinstance(v, dict):
        return "{" + ",".join(sorted(f"{canon_value(k, depth + 1)}:{canon_value(x, depth + 1)}" for k, x in v.items())) + "}"
    if isinstance(v, (list, tuple)):
        return "[" + ",".join(canon_value(x, depth + 1) for x in v) + "]"
    if isinstance(v, enum.Enum):
        return f"{type(v).__name__}.{v.name}"
    if isinstance(v, (str, bytes, int, float, bool, type(None))):
        return repr(v)
    if callable(v):
        return f"<callable {getattr(v, '__qualname__', type(v).__name__)}>"
    if type(v).__name__ == "DashOption":
        import dataclasses
        if dataclasses.is_dataclass(v):
            items = [(f.name, getattr(v, f.name, None)) for f in dataclasses.fields(v)]
        elif hasattr(v, "__dict__"):
            items = sorted(vars(v).items())
        elif hasattr(v, "_asdict"):
            items = sorted(v._asdict().items())
        else:
            items = [(k, getattr(v, k, None)) for k in getattr(type(v), "__slots__", ())]
        return "DashOption(" + ",".join(f"{k}={canon_value(x, depth + 1)}" for k, x in items) + ")"
    if type(v).__module__.startswith("dashlive.drm") and hasattr(v, "__dict__"):
        # a DRM system object kept at module level: its attributes are shared by every request
        return f"{type(v).__name__}(" + ",".join(f"{k}={canon_value(x, depth + 1)}" for k, x in sorted(vars(v).items())) + ")"
    return f"<{type(v).__name__}>"


CONST_MODULE_PREFIXES = ("dashlive.server.options", "dashlive.drm", "dashlive.server.requesthandler.drm_context")


def snapshot_constants() -> dict[str, str]:
    """every module-level constant (UPPER_CASE name, or a DashOption instance) of the option
    layer and the DRM package: shared defaults that no request may change"""
    import sys
    out = {}
    for name, mod in list(sys.modules.items()):
        if mod is None or not name.startswith(CONST_MODULE_PREFIXES):
            continue
        for attr, val in list(vars(mod).items()):
            if attr.startswith("_") or isinstance(val, type(sys)) or isinstance(val, type):
                continue
            if attr.isupper() or type(val).__name__ == "DashOption" or \
                    (type(val).__module__.startswith("dashlive.drm") and hasattr(val, "__dict__")):
                out[f"{name}.{attr}"] = canon_value(val)
        for cname, cls in list(vars(mod).items()):
            if isinstance(cls, type) and cls.__module__ == name:
                for attr, val in list(vars(cls).items()):
                    if callable(val) or attr.startswith("_"):
                        continue          # private / enum-internal caches are not shared configuration
                    # class-level constants and class-level mutable containers (shared by every instance)
                    if attr.isupper() or isinstance(val, (dict, list, set)):
                        out[f"{name}.{cname}.{attr}"] = canon_value(val)
    return out




_DEFAULTS: dict = {}


def effective_drm(env, c) -> str:
    """the DRM selection in force for a request: the `drm` parameter if given, else the stream's
    stored default, else none"""
    if c.get("drm") is not None:
        return c["drm"]
    if not _DEFAULTS:
        _DEFAULTS.update(env.stream_defaults() or {"": {}})
    return (_DEFAULTS.get(c.get("stream")) or {}).get("drmSelection") or ""


def default_license_url(env, stream: str) -> str | None:
    if not _DEFAULTS:
        _DEFAULTS.update(env.stream_defaults() or {"": {}})
    return ((_DEFAULTS.get(stream) or {}).get("playready") or {}).get("licenseUrl")
