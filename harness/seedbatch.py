#!/usr/bin/env python3
"""Coordinator helper: verify a batch of seeded changes delivered by independent sub-agents.

    python3 harness/seedbatch.py C01d C02d ...

For every tag with /tmp/seed-out-<tag>/meta.json it derives a directory name from the summary,
runs `seedtool.py verify` (pinned suite, demo on modified/clean tree, the registered quick check of
the property against the modified worktree), sets the property id in the stored meta.json and prints
one line per change.  Worktrees of changes that were caught with a failing input are removed; the
others are kept for the builder who strengthens the check."""
import json
import re
import subprocess
import sys
from pathlib import Path

V = Path(__file__).resolve().parent.parent
STOP = {"the", "a", "an", "of", "in", "to", "is", "now", "and", "for", "with", "that", "it", "its", "on", "by", "was",
        "dashlive", "py", "server", "requesthandler", "mpeg", "dash", "utils", "models", "no", "longer", "instead"}


def slug(summary: str) -> str:
    words = [w.lower() for w in re.findall(r"[A-Za-z][A-Za-z0-9]+", summary)]
    words = [w for w in words if w not in STOP][:6]
    return "-".join(words)[:60] or "change"


def main():
    for tag in sys.argv[1:]:
        out = Path(f"/tmp/seed-out-{tag}")
        if not (out / "meta.json").exists() or not (out / "patch.diff").exists():
            print(f"{tag}: no deliverables yet")
            continue
        pid = re.match(r"C\d\d", tag).group(0)
        meta = json.loads((out / "meta.json").read_text())
        name = f"{pid}-{slug(meta.get('summary') or tag)}"
        if (V / "seeded" / name / "patch.diff").exists() and \
                (V / "seeded" / name / "patch.diff").read_text() != (out / "patch.diff").read_text():
            name += "-" + tag[3:]          # never overwrite an earlier change that happens to share the slug
        p = subprocess.run(["python3", "harness/seedtool.py", "verify", tag, name, "--checks", pid, "--seeds", "0"],
                           cwd=V, text=True, capture_output=True)
        txt = p.stdout + p.stderr
        mp = V / "seeded" / name / "meta.json"
        if mp.exists():
            j = json.loads(mp.read_text())
            j["property"] = pid
            mp.write_text(json.dumps(j, indent=1))
        viol = next((ln for ln in txt.splitlines() if ln.startswith("VIOLATION")), "")
        demo = re.findall(r'"demo_on_(?:modified|clean)_tree": "exit (\d)"', txt)
        suite = re.search(r'"pinned_suite_on_modified_tree": "([^"]*)"', txt)
        status = ("CAUGHT" if viol and "no-failing-input-found" not in viol else
                  "CAUGHT-NO-INPUT" if viol else "MISSED")
        print(f"{tag}: {status} demo={'/'.join(demo)} suite={suite.group(1)[:12] if suite else '?'} -> seeded/{name}", flush=True)
        if status == "CAUGHT" and demo == ["1", "0"]:
            subprocess.run(["git", "-C", "/repo", "worktree", "remove", "--force", f"/tmp/seed-{tag}"],
                           capture_output=True)


if __name__ == "__main__":
    main()
