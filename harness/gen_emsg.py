#!/venv/bin/python
"""Translator: `RepeatingEventBase.create_emsg_boxes`
(dashlive/server/events/repeating_event_base.py) → Lean (`lean/DashLive/Gen/Emsg.lean`),
regenerated from /repo's source text on every run.

* `EventMessageBox(**kwargs)`: the integer keys of the `kwargs` dictionary (`version`, `flags`,
  `timescale`, `event_duration`, `event_id`, `presentation_time_delta` / `presentation_time` – the
  latter two are set on one branch each, hence `Option Int`); `scheme_id_uri`, `value` and `data`
  (strings / the payload bytes of `get_emsg_event_payload`) are not integers and are dropped
  (listed in the doc comment of the generated definition).
* the `while presentation_time < seg_end` loop with its `continue` and two `break`s → a
  fuel-recursive function over the state `(brk, event_id, presentation_time, retval)`.
* the two `raise ValueError` → the failure condition (result `none`), the two `return []` after
  the guards → early returns.
* parameters: `tfdt` = `moof.traf.tfdt.base_media_decode_time`, `seg_duration` =
  `representation.segments[mod_segment].duration`, `rep_timescale` = `representation.timescale` and
  the attributes of `self` (`interval`, `timescale` → `ev_timescale`, `start`, `count`, `version`,
  `duration`, `MAX_EVENTS_PER_SEGMENT` → `max_events`).
* `self.inband` is folded: `createEmsgBoxes` is the in-band specialisation (`not self.inband` is
  false), `createEmsgBoxesOob` the out-of-band one (the function is `return []`).

`Props/GenTieEmsg.lean` proves `createEmsgBoxes` equal to the hand-written `Events.createEmsg`
(Model/Events.lean), the function C14's theorems are about.  See pytolean.py for the subset.
"""
from __future__ import annotations

import ast
import os
from pathlib import Path

from pytolean import INT, OPT, PROP, CannotTranslate, Ctx, DataClass, Ret, Translator

REPO = Path(os.environ.get("DASHLIVE_REPO", "/repo"))
OUT = Path(__file__).resolve().parent.parent / "lean" / "DashLive" / "Gen" / "Emsg.lean"

BOX_FIELDS = [("version", INT, "(0 : Int)"), ("flags", INT, "(0 : Int)"), ("timescale", INT, "(0 : Int)"),
              ("event_duration", INT, "(0 : Int)"), ("event_id", INT, "(0 : Int)"),
              ("presentation_time_delta", OPT, "none"), ("presentation_time", OPT, "none")]
PARAMS = ["tfdt", "seg_duration", "rep_timescale", "interval", "ev_timescale", "start", "count", "version",
          "duration", "max_events"]


def find_func(tree, cls, func):
    for n in tree.body:
        if isinstance(n, ast.ClassDef) and n.name == cls:
            for m in n.body:
                if isinstance(m, ast.FunctionDef) and m.name == func:
                    return m
    raise CannotTranslate(f"{cls}.{func} not found")


def run(fn, inband: bool):
    classes = {"EventMessageBox": DataClass.manual("EventMessageBox", BOX_FIELDS)}
    attrs = {("self", a): a for a in ("interval", "start", "count", "version", "duration")}
    attrs[("self", "timescale")] = "ev_timescale"
    attrs[("self", "MAX_EVENTS_PER_SEGMENT")] = "max_events"
    attrs[("self", "inband")] = ("True" if inband else "False", PROP)
    attrs[("representation", "timescale")] = "rep_timescale"
    tr = Translator(classes, attrs, "createEmsgBoxes", "EventMessageBox")
    tr.ext_calls = {"moof.traf.tfdt.base_media_decode_time": ("tfdt", INT),
                    "representation.segments[mod_segment].duration": ("seg_duration", INT)}
    tr.opaque_calls = {"self.get_emsg_event_payload"}
    c = Ctx()
    r = tr.block(c, fn.body)
    return classes, tr, c, r


def clean(items) -> str:
    txt = "; ".join(sorted(set(" ".join(x.split()) for x in items)))
    return txt.replace("-/", "- /").replace("/-", "/ -")


def translate() -> str:
    tree = ast.parse((REPO / "dashlive/server/events/repeating_event_base.py").read_text())
    fn = find_func(tree, "RepeatingEventBase", "create_emsg_boxes")
    params = [a.arg for a in fn.args.args]
    if params != ["self", "segment_num", "mod_segment", "moof", "representation"]:
        raise CannotTranslate(f"parameters of create_emsg_boxes: {params}")
    ret = ast.unparse(fn.returns) if fn.returns else ""
    if ret != "list[EventMessageBox]":
        raise CannotTranslate(f"return annotation {ret!r}")
    classes, tr, c, r = run(fn, True)
    if not isinstance(r, Ret) or r.is_tuple or r.values[0][1] != "List EventMessageBox":
        raise CannotTranslate("create_emsg_boxes does not end with `return <list of EventMessageBox>`")
    if len(tr.loops) != 1:
        raise CannotTranslate(f"{len(tr.loops)} loops in create_emsg_boxes (one expected)")
    fail = "(" + " ∨ ".join(c.fails) + ")" if c.fails else "False"
    result = r.values[0][0]
    for cond, er in reversed(c.early):
        if er.is_tuple or er.values[0][1] != "List EventMessageBox":
            raise CannotTranslate("early return of something that is not a list of boxes")
        result = f"if {cond} then {er.values[0][0]} else {result}"
    lets = "".join(f"  {l}\n" for l in c.lets)
    sig = "".join(f" ({p} : Int)" for p in PARAMS)
    # out-of-band specialisation
    _, tr2, c2, r2 = run(fn, False)
    if not isinstance(r2, Ret) or r2.is_tuple or c2.fails or tr2.loops:
        oob_body = None
    else:
        oob = r2.values[0][0]
        for cond, er in reversed(c2.early):
            oob = f"if {cond} then {er.values[0][0]} else {oob}"
        oob_body = "".join(f"  {l}\n" for l in c2.lets) + f"  {oob}\n"
    if oob_body is None:
        raise CannotTranslate("create_emsg_boxes with inband = False is not a plain `return`")
    out = ["/-! GENERATED by harness/gen_emsg.py from /repo's source text (Python ast) – do not edit.\n"
           "`RepeatingEventBase.create_emsg_boxes` (dashlive/server/events/repeating_event_base.py);\n"
           "`Props/GenTieEmsg.lean` proves it equal to `Events.createEmsg` (Model/Events.lean). -/\n"
           "set_option linter.unusedVariables false\nnamespace DashLive.Gen.Emsg\n",
           "/-- the integer keyword arguments of `EventMessageBox(**kwargs)` -/\n" + classes["EventMessageBox"].lean()]
    out.extend(tr.loops)
    out.append(
        "/-- `create_emsg_boxes(moof, mod_segment, representation)` for `self.inband = True`; `none` = `raise ValueError`.\n"
        f"asserts (not translated): {clean(tr.asserts)}\n"
        f"not translated (cannot reach the integer result): {clean(tr.skipped)} -/\n"
        f"def createEmsgBoxes{sig} (fuel : Nat) : Option (List EventMessageBox) :=\n"
        "  let segDur : Int → Int := fun _ => (0 : Int)\n"
        f"{lets}  if {fail} then none else some ({result})\n")
    out.append("/-- `create_emsg_boxes` for `self.inband = False` (`if not self.inband: return []`) -/\n"
               f"def createEmsgBoxesOob : List EventMessageBox :=\n{oob_body}")
    out.append("end DashLive.Gen.Emsg\n")
    return "\n".join(out)


def main():
    src = translate()
    if not OUT.exists() or OUT.read_text() != src:
        OUT.write_text(src)


if __name__ == "__main__":
    print(translate())
