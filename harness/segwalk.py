"""Client-side view of a DASH manifest served by the real app, independent of
dashlive: parse the MPD with lxml, resolve BaseURL + SegmentTemplate exactly as a
player would, expand SegmentTimelines, compute the ISO/IEC 23009-1 §5.3.9.5.3
availability window of `$Number$` templates, fetch segments and read them with the
independent box walker.  Shared by C01, C02, C06, C09.
"""
from __future__ import annotations

import datetime
import re
from dataclasses import dataclass, field
from urllib.parse import urljoin

from lxml import etree

import mp4walk

NS = {"d": "urn:mpeg:dash:schema:mpd:2011"}
_DUR = re.compile(r"^P(?:(\d+)Y)?(?:(\d+)M)?(?:(\d+)D)?(?:T(?:(\d+)H)?(?:(\d+)M)?(?:(\d+(?:\.\d+)?)S)?)?$")


def parse_duration_us(text: str) -> int:
    """xs:duration → µs (no years/months expected from this server)"""
    m = _DUR.match(text)
    if not m:
        raise ValueError(f"bad xs:duration {text!r}")
    y, mo, d, h, mi, s = m.groups()
    if y and int(y) or mo and int(mo):
        raise ValueError("years/months in duration")
    us = 0
    if s:
        whole, _, frac = s.partition(".")
        us = int(whole) * 1_000_000 + int((frac + "000000")[:6])
    return ((int(d or 0) * 24 + int(h or 0)) * 60 + int(mi or 0)) * 60_000_000 + us


def parse_datetime_us(text: str) -> int:
    """xs:dateTime → µs since the Unix epoch (UTC)"""
    m = re.match(r"^(\d{4})-(\d\d)-(\d\d)T(\d\d):(\d\d):(\d\d)(?:\.(\d+))?(Z|[+-]\d\d:\d\d)?$", text)
    if not m:
        raise ValueError(f"bad xs:dateTime {text!r}")
    y, mo, d, h, mi, s, frac, tz = m.groups()
    dt = datetime.datetime(int(y), int(mo), int(d), int(h), int(mi), int(s), tzinfo=datetime.timezone.utc)
    us = int((dt - datetime.datetime(1970, 1, 1, tzinfo=datetime.timezone.utc)).total_seconds()) * 1_000_000
    if frac:
        us += int((frac + "000000")[:6])
    if tz and tz != "Z":
        sign = 1 if tz[0] == "+" else -1
        us -= sign * (int(tz[1:3]) * 60 + int(tz[4:6])) * 60_000_000
    return us


@dataclass
class RepInfo:
    period_id: str
    period_start_us: int
    rep_id: str
    bandwidth: int
    content_type: str
    timescale: int
    start_number: int
    duration: int | None           # SegmentTemplate@duration
    pto: int
    media: str | None
    init: str | None
    base: str                      # resolved base URL
    timeline: list | None          # [(t, d)] expanded, or None
    timeline_raw: list | None = None  # [(t|None, d, r)]
    seg_list: list | None = None   # SegmentList byte ranges [(start,end)] (first = init)
    base_url_only: str | None = None

    def url(self, template: str, number=None, time=None) -> str:
        def sub(m):
            name, fmt = m.group(1), m.group(2)
            if name == "":
                return "$"
            val = {"RepresentationID": self.rep_id, "Number": number, "Time": time,
                   "Bandwidth": self.bandwidth}[name]
            if val is None:
                raise ValueError(f"template needs ${name}$")
            if fmt:
                return fmt % val
            return str(val)
        path = re.sub(r"\$(RepresentationID|Number|Time|Bandwidth|)(%0\d+d)?\$", sub, template)
        return urljoin(self.base, path)

    def media_url(self, number=None, time=None):
        return self.url(self.media, number=number, time=time)

    def init_url(self):
        return self.url(self.init)


@dataclass
class Mpd:
    url: str
    xml: bytes
    root: object
    type: str
    ast_us: int | None
    publish_us: int | None
    tsbd_us: int | None
    mup_us: int | None
    mpd_duration_us: int | None
    reps: list = field(default_factory=list)
    periods: list = field(default_factory=list)   # (id, start_us|None, duration_us|None)


def _attr_chain(name, *elems, default=None):
    for e in elems:
        if e is not None and e.get(name) is not None:
            return e.get(name)
    return default


def parse_mpd(url: str, xml: bytes) -> Mpd:
    root = etree.fromstring(xml)
    g = root.get
    mpd = Mpd(url=url, xml=xml, root=root, type=g("type", "static"),
              ast_us=parse_datetime_us(g("availabilityStartTime")) if g("availabilityStartTime") else None,
              publish_us=parse_datetime_us(g("publishTime")) if g("publishTime") else None,
              tsbd_us=parse_duration_us(g("timeShiftBufferDepth")) if g("timeShiftBufferDepth") else None,
              mup_us=parse_duration_us(g("minimumUpdatePeriod")) if g("minimumUpdatePeriod") else None,
              mpd_duration_us=parse_duration_us(g("mediaPresentationDuration")) if g("mediaPresentationDuration") else None)
    base0 = url
    b = root.findtext("d:BaseURL", namespaces=NS)
    if b:
        base0 = urljoin(base0, b.strip())
    for per in root.findall("d:Period", NS):
        pbase = base0
        b = per.findtext("d:BaseURL", namespaces=NS)
        if b:
            pbase = urljoin(pbase, b.strip())
        pstart = parse_duration_us(per.get("start")) if per.get("start") else None
        pdur = parse_duration_us(per.get("duration")) if per.get("duration") else None
        mpd.periods.append((per.get("id"), pstart, pdur))
        pst = per.find("d:SegmentTemplate", NS)
        for ad in per.findall("d:AdaptationSet", NS):
            abase = pbase
            b = ad.findtext("d:BaseURL", namespaces=NS)
            if b:
                abase = urljoin(abase, b.strip())
            ast_ = ad.find("d:SegmentTemplate", NS)
            for rep in ad.findall("d:Representation", NS):
                rbase = abase
                b = rep.findtext("d:BaseURL", namespaces=NS)
                bonly = None
                if b:
                    rbase = urljoin(rbase, b.strip())
                    bonly = rbase
                rst = rep.find("d:SegmentTemplate", NS)
                chain = (rst, ast_, pst)
                tl_el = None
                for e in chain:
                    if e is not None and e.find("d:SegmentTimeline", NS) is not None:
                        tl_el = e.find("d:SegmentTimeline", NS)
                        break
                timeline = raw = None
                if tl_el is not None:
                    timeline, raw, t = [], [], 0
                    for s in tl_el.findall("d:S", NS):
                        st = s.get("t")
                        if st is not None:
                            t = int(st)
                        d = int(s.get("d"))
                        r = int(s.get("r", "0"))
                        raw.append((int(st) if st is not None else None, d, r))
                        for _ in range(r + 1):
                            timeline.append((t, d))
                            t += d
                seg_list = None
                sl = rep.find("d:SegmentList", NS)
                if sl is None:
                    sl = ad.find("d:SegmentList", NS)
                if sl is not None:
                    seg_list = []
                    ini = sl.find("d:Initialization", NS)
                    if ini is not None and ini.get("range"):
                        a, z = ini.get("range").split("-")
                        seg_list.append((int(a), int(z)))
                    for su in sl.findall("d:SegmentURL", NS):
                        a, z = su.get("mediaRange").split("-")
                        seg_list.append((int(a), int(z)))
                    chain = chain + (sl,)
                dur = _attr_chain("duration", *chain)
                mpd.reps.append(RepInfo(
                    period_id=per.get("id"), period_start_us=pstart or 0,
                    rep_id=rep.get("id"), bandwidth=int(rep.get("bandwidth", "0")),
                    content_type=ad.get("contentType") or (ad.get("mimeType") or rep.get("mimeType") or "").split("/")[0],
                    timescale=int(_attr_chain("timescale", *chain, default="1")),
                    start_number=int(_attr_chain("startNumber", *chain, default="1")),
                    duration=int(dur) if dur is not None else None,
                    pto=int(_attr_chain("presentationTimeOffset", *chain, default="0")),
                    media=_attr_chain("media", *chain), init=_attr_chain("initialization", *chain),
                    base=rbase, timeline=timeline, timeline_raw=raw, seg_list=seg_list,
                    base_url_only=bonly))
    return mpd


def number_window(mpd: Mpd, rep: RepInfo, now_us: int) -> list[int]:
    """`$Number$` values whose ISO/IEC 23009-1 §5.3.9.5.3 segment availability window
    contains `now`, computed only from the manifest's own numbers:
    availability start = AST + PeriodStart + MPD start time of the segment + its MPD duration,
    availability end   = availability start + MPD duration + timeShiftBufferDepth."""
    assert rep.duration and mpd.ast_us is not None
    out = []
    ts, d, sn = rep.timescale, rep.duration, rep.start_number
    rel = now_us - mpd.ast_us - rep.period_start_us       # µs since period start
    if rel < 0:
        return out
    tsbd = mpd.tsbd_us if mpd.tsbd_us is not None else 0
    # (k+1)*d/ts <= rel   and   rel <= (k+2)*d/ts + tsbd      (k = N - sn, seconds → µs)
    kmax = (rel * ts) // (d * 1_000_000) - 1
    kmin = max(0, -(-((rel - tsbd) * ts - 2 * d * 1_000_000) // (d * 1_000_000)))
    for k in range(kmin, kmax + 1):
        a0 = (k + 1) * d * 1_000_000          # availability start · ts
        a1 = (k + 2) * d * 1_000_000 + tsbd * ts
        if a0 <= rel * ts <= a1:
            out.append(sn + k)
    return out


@dataclass
class SegInfo:
    status: int
    size: int
    seqnum: int | None = None
    tfdt: int | None = None
    tfdt_version: int | None = None
    total_duration: int | None = None
    error: str | None = None
    boxes: list | None = None


def read_segment(data: bytes, trex_default_duration: int | None = None) -> SegInfo:
    info = SegInfo(status=200, size=len(data))
    try:
        boxes = mp4walk.walk(data)
    except mp4walk.WalkError as e:
        info.error = f"walk: {e}"
        return info
    info.boxes = boxes
    mfhd = mp4walk.find(boxes, "moof/mfhd")
    tfdt = mp4walk.find(boxes, "moof/traf/tfdt")
    traf = mp4walk.find(boxes, "moof/traf")
    if mfhd is not None:
        info.seqnum = mfhd.fields["sequence_number"]
    if tfdt is not None:
        info.tfdt = tfdt.fields["base_media_decode_time"]
        info.tfdt_version = tfdt.fields["version"]
    if traf is not None:
        trex = {"default_sample_duration": trex_default_duration} if trex_default_duration else None
        try:
            tot = [v["total_duration"] for v in mp4walk.resolve_trun(traf, trex).values()]
            info.total_duration = sum(tot) if tot and all(t is not None for t in tot) else None
        except Exception as e:
            info.error = f"trun: {e}"
    return info


def init_trex_duration(data: bytes) -> int | None:
    try:
        b = mp4walk.find(mp4walk.walk(data), "moov/mvex/trex")
        return b.fields["default_sample_duration"] if b is not None else None
    except Exception:
        return None


def get(client, url, **kw):
    """GET an absolute http://localhost/... URL through the WSGI test client"""
    m = re.match(r"^https?://[^/]+(/.*)$", url)
    return client.get(m.group(1) if m else url, **kw)
