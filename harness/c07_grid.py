"""C07: the deterministic part of opt_e2e – a fixed case list that reaches, in every quick run and for
every seed, the input classes of harness/CHECKLIST.md that lie inside C07's quantifier (every option ×
given in the URL / by stream defaults / omitted; falsy-but-legal values; unusual spellings; option pairs;
strings that need escaping; every template × mode; several clocks).  Random cases follow it."""
from __future__ import annotations

NOW = "2024-05-06T07:08:09Z"
CLOCKS = [NOW, "2024-01-01T00:00:30Z", "2024-02-29T23:59:59Z", "2038-01-19T03:14:08Z"]

# stream defaults of "tears" (rotated by the grid; the set is part of a case, so a replay restores it)
DEFAULTS = {
    "A": {"leeway": 40, "timeShiftBufferDepth": 120, "ping": {"count": 3, "duration": 150},
          "eventTypes": ["ping"], "playready": {"version": 2.0}, "bugCompatibility": ["saio"], "failureCount": 1},
    # a default for every option that reaches a media URL (error lists and the DRM selection excepted:
    # stored as JSON they are not values of the option's type)
    "B": {"leeway": 7, "timeShiftBufferDepth": 90, "failureCount": 2, "bugCompatibility": ["saio", "b&2"],
          "eventTypes": ["ping", "scte35"], "availabilityStartTime": "epoch", "audioCodec": "any",
          "videoCorruptionFrameCount": 2,
          "ping": {"count": 2, "duration": 150, "inband": False, "interval": 500, "start": 10, "timescale": 90,
                   "value": "dflt&v +1", "version": 1},
          "scte35": {"count": 1, "duration": 300, "inband": False, "interval": 700, "start": 5, "timescale": 1000,
                     "value": "x y", "version": 1, "program_id": 7},
          "playready": {"piff": False, "version": 3.0, "licenseUrl": "https://pr.default/?a=1&b=2+3%20"},
          "marlin": {"licenseUrl": "ms3://d.default/#frag"}, "clearkey": {"licenseUrl": "https://ck.default/"}},
    # a start time stored as date-time text (with an offset), an event default that is only legal in-band
    "D": {"availabilityStartTime": "2024-04-01T00:00:00-03:30", "timeShiftBufferDepth": 45, "leeway": 3,
          "eventTypes": ["scte35"], "scte35": {"start": 0, "inband": True}},
    # falsy defaults where the global default is truthy
    "C": {"leeway": 0, "failureCount": 0, "abr": False, "useBaseUrls": False,
          "ping": {"inband": False, "duration": 0, "start": 0, "count": 0},
          "scte35": {"inband": False, "duration": 0}, "playready": {"piff": False}},
}

# one legal non-default text per option, and falsy-but-legal / unusual spellings where the type has them
SINGLE = {
    "acodec": ["ec-3", "any"], "ad_audio": ["bbb_a1"], "aerr": ["404=5", "503=1,410=3"], "main_audio": ["bbb_a1"],
    "clearkey__la_url": ["https%3A%2F%2Fl.example%2F%3Fa%3D1%26b%3D2%2B3%2520"],
    "drm": ["all", "ALL", "all-moov", "all-cenc-pro", "playready", "PlayReady-PRO", "playready-pro,clearkey",
            "marlin,clearkey,playready", "clearkey-moov-cenc,marlin-cenc", "none"],
    "marlin__la_url": ["ms3%3A%2F%2Fh%2Fp%23frag"], "playready__la_url": ["https%3A%2F%2Fpr%2F%3Fsig%3Dab%252Bcd%253D%253D"],
    "playready__piff": ["0", "1", "false"], "playready__version": ["1.0", "2.0", "3.0", "4.0", "none"],
    "events": ["ping", "scte35", "ping,scte35", "scte35,ping", "none", ""],
    "ping__count": ["0", "1", "9999", "10000"], "ping__duration": ["0", "1", "200", "2147483648"],
    "ping__inband": ["0", "1", "false", "on"], "ping__interval": ["1", "999", "4294967297"],
    "ping__start": ["0", "1", "-1", "8589934593"], "ping__timescale": ["1", "10000000"],
    "ping__value": ["0", "", "none", "a&b=c;d", "a+b c%20d", "&nbsp;&#0;&lt;", "{x}}{", "0x1F", "QUJD+/==",
                    "{\"a\":1}", "true", "null", "日本語ü", "x" * 1024, "y" * 4097],
    "ping__version": ["0", "1"],
    "scte35__count": ["0", "3"], "scte35__duration": ["0", "90000"], "scte35__inband": ["0", "1"],
    "scte35__interval": ["1", "5000"], "scte35__start": ["0", "7"], "scte35__timescale": ["1", "90000"],
    "scte35__value": ["", "v&w"], "scte35__version": ["0", "1"], "scte35__program_id": ["0", "1", "65535", "1620"],
    "abr": ["0", "1"],
    "start": ["today", "now", "month", "year", "epoch", "2024-04-30T11:56:49Z", "2024-04-30T11:56:49",
              "2024-04-30T11:56:49.250000Z", "2024-04-30T11:56:49.999999-03:30", "2024-04-30T11:56:49-00:30",
              "2024-04-30T11:56:49+12:45", "2024-04-30T11:56:49+14:00", "2024-04-30T11:56:49-12:00",
              "2024-04-30T11:56:49+23:59", "1970-01-01T00:00:00Z", "2000-02-29T12:00:00+05:30", ""],
    "bugs": ["saio", "saio,x y", "a&b", "none"], "failures": ["0", "1", "2147483649"],
    "leeway": ["0", "1", "16", "60", "none", "3162239999"], "merr": ["404=9999"],
    "mup": ["-1", "0", "4", "none"], "timeline": ["0", "1"], "depth": ["0", "1", "30", "1800", "4999999", "5000000", "none"],
    "update": ["0", "1", "9007199254740993"], "base": ["0", "1"], "patch": ["0", "1"],
    "dashjs": ["4.7.4"], "player": ["shaka"], "shaka": ["4.3.8"],
    "frames": ["0", "1", "10"], "vcorrupt": ["2,3", "1", "07:00:00Z,6"], "verr": ["503=9", "404=0", "503=07:00:00Z,410=3"],
    "tcodec": ["im1t|etd1"], "terr": ["404=1", "410=06:59:00Z"], "tlang": ["en", "x&y"], "main_text": ["bbb_t1"],
    "drift": ["0", "10", "-5"], "ntp_servers": ["google", "a.example,b.example"],
    "time": ["direct", "xsd", "http-ntp"], "time_value": ["v+1&2"],
}

# options that only matter together
PAIRS = [
    {"events": "ping", "ping__count": "5", "ping__value": "a&b +c", "ping__inband": "0"},
    {"events": "scte35,ping", "scte35__program_id": "7", "ping__duration": "0"},
    {"drm": "playready-pro,clearkey", "playready__la_url": "https%3A%2F%2Fpr%2Fa%2520b%3Fx%3D1%262", "playready__version": "2.0",
     "playready__piff": "0", "clearkey__la_url": "https%3A%2F%2Fck%2F"},
    {"drm": "marlin", "marlin__la_url": "ms3%3A%2F%2Fm%2F%23f"},
    {"verr": "503=3,404=5", "failures": "0"}, {"aerr": "504=2", "failures": "2"}, {"terr": "503=1", "failures": "1"},
    {"vcorrupt": "2,3", "frames": "0"}, {"vcorrupt": "4", "frames": "7"},
    {"start": "2024-05-06T00:00:00-03:30", "depth": "60", "verr": "503=07:00:00Z", "vcorrupt": "07:01:00Z"},
    {"start": "today", "depth": "30", "aerr": "404=07:07:50Z", "terr": "410=07:08:00Z"},
    {"patch": "1", "timeline": "1", "depth": "60"}, {"patch": "1", "timeline": "0"},
    {"start": "epoch", "depth": "1800", "leeway": "0", "bugs": "saio", "failures": "0"},
]

# a vector with something of everything, run on every template x mode
RICH = {"start": "2024-05-05T18:00:00-03:30", "depth": "120", "leeway": "0", "bugs": "saio", "failures": "0",
        "events": "ping", "ping__value": "a&b +c%41", "ping__count": "2", "verr": "503=3", "aerr": "404=2",
        "terr": "410=1", "vcorrupt": "2", "frames": "0", "acodec": "ec-3", "time": "xsd", "abr": "0"}
RICH_DRM = {"drm": "playready-pro,clearkey-moov", "playready__la_url": "https%3A%2F%2Fpr%2F%3Fa%3D1%2Bb", "playready__piff": "0"}

MANIFESTS = [
    ("hand_made.mpd", ["live", "vod", "odvod"]), ("manifest_e.mpd", ["live", "vod"]),
    ("manifest_h.mpd", ["live", "vod"]), ("manifest_i.mpd", ["live", "vod"]), ("manifest_n.mpd", ["live", "vod"]),
    ("manifest_a.mpd", ["live", "vod"]), ("manifest_b.mpd", ["vod"]), ("manifest_ef.mpd", ["live", "vod"]),
    ("manifest_vod_aiv.mpd", ["odvod"]),
]


def case(mode, stream, manifest, params, now=NOW, defaults=None):
    c = {"mode": mode, "stream": stream, "manifest": manifest, "params": dict(params), "now": now}
    if defaults is not None:
        c["defaults"] = defaults
    return c


# requests that are served *between* two identical probes (one per mode x option family; the on-demand ones
# name a DRM without locations, as a URL parameter and through a restricted / unsupported template)
DISTURB = [
    case("odvod", "bbb", "hand_made.mpd", {"drm": "playready"}),
    case("odvod", "bbb", "hand_made.mpd", {"drm": "all", "events": "ping", "ping__value": "o&d"}),
    case("odvod", "bbb", "hand_made.mpd", {"drm": "marlin,clearkey-cenc", "bugs": "saio"}),
    case("odvod", "bbb", "manifest_vod_aiv.mpd", {"drm": "playready"}),
    case("odvod", "tears", "hand_made.mpd", {"leeway": "0"}, defaults="B"),
    case("vod", "bbb", "manifest_b.mpd", {"drm": "clearkey", "verr": "503=2", "failures": "0"}),
    case("vod", "bbb", "manifest_a.mpd", {"drm": "playready", "events": "ping"}),
    case("live", "bbb", "hand_made.mpd", {"drm": "all-moov", "start": "today", "depth": "30", "vcorrupt": "07:08:00Z"}),
    case("live", "tears", "manifest_n.mpd", {"events": "scte35", "scte35__value": "x y"}, defaults="C"),
    case("live", "bbbaref", "hand_made.mpd", {"start": "epoch", "aerr": "404=3", "playready__la_url": "https%3A%2F%2Fd%2F"}),
]
# every option vector a handler or DRM class could use to edit a shared container: each DRM system (and `all`)
# x each PlayReady version x PIFF x mode x with/without explicit locations (pairwise over mode and PIFF);
# the first init segment of each is fetched too, so the media handler's DRM code is part of the history
def _drm_vectors():
    out = []
    modes = ["live", "vod", "odvod"]
    k = 0
    for system in ("playready", "clearkey", "marlin", "all", "clearkey,playready", "marlin,playready"):
        for version in ("1.0", "2.0", "3.0", "4.0"):
            for locs in ("", "-cenc", "-moov-pro"):
                if locs and "," in system:
                    drm = ",".join(n + locs for n in system.split(","))
                else:
                    drm = system + locs
                mode = modes[k % 3]
                if mode == "odvod" and "moov" in locs:
                    mode = "vod"
                c = case(mode, "bbb", "hand_made.mpd" if k % 2 == 0 else ("manifest_e.mpd" if mode != "odvod" else "hand_made.mpd"),
                         {"drm": drm, "playready__version": version, "playready__piff": str(k % 2)})
                c["fetch_init"] = True
                out.append(c)
                k += 1
    return out


DISTURB += _drm_vectors()

PROBES = [
    case("vod", "bbb", "hand_made.mpd", {"drm": "playready"}),
    case("live", "bbb", "hand_made.mpd", {"drm": "all", "start": "today", "depth": "60"}),
    case("vod", "bbb", "manifest_e.mpd", {"drm": "marlin,clearkey"}),
    case("live", "bbb", "hand_made.mpd", {"drm": "playready-cenc-pro", "playready__version": "2.0"}),
    case("odvod", "bbb", "hand_made.mpd", {"drm": "clearkey", "leeway": "0"}),
    case("vod", "bbb", "hand_made.mpd", {"drm": "playready-moov-pro,clearkey-moov-pro"}),
    case("live", "bbb", "manifest_e.mpd", {"drm": "all-moov-pro", "start": "epoch"}),
    case("live", "tears", "hand_made.mpd", {}, defaults="B"),
    case("vod", "bbb", "hand_made.mpd", {k: v for k, v in RICH.items() if k != "start"}),
]


def grid(thorough: bool = False):
    out = []
    # 0. the disturbing requests come first, so that the grid is also a history for everything after it
    out += [dict(c) for c in DISTURB]
    # 1. every option on its own, every listed spelling (URL side), on the richest template
    for cgi, texts in SINGLE.items():
        for t in texts:
            out.append(case("live", "bbb", "hand_made.mpd", {cgi: t}))
    # 2. ... the same options against a stream that has a default for every media option (set B) and against
    #    falsy defaults (set C): the value from the URL must win, `none`/empty must not fall back silently
    for dset in ("B", "C", "D"):
        out.append(case("live", "tears", "hand_made.mpd", {}, defaults=dset))           # all left to the defaults
        out.append(case("vod", "tears", "manifest_e.mpd", {}, defaults=dset))
        for cgi, texts in SINGLE.items():
            if cgi == "drm":
                continue
            for t in (texts if thorough else texts[:2]):
                out.append(case("live", "tears", "hand_made.mpd", {cgi: t}, defaults=dset))
    # 3. option pairs, on both streams
    for p in PAIRS:
        out.append(case("live", "bbb", "hand_made.mpd", p))
        if "drm" not in p:
            out.append(case("live", "tears", "hand_made.mpd", p, defaults="A"))
            out.append(case("vod", "tears", "manifest_n.mpd", p, defaults="B"))
    # 4. every template x mode with the rich vector (stratified: a new template or mode adds cases, dilutes none)
    for manifest, modes in MANIFESTS:
        for mode in modes:
            out.append(case(mode, "bbb", manifest, {**RICH, **RICH_DRM}))
            out.append(case(mode, "tears", manifest, RICH, defaults="A"))
    # 5. the same requests at other clocks (keyword start values resolve differently; the year/month/day starts)
    for now in CLOCKS[1:]:
        for start in ("today", "month", "year", "now", "epoch"):
            out.append(case("live", "bbb", "hand_made.mpd", {"start": start, "depth": "60", "leeway": "0"}, now=now))
        out.append(case("live", "bbb", "manifest_e.mpd", dict(RICH, start="today"), now=now))
    # 6. values whose URL form the manifest *computes* from stream/track properties (time of day -> segment
    #    number): streams whose timing reference is the video, the audio and the text track, several stream
    #    ages (the numbering of two tracks drifts apart with age), every injection option; the oracle
    #    computes the number independently from the track the option applies to
    import datetime
    for stream in ("bbb", "bbbaref", "bbbtref"):
        for now, ages in ((NOW, (90, 66 * 60, 5 * 3600, None)), ("2024-02-29T23:59:59Z", (None, 12 * 3600))):
            n = datetime.datetime.strptime(now, "%Y-%m-%dT%H:%M:%SZ")
            tod = lambda back: (n - datetime.timedelta(seconds=back)).strftime("%H:%M:%SZ")   # noqa: E731
            for age in ages:
                start = "today" if age is None else (n - datetime.timedelta(seconds=age)).strftime("%Y-%m-%dT%H:%M:%SZ")
                out.append(case("live", stream, "hand_made.mpd", {
                    "start": start, "depth": "60", "verr": f"503={tod(27)},404=3", "vcorrupt": f"{tod(19)},5",
                    "aerr": f"404={tod(23)}", "terr": f"410={tod(29)}", "failures": "1", "frames": "2"}, now=now))
        out.append(case("live", stream, "manifest_n.mpd", {"start": "today", "depth": "120", "verr": "503=07:07:42Z",
                                                           "vcorrupt": "07:07:50Z", "aerr": "404=07:07:45Z"}))
        out.append(case("vod", stream, "hand_made.mpd", {"verr": "503=07:07:42Z,404=3", "vcorrupt": "07:07:50Z,4"}))
    # 7. time-of-day positions exactly ON the edges of the time shift buffer (now - depth, +-1 s, now, the stream's
    #    first second) at a whole-second and a sub-second clock: a time inside [now - depth, now] is forwarded
    for stream in ("bbb", "bbbaref"):
        for now in (NOW, "2024-05-06T07:08:09.500000Z"):
            n = datetime.datetime.strptime(now[:19], "%Y-%m-%dT%H:%M:%S")
            tod = lambda back: (n - datetime.timedelta(seconds=back)).strftime("%H:%M:%SZ")   # noqa: E731
            for back in (30, 29, 31, 0, 1):
                out.append(case("live", stream, "hand_made.mpd", {
                    "start": "today", "depth": "30", "verr": f"503={tod(back)}", "aerr": f"404={tod(back)}",
                    "terr": f"410={tod(back)}", "vcorrupt": tod(back)}, now=now))
            # a young stream: the buffer is clamped to the stream's age, the error sits on the stream's first second
            for age in (20, 1):
                start = (n - datetime.timedelta(seconds=age)).strftime("%Y-%m-%dT%H:%M:%SZ")
                for back in (age, age - 1):
                    out.append(case("live", stream, "hand_made.mpd", {
                        "start": start, "depth": "30", "verr": f"503={tod(back)},404={tod(0)}",
                        "aerr": f"404={tod(back)}", "vcorrupt": tod(back)}, now=now))
    return out
