"""C04: byte-level synthesis of the box classes that the Lean model keeps opaque.

Written from the specifications (ISO/IEC 14496-12, -14, -15, -30, ETSI TS 102 366
annex F, ISO/IEC 23001-7), not from dashlive: every function returns the bytes
of one well-formed box.  Each class is produced in *every* optional/conditional
layout its syntax allows (version-dependent widths, flag-gated fields, optional
trailing blocks that a parser recognises by "bytes/bits remaining", repeated
structures of length 0, 1, many), with boundary values in the fields.

Used by channel `classes-diff` (differential testing, no Lean statement): the
real library must parse -> encode these byte-exactly in eager and lazy mode, show
the same field values in both, and survive the JSON round trip.

Reserved bits are written as the specifications require (zeros, or ones where
the syntax says so); values stay inside what the library can represent (times
within the datetime range, 7-bit ASCII four-character codes).
"""
from __future__ import annotations

import struct

import c04_pool as P


CUR_RNG = None     # set by synth(): lets every box draw its header form


def box(typ: bytes, payload: bytes, large: bool | None = None) -> bytes:
    """`large` None: the 64-bit largesize form now and then (a redundant spelling of a small size)"""
    if large is None:
        large = CUR_RNG is not None and CUR_RNG.random() < .06
    if large:
        return struct.pack(">I4sQ", 1, typ, 16 + len(payload)) + payload
    return struct.pack(">I4s", 8 + len(payload), typ) + payload


def full(typ: bytes, version: int, flags: int, payload: bytes, large: bool | None = None) -> bytes:
    return box(typ, bytes([version]) + flags.to_bytes(3, "big") + payload, large)


def pool(rng, specials, bits: int) -> int:
    """boundary pool for a field with an escape / explicit / redundant spelling: half of the
    draws are the values that collide with the table, the default or the short form"""
    if rng.random() < .5:
        return rng.choice(list(specials))
    return bnd(rng, bits)


class Bits:
    """MSB-first bit writer"""
    def __init__(self):
        self.v, self.n = 0, 0

    def put(self, width: int, value: int):
        assert 0 <= value < (1 << width), (width, value)
        self.v = (self.v << width) | value
        self.n += width
        return self

    def bytes(self) -> bytes:
        assert self.n % 8 == 0, self.n
        return self.v.to_bytes(self.n // 8, "big")


def bnd(rng, bits: int) -> int:
    top = (1 << bits) - 1
    k = rng.random()
    if k < .2:
        return 0
    if k < .4:
        return top
    if k < .5:
        return 1
    if k < .6:
        return 1 << (bits - 1)
    return rng.randrange(top + 1)


def rbytes(rng, n):
    return bytes(rng.randrange(256) for _ in range(n))


def text(rng, lo=0, hi=12, wide=True) -> bytes:
    alphabet = "abcXYZ:/.-_0189 urn"
    if wide and rng.random() < .3:
        alphabet += "éß€日"
    return "".join(rng.choice(alphabet) for _ in range(rng.randrange(lo, hi + 1))).encode("utf-8")


SAMPLE_RATES = [96000, 88200, 64000, 48000, 44100, 32000, 24000, 22050, 16000, 12000, 11025, 8000, 7350]
MATRIX = [0x10000, 0, 0, 0, 0x10000, 0, 0, 0, 0x40000000]


FORCE = {}      # parameters pinned by synth_grid() (empty: everything is drawn)


def times(rng, version):
    """creation, modification (seconds since 1904 – kept inside the datetime range), duration"""
    w = 64 if version == 1 else 32
    lim = min((1 << w) - 1, 250_000_000_000)
    if "time" in FORCE:
        return min(FORCE["time"], lim), min(FORCE["time"], lim), bnd(rng, w)
    t = lambda: rng.choice([0, 1, lim, rng.randrange(lim + 1), 3_600_000_000])  # noqa: E731
    return t(), t(), bnd(rng, w)


def mvhd(rng):
    v = FORCE.get("version", rng.choice([0, 1]))
    c, m, d = times(rng, v)
    f = ">QQIQ" if v else ">IIII"
    p = struct.pack(f, c, m, bnd(rng, 32), d)
    p += struct.pack(">IH", rng.choice([0x10000, 0, 0xFFFFFFFF, bnd(rng, 32)]), rng.choice([0x100, 0, 0xFFFF]))
    p += bytes(10)
    p += b"".join(struct.pack(">I", x) for x in rng.choice([MATRIX, [bnd(rng, 32) for _ in range(9)]]))
    p += bytes(24) + struct.pack(">I", bnd(rng, 32))
    return full(b"mvhd", v, 0, p)


def tkhd(rng):
    v = FORCE.get("version", rng.choice([0, 1]))
    c, m, d = times(rng, v)
    flags = rng.randrange(16)
    if v:
        p = struct.pack(">QQII Q", c, m, bnd(rng, 32), 0, d)
    else:
        p = struct.pack(">IIII I", c, m, bnd(rng, 32), 0, d)
    p += bytes(8) + struct.pack(">HHH", bnd(rng, 16), bnd(rng, 16), rng.choice([0, 0x100, 0xFFFF])) + bytes(2)
    p += b"".join(struct.pack(">I", x) for x in rng.choice([MATRIX, [bnd(rng, 32) for _ in range(9)]]))
    p += struct.pack(">II", bnd(rng, 32), bnd(rng, 32))
    return full(b"tkhd", v, flags, p)


def mdhd(rng):
    v = FORCE.get("version", rng.choice([0, 1]))
    c, m, d = times(rng, v)
    p = struct.pack(">QQIQ" if v else ">IIII", c, m, bnd(rng, 32), d)
    lang = rng.choice([(21, 14, 4), (5, 14, 7), (0, 0, 0), (31, 31, 31), tuple(rng.randrange(32) for _ in range(3))])
    p += struct.pack(">HH", (lang[0] << 10) | (lang[1] << 5) | lang[2], 0)
    return full(b"mdhd", v, 0, p)


def hdlr(rng):
    name = rng.choice([b"", b"VideoHandler", text(rng, 1, 20)])
    return full(b"hdlr", 0, 0, bytes(4) + rng.choice([b"vide", b"soun", b"text", b"subt"]) + bytes(12) + name + b"\0")


def btrt(rng):
    return box(b"btrt", struct.pack(">III", bnd(rng, 32), bnd(rng, 32), bnd(rng, 32)))


def pasp(rng):
    return box(b"pasp", struct.pack(">II", bnd(rng, 32), bnd(rng, 32)))


def frma(rng):
    return box(b"frma", rng.choice([b"avc1", b"mp4a", b"hev1", b"ec-3"]))


def schm(rng):
    # optional string: absent / present-but-empty / non-empty are three different layouts
    uri = FORCE["uri"] if "uri" in FORCE else rng.choice([None, None, b"", text(rng, 1, 20)])
    p = rng.choice([b"cenc", b"cbcs", b"piff"]) + struct.pack(">I", rng.choice([0x10000, 0, bnd(rng, 32)]))
    if uri is not None:
        p += uri + b"\0"
    return full(b"schm", 0, 0 if uri is None else 1, p)


def tenc(rng, iv=None):
    iv = iv if iv is not None else rng.choice([8, 16])
    return full(b"tenc", 0, 0, bytes([0, 0, 1, iv]) + P.fixed(rng, 16))


def sinf(rng, fmt=b"avc1", iv=None):
    return box(b"sinf", box(b"frma", fmt) + schm(rng) + box(b"schi", tenc(rng, iv)))


def mime(rng):
    ct = FORCE["ctype"] if "ctype" in FORCE else rng.choice([b"image/png", b"application/ttml+xml;codecs=im1t", b"",
                                                             text(rng, 1, 30, False)])
    return full(b"mime", 0, 0, ct + b"\0")


def vttc(rng):
    return box(b"vttC", rng.choice([b"WEBVTT", b"WEBVTT\n\nNOTE x\n", text(rng, 1, 40)]))


def avcc(rng):
    profile = FORCE.get("profile", rng.choice([66, 77, 88, 100, 110, 122, 244, 44, 100, 100]))
    ext = profile in (100, 110, 122, 244, 44, 83, 86, 118, 128, 134, 135, 138, 139)
    def nal(lo, hi):       # parameter sets are opaque byte strings (at least one byte)
        return P.content(rng) or b"\x67" if rng.random() < .4 else rbytes(rng, rng.randrange(lo, hi))
    sps = [nal(1, 30) for _ in range(FORCE.get("nsps", rng.choice([0, 1, 1, 2, 31])))]
    pps = [nal(1, 12) for _ in range(rng.choice([0, 1, 1, 3]))]
    p = bytes([1, profile, bnd(rng, 8), bnd(rng, 8), 0xFC | rng.randrange(4), 0xE0 | len(sps)])
    for s in sps:
        p += struct.pack(">H", len(s)) + s
    p += bytes([len(pps)])
    for s in pps:
        p += struct.pack(">H", len(s)) + s
    if ext and FORCE.get("tail", rng.random() < .7):      # the tail is optional even for the extended profiles
        se = [nal(1, 9) for _ in range(rng.choice([0, 0, 1, 2]))]
        p += bytes([0xFC | rng.randrange(4), 0xF8 | rng.randrange(4), 0xF8 | rng.randrange(4), len(se)])
        for s in se:
            p += struct.pack(">H", len(s)) + s
    return box(b"avcC", p)


def hvcc(rng):
    b = Bits()
    b.put(8, 1).put(2, rng.randrange(4)).put(1, rng.randrange(2)).put(5, rng.randrange(32))
    b.put(32, bnd(rng, 32)).put(48, bnd(rng, 48)).put(8, bnd(rng, 8))
    b.put(4, 0xF).put(12, bnd(rng, 12)).put(6, 0x3F).put(2, rng.randrange(4)).put(6, 0x3F).put(2, rng.randrange(4))
    b.put(5, 0x1F).put(3, rng.randrange(8)).put(5, 0x1F).put(3, rng.randrange(8))
    b.put(16, bnd(rng, 16)).put(2, rng.randrange(4)).put(3, rng.randrange(8)).put(1, rng.randrange(2)).put(2, rng.randrange(4))
    arrays = rng.choice([0, 1, 3, 3, 4])
    b.put(8, arrays)
    p = b.bytes()
    for i in range(arrays):
        nals = [(P.content(rng) or b"\x40") if rng.random() < .4 else rbytes(rng, rng.randrange(1, 20))
                for _ in range(rng.choice([0, 1, 1, 2]))]
        p += bytes([(rng.randrange(2) << 7) | rng.choice([32, 33, 34, 39, rng.randrange(64)])]) + struct.pack(">H", len(nals))
        for n in nals:
            p += struct.pack(">H", len(n)) + n
    return box(b"hvcC", p)


def dec3(rng):
    """EC3SpecificBox, ETSI TS 102 366 F.6: independent substreams with or without dependent
    substreams, with or without the trailing extension (reserved 7, flag_ec3_extension_type_a 1,
    complexity_index_type_a 8)"""
    n = FORCE.get("nsub", rng.choice([1, 1, 2, 3, 8]))
    b = Bits()
    b.put(13, bnd(rng, 13)).put(3, n - 1)
    for _ in range(n):
        b.put(2, rng.randrange(3)).put(5, rng.randrange(32)).put(1, 0).put(1, 0).put(3, rng.randrange(8))
        b.put(3, rng.randrange(8)).put(1, rng.randrange(2)).put(3, 0)
        dep = FORCE.get("dep", rng.choice([0, 0, 1, 15]))
        b.put(4, dep)
        if dep:
            b.put(9, bnd(rng, 9))
        else:
            b.put(1, 0)
    if FORCE.get("ext", rng.random() < .5):
        b.put(7, 0).put(1, rng.randrange(2)).put(8, bnd(rng, 8))
    return box(b"dec3", b.bytes())


def dac3(rng):
    b = Bits()
    b.put(2, rng.randrange(3)).put(5, rng.randrange(32)).put(3, rng.randrange(8)).put(3, rng.randrange(8))
    b.put(1, rng.randrange(2)).put(5, rng.randrange(32)).put(5, 0)
    return box(b"dac3", b.bytes())


def descr(tag: int, payload: bytes, width: int = 0) -> bytes:
    """MPEG-4 descriptor (ISO/IEC 14496-1 8.3.3): the length in 7-bit groups, most significant
    first; `width` > 0 pads the length field to that many bytes (0x80 0x80 0x80 0xNN is what
    most muxers write)"""
    n = len(payload)
    lens = [n & 0x7F]
    n >>= 7
    while n:
        lens.insert(0, 0x80 | (n & 0x7F))
        n >>= 7
    while len(lens) < width:
        lens.insert(0, 0x80)
    return bytes([tag]) + bytes(lens) + payload


def esds(rng):
    # AudioSpecificConfig (ISO/IEC 14496-3 1.6.2.1) + GASpecificConfig (4.4.1): every conditional
    # field; the escape index 0xF carries an explicit rate that may also be a table rate
    b = Bits()
    aot = rng.choice([2, 2, 5, 1, 4, 6, 20, 17, 19, 22, 23])
    b.put(5, aot)
    fi = FORCE.get("fi", rng.choice([3, 4, 0, 12, 15, 15]))
    b.put(4, fi)
    if fi == 15:
        b.put(24, FORCE.get("rate", pool(rng, SAMPLE_RATES + [0, 1, 0xFFFFFF, 47999, 48001], 24)))
    b.put(4, rng.choice([1, 2, 6, 7]))
    b.put(1, rng.randrange(2))                  # frameLengthFlag
    dep = FORCE.get("core", rng.randrange(2))
    b.put(1, dep)
    if dep:
        b.put(14, pool(rng, [0, 1, 0x3FFF], 14))
    ext = rng.randrange(2)
    b.put(1, ext)                               # extensionFlag
    if aot in (6, 20):
        b.put(3, rng.randrange(8))              # layerNr
    if ext:
        if aot == 22:
            b.put(5, bnd(rng, 5)).put(11, bnd(rng, 11))
        if aot in (17, 19, 20, 23):
            b.put(1, rng.randrange(2)).put(1, rng.randrange(2)).put(1, rng.randrange(2))
        b.put(1, 0)                             # extensionFlag3
    while b.n % 8:
        b.put(1, 0)
    # trailing bytes (sync extension …); sizes around the 1-/2-byte descriptor length boundary
    extra = FORCE.get("extra", rng.choice([0, 0, 3, 130, 127 - b.n // 8, 128 - b.n // 8]))
    asc = b.bytes() + (P.content(rng) if "extra" not in FORCE and rng.random() < .3 else rbytes(rng, max(0, extra)))
    width = FORCE.get("width", rng.choice([0, 0, 4, 2, 1]))
    dcd = struct.pack(">BB", 0x40, (rng.choice([5, 4]) << 2) | (rng.randrange(2) << 1) | 1)
    dcd += bnd(rng, 24).to_bytes(3, "big") + struct.pack(">II", bnd(rng, 32), bnd(rng, 32))
    dcd += descr(5, asc, width)
    # URL_Flag stays 0: ISO/IEC 14496-14 forbids URL-referenced streams inside an MP4 file
    es_flags = rng.choice([0, 0, 0x80, 0x20, 0xA0]) | rng.randrange(32)
    es = struct.pack(">HB", bnd(rng, 16), es_flags)
    if es_flags & 0x80:
        es += struct.pack(">H", bnd(rng, 16))
    if es_flags & 0x40:
        url = text(rng, 0, 10, False)
        es += bytes([len(url)]) + url
    if es_flags & 0x20:
        es += struct.pack(">H", bnd(rng, 16))
    es += descr(4, dcd, width) + descr(6, rng.choice([bytes([2]), P.content(rng) or bytes([2])]), rng.choice([0, width]))
    return full(b"esds", 0, 0, descr(3, es, width))


def visual_entry(rng, typ=None, children=b""):
    typ = typ or rng.choice([b"avc1", b"avc3", b"hev1", b"hvc1", b"encv"])
    name = rng.choice([b"", b"AVC Coding", bytes([10]) + b"AVC Coding", text(rng, 1, 31, False)])[:31]
    p = bytes(6) + struct.pack(">H", rng.choice([1, 0, 0xFFFF]))
    p += struct.pack(">HHIII", bnd(rng, 16), bnd(rng, 16), bnd(rng, 32), bnd(rng, 32), bnd(rng, 32))
    p += struct.pack(">HHII", bnd(rng, 16), bnd(rng, 16), rng.choice([0x480000, 0, 0xFFFFFFFF]),
                     rng.choice([0x480000, 1, bnd(rng, 32)]))
    p += struct.pack(">IH", bnd(rng, 32), rng.choice([1, bnd(rng, 16)])) + name.ljust(32, b"\0")
    p += struct.pack(">HH", rng.choice([0x18, bnd(rng, 16)]), rng.choice([0xFFFF, 0]))
    return box(typ, p + children)


def audio_entry(rng, typ, children=b""):
    """AudioSampleEntry (ISO/IEC 14496-12 12.2.3): channelcount, samplesize, samplerate 16.16"""
    p = bytes(6) + struct.pack(">H", rng.choice([1, bnd(rng, 16)])) + bytes(8)
    p += struct.pack(">HH", rng.choice([2, 1, 6, bnd(rng, 16)]), rng.choice([16, 24, bnd(rng, 16)])) + bytes(4)
    p += struct.pack(">HH", rng.choice([48000, 44100, bnd(rng, 16)]), 0)
    return box(typ, p + children)


def stpp(rng):
    p = bytes(6) + struct.pack(">H", 1)
    p += rng.choice([b"http://www.w3.org/ns/ttml", text(rng, 0, 20, False)]) + b"\0"
    p += text(rng, 0, 10, False) + b"\0" + text(rng, 0, 10, False) + b"\0"
    kids = rng.choice([b"", mime(rng), btrt(rng), mime(rng) + btrt(rng)])
    return box(b"stpp", p + kids)


def wvtt(rng):
    p = bytes(6) + struct.pack(">H", 1)
    return box(b"wvtt", p + vttc(rng) + rng.choice([b"", btrt(rng)]))


def sample_entry(rng):
    k = rng.random()
    if k < .35:
        typ = rng.choice([b"avc1", b"avc3"])
        kids = avcc(rng) + rng.choice([b"", btrt(rng), pasp(rng), pasp(rng) + btrt(rng)])
        return visual_entry(rng, typ, kids)
    if k < .5:
        typ = rng.choice([b"hev1", b"hvc1"])
        return visual_entry(rng, typ, hvcc(rng) + rng.choice([b"", btrt(rng)]))
    if k < .6:
        return visual_entry(rng, b"encv", avcc(rng) + sinf(rng, b"avc1"))
    if k < .72:
        return audio_entry(rng, b"mp4a", esds(rng) + rng.choice([b"", btrt(rng)]))
    if k < .78:
        return audio_entry(rng, b"enca", esds(rng) + sinf(rng, b"mp4a"))
    if k < .86:
        return audio_entry(rng, b"ec-3", dec3(rng) + rng.choice([b"", btrt(rng)]))
    if k < .92:
        return audio_entry(rng, b"ac-3", dac3(rng) + rng.choice([b"", btrt(rng)]))
    if k < .96:
        return stpp(rng)
    return wvtt(rng)


def stsd(rng):
    entries = [sample_entry(rng) for _ in range(rng.choice([1, 1, 1, 2, 0]))]
    return full(b"stsd", 0, 0, struct.pack(">I", len(entries)) + b"".join(entries))


def trak(rng):
    stbl = box(b"stbl", stsd(rng) + box(b"stts", bytes(8)) + box(b"stsc", bytes(8)))
    minf = box(b"minf", rng.choice([b"", box(b"smhd", bytes(8)), box(b"vmhd", bytes(12))]) + stbl)
    return box(b"trak", tkhd(rng) + box(b"mdia", mdhd(rng) + hdlr(rng) + minf))


def moov(rng):
    mvex = box(b"mvex", full(b"mehd", 0, 0, struct.pack(">I", bnd(rng, 32))) +
               full(b"trex", 0, 0, struct.pack(">IIIII", 1, 1, 0, 0, 0)))
    return box(b"moov", mvhd(rng) + rng.choice([mvex, b""]) + trak(rng) + rng.choice([b"", trak(rng)]))


STANDALONE = [mvhd, tkhd, mdhd, hdlr, btrt, pasp, frma, schm, mime, vttc, avcc, hvcc, dec3, dac3, esds,
              sample_entry, stsd]


def synth(rng):
    """(label, bytes) of one synthesised input: a single box of a class, or a whole moov"""
    global CUR_RNG
    CUR_RNG = rng
    try:
        k = rng.random()
        if k < .2:
            return "moov", moov(rng)
        f = rng.choice(STANDALONE)
        return f.__name__, f(rng)
    finally:
        CUR_RNG = None


# seconds since 1904-01-01: the far past/future instants of the checklist
TIME_POINTS = [0, 1, 2**31 - 1, 2**31, 2082844800,          # 1970-01-01
               4165689600 + 3196800,                        # 2036-02-07 (NTP era)
               2082844800 + 2**31 - 1, 2082844800 + 2**31,  # 2038-01-19
               2**32 - 1, 2**32, 2**32 + 1,                 # 2040-02-06: the end of the 32-bit fields
               6185289600,                                  # 2100-01-01
               250_000_000_000]                             # year 9826


def synth_grid():
    """fixed list of (label, bytes), the same for every seed: every conditional layout with pinned parameters"""
    import random
    global CUR_RNG
    out = []

    def run(label, fn, **force):
        FORCE.clear()
        FORCE.update(force)
        r = random.Random("synth-grid:" + label)
        try:
            out.append((label, fn(r)))
        finally:
            FORCE.clear()

    for fn in (mvhd, tkhd, mdhd):
        for v in (0, 1):
            for t in TIME_POINTS:
                if v == 0 and t >= 2**32:
                    continue
                run(f"{fn.__name__}.v{v}.t{t}", fn, version=v, time=t)
    for n in range(1, 9):
        for dep in (0, 1, 15):
            for ext in (False, True):
                run(f"dec3.n{n}.dep{dep}.ext{int(ext)}", dec3, nsub=n, dep=dep, ext=ext)
    for profile in (66, 77, 88, 100, 110, 122, 244, 44):
        for tail in (False, True):
            for nsps in (0, 1, 2, 31):
                run(f"avcC.p{profile}.tail{int(tail)}.sps{nsps}", avcc, profile=profile, tail=tail, nsps=nsps)
    for rate in SAMPLE_RATES + [0, 1, 0xFFFFFF, 47999, 48001]:
        for core in (0, 1):
            run(f"esds.escape-rate{rate}.core{core}", esds, fi=15, rate=rate, core=core, extra=0, width=0)
    for fi in range(13):
        run(f"esds.index{fi}", esds, fi=fi, extra=0, width=0)
    for width in (0, 1, 2, 3, 4):
        for extra in (0, 100, 110, 120, 125, 126, 127, 128, 129, 200):
            run(f"esds.width{width}.extra{extra}", esds, width=width, extra=extra, fi=3, core=0)
    # every optional / NUL-terminated string: absent, present but empty, one character, text, non-ASCII
    for k, uri in enumerate((None, b"", b"u", b"urn:mpeg:dash:mp4protection:2011", "\u00e9\u65e5".encode("utf-8"))):
        run(f"schm.uri{k}", schm, uri=uri)
    for k, ct in enumerate((b"", b"x", b"image/png", b"application/ttml+xml;codecs=im1t")):
        run(f"mime.ctype{k}", mime, ctype=ct)
    for i in range(12):
        run(f"sample_entry.{i}", sample_entry)
        run(f"moov.{i}", moov)
    return out
