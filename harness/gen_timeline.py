#!/venv/bin/python
"""Translator: `Representation.generateSegmentTimeline` (representation.py) → Lean
(`lean/DashLive/Gen/Timeline.lean`), regenerated from /repo's source text on every run.

The function is split at its first `<name> = []` statement:
* the *tail* (the `while dur < end:` loop that builds the `<S>` elements, the final
  `output_s_node`, `return rv`) becomes `generateSegmentTimeline_tail`, a function of the names
  the two branches of `if self._timing.mode == 'live': … else: …` assign (mod_segment,
  seg_start_time, drift, end, …) – `Props/GenTieTimeline.lean` proves it equal to the model's
  `Segments.tlLoop`, which every timeline theorem of C02/C06/C09 is about;
* the `else:` (VOD) branch becomes one constant definition per name, and
  `generateSegmentTimelineVod` composes the two (tied to `Segments.timelineVod`).
The live branch calls `timedelta_to_timecode` and `calculate_segment_from_timecode`; those are
translated separately (gen_arith.py: `timedeltaToTimecode`, `getSegmentIndex`) and composed in the
tie theorem for `Segments.timelineLive`; the statements of the live branch themselves are checked
for shape here (see `live_shape`).
See pytolean.py for the supported Python subset and the aliasing check.
"""
from __future__ import annotations

import ast
import os
from pathlib import Path

from pytolean import INT, CannotTranslate, Ctx, DataClass, Ret, Translator, lean_ident

REPO = Path(os.environ.get("DASHLIVE_REPO", "/repo"))
OUT = Path(__file__).resolve().parent.parent / "lean" / "DashLive" / "Gen" / "Timeline.lean"


def find_class(tree, name):
    for n in tree.body:
        if isinstance(n, ast.ClassDef) and n.name == name:
            return n
    raise CannotTranslate(f"class {name} not found")


def find_func(tree, cls, func):
    for n in find_class(tree, cls).body:
        if isinstance(n, ast.FunctionDef) and n.name == func:
            return n
    raise CannotTranslate(f"function {cls}.{func} not found")


def assigned_names(body) -> list:
    out = []
    for s in body:
        if isinstance(s, ast.Assign) and len(s.targets) == 1:
            t = s.targets[0]
            names = [t] if isinstance(t, ast.Name) else list(t.elts) if isinstance(t, ast.Tuple) else []
            for n in names:
                if isinstance(n, ast.Name) and n.id not in out:
                    out.append(n.id)
    return out


# the live branch, statement by statement (ast.unparse text); anything else is a broken obligation
LIVE_SHAPE = [
    "timeline_start = timedelta_to_timecode(self._timing.firstAvailableTime, self.timescale)",
    "(mod_segment, origin_time, seg_start_time) = self.calculate_segment_from_timecode(timeline_start, True)",
    "drift = ref_duration_tc - self.mediaDuration",
    "end = self._timing.timeShiftBufferDepth * self.timescale",
]


def translate() -> str:
    tree = ast.parse((REPO / "dashlive/mpeg/dash/representation.py").read_text())
    classes = {"SegmentTimelineElement": DataClass(find_class(tree, "SegmentTimelineElement"))}
    fn = find_func(tree, "Representation", "generateSegmentTimeline")
    ret = ast.unparse(fn.returns) if fn.returns else ""
    if not (ret.startswith("list[") and ret[5:-1] in classes):
        raise CannotTranslate(f"return annotation {ret!r}")
    attrs = {("self", "num_media_segments"): "num_media_segments", ("self", "mediaDuration"): "mediaDuration",
             ("self", "timescale"): "timescale"}
    tr = Translator(classes, attrs, "generateSegmentTimeline", ret[5:-1])
    split = next((i for i, s in enumerate(fn.body) if isinstance(s, ast.Assign) and isinstance(s.value, ast.List)
                  and not s.value.elts), None)
    if split is None:
        raise CannotTranslate("no `<name> = []` statement")
    pre, tail = fn.body[:split], fn.body[split:]
    mode_if = None
    for s in pre:
        if isinstance(s, ast.FunctionDef):
            tr.closures[s.name] = s
        elif isinstance(s, ast.If) and ast.unparse(s.test) == "self._timing.mode == 'live'":
            mode_if = s
        elif isinstance(s, ast.Assign) and ast.unparse(s) in (
                "stream_ref = self._timing.stream_reference",
                "ref_duration_tc = stream_ref.media_duration_using_timescale(self.timescale)"):
            continue
        elif isinstance(s, ast.Expr) and isinstance(s.value, ast.Constant):
            continue
        else:
            raise CannotTranslate(f"statement before the loop: {ast.unparse(s)[:70]}")
    if mode_if is None:
        raise CannotTranslate("`if self._timing.mode == 'live':` not found")
    live = [ast.unparse(s) for s in mode_if.body
            if not (isinstance(s, ast.Expr) and ast.unparse(s).startswith("logging."))]
    if live != [ast.unparse(ast.parse(x)) for x in LIVE_SHAPE]:
        raise CannotTranslate("the live branch changed: " + " ; ".join(live))
    names = [n for n in assigned_names(mode_if.orelse) if n in assigned_names(mode_if.body)]
    # --- the tail
    c = Ctx()
    c.env = {n: (lean_ident(n), INT) for n in names}
    r = tr.block(c, tail)
    if not isinstance(r, Ret) or r.is_tuple or not r.values[0][1].startswith("List "):
        raise CannotTranslate("the function does not end with `return <list>`")
    res = r.values[0]
    used = [n for n in names if n in c.reads]
    tail_attrs = [a for a in tr.used_attrs]
    loop_attrs = sorted({lean for (o, a), lean in attrs.items() if any(f"{o}.{a}" in l for l in tr.loops)} | set(tail_attrs))
    out = ["/-! GENERATED by harness/gen_timeline.py from /repo's source text (Python ast) – do not edit.\n"
           "`Representation.generateSegmentTimeline`; `Props/GenTieTimeline.lean` proves the definitions\n"
           "equal to the hand-written model (`Segments.tlLoop`, `timelineVod`, `timelineLive`). -/\n"
           "set_option linter.unusedVariables false\nnamespace DashLive.Gen.Timeline\n"]
    for cl in classes.values():
        out.append(cl.lean())
    out.extend(tr.loops)
    sig = "".join(f" ({lean_ident(n)} : Int)" for n in used) + "".join(f" ({a} : Int)" for a in loop_attrs)
    lets = "".join(f"  {l}\n" for l in c.lets)
    out.append(f"/-- everything from `{ast.unparse(tail[0])}` to the end of `generateSegmentTimeline`; "
               f"asserts skipped: {'; '.join(tr.asserts)} -/\n"
               f"def generateSegmentTimeline_tail (segDur : Int → Int){sig} (fuel : Nat) : {res[1]} :=\n{lets}  {res[0]}\n")
    # --- the VOD branch
    tr2 = Translator(classes, attrs, "generateSegmentTimeline_vod", None)
    c2 = Ctx()
    if tr2.block(c2, mode_if.orelse) is not None:
        raise CannotTranslate("return in the VOD branch")
    vod_attrs = list(tr2.used_attrs)
    vsig = "".join(f" ({a} : Int)" for a in vod_attrs)
    for n in used:
        lets2 = "".join(f"  {l}\n" for l in c2.lets)
        out.append(f"/-- value of `{n}` on the `else:` (VOD) branch -/\n"
                   f"def generateSegmentTimeline_vod_{lean_ident(n)}{vsig} : Int :=\n{lets2}  {c2.env[n][0]}\n")
    all_attrs = sorted(set(loop_attrs) | set(vod_attrs))
    asig = "".join(f" ({a} : Int)" for a in all_attrs)
    named = " ".join(f"({lean_ident(n)} := generateSegmentTimeline_vod_{lean_ident(n)}" +
                     "".join(f" {a}" for a in vod_attrs) + ")" for n in used)
    named += " " + " ".join(f"({a} := {a})" for a in loop_attrs)
    out.append("/-- `generateSegmentTimeline` for `mode != 'live'` -/\n"
               f"def generateSegmentTimelineVod (segDur : Int → Int){asig} (fuel : Nat) : {res[1]} :=\n"
               f"  generateSegmentTimeline_tail segDur {named} fuel\n")
    out.append("end DashLive.Gen.Timeline\n")
    return "\n".join(out)


def main():
    src = translate()
    if not OUT.exists() or OUT.read_text() != src:
        OUT.write_text(src)


if __name__ == "__main__":
    print(translate())
