"""World of the C05 check: the real Flask application (appboot/segchecks streams
bbb, tears, syn1, syn2) plus two multi-period streams, the case generator
(manifest × mode × single/multi-period/patch × option vector × clock × hostile
stored strings / query values / Host header) and the executor that applies the
stored strings through the DB models inside `app.ctx()`, performs the request at a
controlled clock and restores the rows.

A *case* is a JSON-able dict:
  kind      'single' | 'multi' | 'patch'
  manifest  name in manifest_map (patch: the manifest whose patch document is asked for)
  mode      live | vod | odvod
  stream    directory of the stream (single/patch) or key of MPS_DEFS (multi)
  query     [[name, value], …] in request order (values are raw text, quoted by `build_url`)
  rawquery  bool – hostile values are sent with only the characters quoted that would
            end the value (& # % + space); < > " ' reach the server unquoted
  host      Host header
  now       ISO instant of the controlled clock
  stored    {slot: text} – strings written to the database before the request:
            title, marlin_la_url, playready_la_url, directory (single);
            mps_title, mps_name, pid0, pid1, … (multi); repid (rename of one media file)
  hostile   [slot, …] – which of stored:* / q:<index> / host carry a hostile string
The benign twin of a case (`twin(case)`) replaces exactly those by BENIGN values.
"""
from __future__ import annotations

import copy
import datetime
import urllib.parse

import appboot
import segchecks

BENIGN = {
    "title": "Benign title", "mps_title": "Benign title", "marlin_la_url": "ms3://lic.example/benign",
    "playready_la_url": "https://lic.example/benign", "mps_name": "c05benign", "host": "localhost",
    "repid": None, "directory": None, "q": "benign",
}
ALPHABET = ["&", "<", ">", '"', "'", "]]>", "&amp;", "&lt;", "<!--", "-->", "<![CDATA[", "<?x", "?>", "</Title>",
            "</MPD>", "é", "ü", "漢字", "\U0001F600", " ", " ", "%", "+", " ", "=", "/", "\\", "$", "$$",
            "$Number$", "{{7*7}}", "{%", "#", ";", "a", "Z", "0", "\t",
            "&nbsp;", "&#0;", "&#x0;", "&#60;", "&apos;", "{0}", "{title}", "}", "%s", "%3C", "%26amp%3B", "0x3c",
            "PGI+", "{\"a\":\"<\"}", "true", "null", "12345", "xn--nxasmq6b"]
LENGTHS = [1024, 4095, 4096, 4097, 65535, 65537]

# multi-period streams: key -> [(stream directory, seconds, content types listed in the Period)]
# bbb has encrypted (_enc) versions of its video and audio tracks and a subtitle track stored only
# in the clear; tears, syn1 and syn2 have no encrypted media at all.
AV, AVT = ("video", "audio"), ("video", "audio", "text")
MPS_DEFS = {
    "c05mps": [("bbb", 20, AVT), ("tears", 24, AV)],
    "c05mp3": [("bbb", 12, AV), ("tears", 16, AV), ("bbb", 8, AVT)],
    "c05mpb": [("bbb", 16, AVT), ("bbb", 12, AVT)],
    "c05mpt": [("bbb", 10, ("video", "text")), ("bbb", 14, ("video", "audio"))],
    "c05mpy": [("syn1", 12, AV), ("bbb", 12, AVT), ("syn2", 6, AV)],
    "c05mpl": [("lymix", 10, AVT), ("lyabr", 12, AVT), ("lytri", 8, AVT)],
    "c05mpe": [("lyenc", 10, AVT), ("bbb", 10, AVT)],
    # period durations and offsets that are not whole seconds (30000/1001 fps style, half a second,
    # sub-millisecond, nearly the whole stream) - the loop duration is then not exactly representable
    # as a float
    "c05mpf": [("bbb", 12.012, AVT), ("tears", 8.008, AV)],
    "c05mpu": [("bbb", 10.000001, AV), ("tears", 7.999999, AV), ("bbb", 4.1, AVT)],
    "c05mph": [("bbb", 8.5, AVT), ("bbb", 4.004, AV)],
    "c05mpo": [("bbb", 8.008, AVT), ("tears", 16.016, AV), ("bbb", 31.3, AV)],
    "c05mpv": [("bbb", 10.000499, AV), ("tears", 9.9995, AV)],
    "c05mpz": [("synntsc", 3.003, AV), ("syn2seg", 1.5, AV), ("synts7", 4, AV)],
    # Periods that start at NON-ZERO positions inside their streams: on, just before and just after the
    # segment boundaries of the timing reference (bbb video: 4 s), where the audio (about 3.99 / 4.02 s)
    # and text (10 s) grids differ from it; irregular synthetic grids; a layout stream
    "c05mo1": [("bbb", 12, AVT), ("tears", 8, AV), ("bbb", 8, AVT)],
    "c05mo2": [("bbb", 8, AVT), ("bbb", 8, AVT), ("bbb", 8, AVT), ("bbb", 8, AVT), ("bbb", 8, AV)],
    "c05mo3": [("syn1", 6, AV), ("syn2", 4, AV), ("lymix", 12, AVT), ("synodd", 10, AV)],
}
# start offset (seconds) of each Period inside its stream, where it is not 0
MPS_OFFSETS = {"c05mph": [4, 12.012], "c05mpo": [4.004, 8, 8], "c05mo1": [8, 4, 16],
               "c05mo2": [3.9, 4.1, 7.999, 8.001, 12], "c05mo3": [4, 2, 20, 30.017]}
OFFSET_MPS = ["c05mo1", "c05mo2", "c05mo3", "c05mph", "c05mpo"]
FRACTIONAL_MPS = ["c05mpf", "c05mpu", "c05mph", "c05mpo", "c05mpv", "c05mpz"]
ENC_STREAMS = {"bbb", "lyenc"}
# Streams with varied *track layouts*, built from re-labelled fixture files (the stored
# representation JSON is rewritten: id, file name, track id, codec string; the media bytes are the
# fixture's).  Track ids are private to a file, so every one of these is a legal stream:
#   (stem suffix, fixture file, track id, codecs override | None)
LAYOUTS = {
    # AAC and E-AC-3 packaged separately, both number their audio track 2
    "lymix": [("v1", "bbb_v6", 1, None), ("v2", "bbb_v7", 1, None), ("a1", "bbb_a1", 2, None),
              ("a2", "bbb_a2", 2, None), ("t1", "bbb_t1", 4, None)],
    # two AAC files on one track, E-AC-3 and AC-3 on another, three video files
    "lyabr": [("v1", "bbb_v6", 1, None), ("v2", "bbb_v7", 1, None), ("v3", "bbb_v6", 1, None),
              ("a1", "bbb_a1", 2, None), ("a2", "bbb_a1", 2, None), ("a3", "bbb_a2", 3, None),
              ("a4", "bbb_a2", 3, "ac-3"), ("t1", "bbb_t1", 4, None)],
    # three audio tracks with three codec families and ids that are not consecutive
    "lytri": [("v1", "bbb_v7", 1, None), ("a1", "bbb_a1", 2, None), ("a2", "bbb_a2", 5, None),
              ("a3", "bbb_a2", 7, "ac-3"), ("t1", "bbb_t1", 9, None)],
    # encrypted and clear versions side by side, E-AC-3 sharing the AAC track id, clear-only subtitles
    "lyenc": [("v1", "bbb_v6", 1, None), ("v1e", "bbb_v6_enc", 1, None), ("v2e", "bbb_v7_enc", 1, None),
              ("a1", "bbb_a1", 2, None), ("a1e", "bbb_a1_enc", 2, None), ("a2e", "bbb_a2_enc", 2, None),
              ("t1", "bbb_t1", 4, None)],
    # video only plus one audio file numbered like nothing else
    "lymin": [("v1", "bbb_v7", 1, None), ("a1", "bbb_a2", 6, None)],
}
# layouts whose AdaptationSet ids collide on the UNMODIFIED tree (ledger C05/D25): every video set is
# id 1 and every text file becomes its own AdaptationSet with id = track id.  Used only by the ledger
# witnesses, never by the generators.
LAYOUTS_OUTSIDE = {
    "lycol": [("v1", "bbb_v6", 1, None), ("a1", "bbb_a1", 1, None), ("t1", "bbb_t1", 4, None)],
    "lytxt": [("v1", "bbb_v6", 1, None), ("a1", "bbb_a1", 2, None), ("t1", "bbb_t1", 4, None),
              ("t2", "bbb_t1", 4, None)],
}
_READY = False
_MANIFESTS = None
_MEDIA: dict = {}


def get_app():
    global _READY
    app = segchecks.get_app()
    if not _READY:
        _add_synthetic(app)
        _add_layouts(app)
        _add_mps(app)
        _READY = True
    return app


SYNTHETIC = ["syn2seg", "synntsc", "synts7", "synodd", "c5short", "c5long", "c5long2"]
SYNTHETIC_OUTSIDE = ["synzero"]
# (stream, mode) pairs that are only reached through ledger witnesses
OUTLASTING = ["c5long", "c5long2"]


def excluded(stream: str, mode: str) -> bool:
    return stream in OUTLASTING and mode == "live"


def _add_synthetic(app):
    """streams that differ in the shape of the stored media: the minimum of two segments; NTSC
    fractions (1001/30000); timescales 1 and 10^7; one very long and one very short segment, a first
    decode time that is not 0, an audio track shorter / longer than the video timing reference"""
    import mp4synth
    mk = mp4synth.make_track
    mp4synth.register(app, "syn2seg", "Two segments", {
        "syn2seg_v1": mk("video", 240, [480, 480], samples_per_segment=2, seed=31, track_id=1),
        "syn2seg_a1": mk("audio", 48000, [96000, 95232], samples_per_segment=[94, 93], seed=32, track_id=2)},
        timing_from="syn2seg_v1")
    mp4synth.register(app, "synntsc", "NTSC 30000/1001", {
        "synntsc_v1": mk("video", 30000, [60060, 60060, 60060, 30030], samples_per_segment=[60, 60, 60, 30], seed=33, track_id=1),
        "synntsc_a1": mk("audio", 48000, [96096, 96096, 96096, 48048], samples_per_segment=[94, 94, 94, 47], seed=34, track_id=2)},
        timing_from="synntsc_v1")
    mp4synth.register(app, "synts7", "Timescale 10^7 and 1", {
        "synts7_v1": mk("video", 10000000, [20000000, 20000000, 20000001, 9999999], samples_per_segment=4, seed=35, track_id=1),
        "synts7_a1": mk("audio", 1, [2, 2, 2, 1], samples_per_segment=[2, 2, 2, 1], seed=36, track_id=2)},
        timing_from="synts7_v1")
    mp4synth.register(app, "synodd", "Long, short, offset", {
        "synodd_v1": mk("video", 1000, [30000, 17, 4000, 1], samples_per_segment=[30, 1, 4, 1], seed=37, track_id=1,
                        first_decode_time=12345, start_number=5),
        "synodd_a1": mk("audio", 44100, [1323000, 1024, 88200], samples_per_segment=[1292, 1, 86], seed=38, track_id=2),
        # a little longer than the video timing reference (by less than its last segment)
        "synodd_a2": mk("audio", 44100, [1323000, 1024, 88200, 100000], samples_per_segment=[1292, 1, 86, 98], seed=39, track_id=3)},
        timing_from="synodd_v1")
    # tracks much shorter than the timing reference (by more than a segment) and a little shorter
    mp4synth.register(app, "c5short", "Audio much shorter than the reference", {
        "c5short_v1": mk("video", 1000, [4000] * 10, samples_per_segment=4, seed=44, track_id=1),
        "c5short_a1": mk("audio", 44100, [176400] * 6, samples_per_segment=172, seed=45, track_id=2),
        "c5short_a2": mk("audio", 44100, [176400] * 9 + [170000], samples_per_segment=[172] * 9 + [166], seed=46, track_id=3)},
        timing_from="c5short_v1")
    # a track that outlasts the timing reference by more than its last segment (video 10 x 4 s, audio
    # 12 x 4 s, and one whose last segment is short).  vod / odvod manifests of it are part of the
    # generators; LIVE manifests of it are ledger C05/D26 (negative S@d) and only its witness.
    mp4synth.register(app, "c5long2", "Audio 12 x 4 s on a 10 x 4 s reference", {
        "c5long2_v1": mk("video", 1000, [4000] * 10, samples_per_segment=4, seed=47, track_id=1),
        "c5long2_a1": mk("audio", 44100, [176400] * 12, samples_per_segment=172, seed=48, track_id=2),
        "c5long2_a2": mk("audio", 44100, [176400] * 10 + [88200, 1024], samples_per_segment=[172] * 10 + [86, 1], seed=49, track_id=3)},
        timing_from="c5long2_v1")
    mp4synth.register(app, "c5long", "Audio outlasts the reference", {
        "c5long_v1": mk("video", 1000, [30000, 4000], samples_per_segment=[30, 4], seed=40, track_id=1),
        "c5long_a1": mk("audio", 44100, [1323000, 264600, 441000], samples_per_segment=[1292, 258, 431], seed=41, track_id=2)},
        timing_from="c5long_v1")
    # outside the generators in every mode (ledger C05/D27): fragments numbered from 0
    mp4synth.register(app, "synzero", "Fragments numbered from 0", {
        "synzero_v1": mk("video", 1000, [4000, 4000, 4000], samples_per_segment=4, seed=42, track_id=1, start_number=0),
        "synzero_a1": mk("audio", 44100, [176400, 176400, 176400], samples_per_segment=172, seed=43, track_id=2, start_number=0)},
        timing_from="synzero_v1")


def _add_layouts(app):
    import atexit
    import json
    import shutil
    import tempfile
    from pathlib import Path
    scratch = Path(tempfile.mkdtemp(prefix="c05-layouts-"))
    atexit.register(shutil.rmtree, str(scratch), True)
    fixtures = appboot.FIXTURES / "bbb"
    for directory, layout in {**LAYOUTS, **LAYOUTS_OUTSIDE}.items():
        files = []
        for suffix, src, track_id, codecs in layout:
            stem = f"{directory}_{suffix}"
            js = json.loads((fixtures / f"rep-{src}.json").read_text())
            js["id"], js["filename"], js["track_id"] = stem, f"{stem}.mp4", track_id
            if codecs:
                js["codecs"] = codecs
            (scratch / f"rep-{stem}.json").write_text(json.dumps(js))
            files.append((stem, fixtures / f"{src}.mp4"))
        app.add_stream(directory, f"Layout {directory}", files, real_index=False,
                       rep_cache=lambda stem: scratch / f"rep-{stem}.json")


def media_of(stream: str) -> dict:
    """content type -> sorted media names of a stream (read from the database)"""
    if stream not in _MEDIA:
        out: dict = {"video": [], "audio": [], "text": []}
        app = get_app()
        with app.ctx() as m:
            st = m.Stream.get(directory=stream)
            for mf in (m.MediaFile.search(stream=st) if st is not None else []):
                out.setdefault(mf.content_type, []).append(mf.name)
        _MEDIA[stream] = {k: sorted(v) for k, v in out.items()}
    return _MEDIA[stream]


def _add_mps(app):
    from dashlive.mpeg.dash.content_role import ContentRole
    with app.ctx() as m:
        for name, periods in MPS_DEFS.items():
            if m.MultiPeriodStream.get(name=name) is not None:
                continue
            mps = m.MultiPeriodStream(name=name, title=f"Multi period {name}")
            m.db.session.add(mps)
            for idx, (directory, secs, ctypes) in enumerate(periods):
                stream = m.Stream.get(directory=directory)
                prd = m.Period(pid=f"p{idx}", parent=mps, ordering=idx + 1, stream=stream,
                               start=datetime.timedelta(seconds=MPS_OFFSETS.get(name, [0] * len(periods))[idx]),
                               duration=datetime.timedelta(seconds=secs))
                m.db.session.add(prd)
                seen = set()
                for mf in m.MediaFile.search(stream=stream):
                    key = (mf.content_type, mf.track_id)
                    if key in seen or mf.content_type not in ctypes:
                        continue
                    seen.add(key)
                    m.db.session.add(m.AdaptationSet(period=prd, track_id=mf.track_id, role=ContentRole.MAIN,
                                                     content_type=m.ContentType.get(name=mf.content_type)))
        m.db.session.commit()


def manifests() -> dict:
    """name -> {modes, features, restrictions} read from the real manifest_map"""
    global _MANIFESTS
    if _MANIFESTS is None:
        from dashlive.server.manifests import manifest_map
        out = {}
        for name, mft in sorted(manifest_map.items()):
            modes = sorted(mft.restrictions.get("mode", ("live", "vod", "odvod")))
            out[name] = {"modes": modes, "features": sorted(mft.features),
                         "restrictions": {k: sorted(v) if not isinstance(v, str) else [v]
                                          for k, v in mft.restrictions.items()},
                         "stem": mft.name}
        _MANIFESTS = out
    return _MANIFESTS


# ------------------------------------------------------------------ hostile strings

def hostile_string(rng, long_ok: bool = True) -> str:
    k = rng.random()
    if k < .12:
        return rng.choice(["<&>\"'", "a<b>&\"'c", "]]>", "\"><x y='", "'><x y=\"", "&", "<", "&amp;",
                           "</Title><Title>", "--><!--", "T&C's \"<best>\" ]]> é漢"])
    n = rng.choice([1, 2, 3, 5, 8, 13])
    s = "".join(rng.choice(ALPHABET) for _ in range(n))
    if long_ok and k > .93:
        s = (s + "<&>\"'x") * rng.choice([40, 300, 1500])
    elif long_ok and k > .90:
        n = rng.choice(LENGTHS)
        s = ((s + "<&>\"'x") * (n // (len(s) + 6) + 1))[:n]
    return s


def host_string(rng) -> str:
    """Host header candidates (latin-1 only: that is all a WSGI environ can carry)"""
    return rng.choice(["ex.test", "ex.test:8080", "a<b>.test", "a&b.test", 'a"b.test', "a'b.test", "a b",
                       "xn--nxasmq6b.test", "[::1]:5000", "hé.test", "a]]>b", "EX.Test", "127.0.0.1:80"])


# ------------------------------------------------------------------ option vectors

FREE_QUERY = ["x", "ping__value", "scte35__value", "time_value", "ntp_servers", "clearkey_la_url",
              "playready_la_url", "marlin_la_url", "clearkey__la_url", "playready__la_url", "marlin__la_url",
              "main_audio", "ad_audio", "tlang", "main_text", "title"]


def gen_options(rng, mft: dict, mode: str, stream: str, kind: str) -> list:
    f = set(mft["features"])
    r = mft["restrictions"]
    q = []

    def add(name, choices, p=.5):
        if rng.random() < p:
            v = rng.choice(choices)
            if name in r and v not in r[name]:
                v = rng.choice(r[name])
            q.append([name, v])

    if "abr" in f:
        add("abr", ["0", "1"], .3)
    if "audioCodec" in f:
        add("acodec", ["mp4a", "ec-3", "any", "any"], .45)
    # track selection options with the names of real media files of the stream(s)
    dirs = [d for d, _s, _c in MPS_DEFS[stream]] if kind == "multi" else [stream]
    names = {"audio": [], "text": []}
    for d in dirs:
        for k in names:
            names[k] += media_of(d).get(k, [])
    if names["audio"]:
        add("main_audio", names["audio"], .25)
        add("ad_audio", names["audio"], .15)
    if names["text"]:
        add("main_text", names["text"], .2)
        add("tlang", ["eng", "und", "deu"], .1)
        add("tcodec", ["stpp", "wvtt", "im1t|etd1"], .1)
    if "useBaseUrls" in f:
        add("base", ["0", "1"], .5)
    if "drmSelection" in f:
        # every DRM system, combinations and locations; streams without encrypted media answer 404
        # (not a 200 response, outside the property) - bbb and the bbb periods do have them
        has_enc = stream in ENC_STREAMS or (kind == "multi" and any(d in ENC_STREAMS for d, _s, _c in MPS_DEFS[stream]))
        add("drm", DRM_CHOICES, .55 if has_enc else .15)
        if q and q[-1][0] == "drm" and ("playready" in q[-1][1] or q[-1][1].startswith("all")):
            add("playready__version", ["1.0", "2.0", "3.0", "4.0"], .4)
            add("playready__piff", ["0", "1"], .2)
    if "eventTypes" in f:
        add("events", ["ping", "scte35", "ping,scte35"], .45)
        if q and q[-1][0] == "events":
            for ev in q[-1][1].split(","):
                add(f"{ev}__inband", ["0", "1"], .7)
                add(f"{ev}__count", ["0", "1", "3", "7"], .6)
                add(f"{ev}__start", ["0", "5", "256"], .3)
                add(f"{ev}__duration", ["0", "200", "1"], .3)
                add(f"{ev}__timescale", ["1", "100", "90000"], .3)
                add(f"{ev}__interval", ["1", "1000"], .3)
    if mode == "live":
        if "minimumUpdatePeriod" in f:
            add("mup", ["-1", "0", "1", "4", "30", "3600"], .4)
        if "patch" in f:
            add("patch", ["0", "1"], .35)
        if "utcMethod" in f:
            add("time", ["direct", "head", "http-ntp", "iso", "ntp", "sntp", "xsd"], .5)
            add("drift", ["0", "3", "10", "-7"], .2)
        # (a long buffer with a SegmentTimeline costs seconds per request: every entry is rendered)
        add("depth", ["0", "1", "20", "60", "120", "300"] + (["45", "90", "200", "600"] if kind == "multi" else []),
            1.0 if kind in ("multi", "patch") else .5)
        add("start", ["epoch", "today", "month", "year", "now", "2023-11-05T01:02:03Z", "2024-01-01T05:30:00+05:30",
                      "2023-12-31T20:30:00-03:30", "2023-12-31T23:30:00-00:30", "2024-01-01T12:45:00+12:45",
                      "2024-01-01T14:00:00+14:00", "2023-12-31T10:00:00-14:00", "2024-01-01T00:00:00.250Z", ""], .4)
    if "segmentTimeline" in f:
        add("timeline", ["0", "1"], .5)
    add("bugs", ["saio"], .05)
    add("leeway", ["0", "16", "60"], .1)
    add("failures", ["2"], .05)
    add("update", ["0", "5"], .1)
    add("frames", ["3"], .05)
    rng.shuffle(q)
    return q


STREAMS_SINGLE = ["bbb", "bbb", "tears", "syn1", "syn2"] + sorted(LAYOUTS) + SYNTHETIC
DRM_CHOICES = ["all", "clearkey", "playready", "marlin", "playready-pro", "playready-cenc", "playready-moov",
               "clearkey-cenc", "clearkey-moov", "marlin-cenc", "all-moov", "all-cenc", "marlin,clearkey",
               "playready,marlin", "clearkey,playready-pro", "none"]


# clock / age dimension of live requests --------------------------------------------------------
PHASES = [0, 250000, 500000, 750000, 999999, 1, 499999, 500001]
# instants (UTC, whole seconds) around which clocks are drawn: day, month, year and leap-day boundaries
ANCHORS = ["2024-02-29T00:00:00", "2024-03-01T00:00:00", "2025-01-01T00:00:00", "2024-12-31T23:59:59",
           "2024-06-01T00:00:00", "2025-03-01T00:00:00", "2024-02-28T23:59:59", "2024-07-14T00:00:00",
           "2025-10-26T01:00:00", "2024-01-02T12:34:56", "2025-02-28T23:59:59", "2025-03-01T00:00:00",
           "2100-02-28T23:59:59", "2036-02-07T06:28:15", "2038-01-19T03:14:07", "2040-02-06T06:28:15"]


def young_stream(rng, query: list, scenario: int | None = None):
    """a live request in the first seconds of the stream's life, or at the edge of its time shift
    buffer: → (clock instant, query with start / depth replaced).  start <= clock always."""
    depth = rng.choice([1, 2, 20, 59, 60, 61, 120, 300])
    phase = rng.choice(PHASES + [rng.randrange(1000000)])
    if rng.random() < .6:
        base = datetime.datetime.fromisoformat(rng.choice(ANCHORS)).replace(tzinfo=datetime.timezone.utc)
        base += datetime.timedelta(seconds=rng.choice([0, 0, 1, 2, 5, 30, 59, 60, 61, 119, 300]))
    else:
        base = datetime.datetime(2024, 1, 2, tzinfo=datetime.timezone.utc) + datetime.timedelta(
            seconds=rng.randrange(0, 700 * 86400))
    now = base + datetime.timedelta(microseconds=phase)
    k = rng.randrange(5) if scenario is None else scenario
    if k <= 1:
        # explicit start a few seconds before the clock: age around 0, below, at and just above the depth
        age = rng.choice([0, 1, 2, 3, max(0, depth - 1), depth, depth + 1, 7, 59, 61])
        start = segchecks.iso(base - datetime.timedelta(seconds=age))
    elif k == 2:
        start = "now"                       # the server makes the stream one minute old
        depth = rng.choice([59, 60, 61, 120, 300])
    elif k == 3:
        start = "today"                     # clock shortly after midnight: age = seconds since midnight
        now = now.replace(hour=0, minute=rng.choice([0, 0, 1, 4]), second=rng.choice([0, 1, 7, 59]))
        depth = rng.choice([20, 60, 120, 300])
    else:
        start = rng.choice(["month", "year"])
        now = now.replace(day=1, hour=0, minute=rng.choice([0, 0, 1, 4]), second=rng.choice([0, 1, 7, 59]))
        if start == "year":
            now = now.replace(month=1)
        depth = rng.choice([20, 60, 120, 300])
    q = [x for x in query if x[0] not in ("start", "depth", "drift")]
    q += [["start", start], ["depth", str(depth)]]
    return now, q


def gen_case(rng, hostile: bool = True, force: dict | None = None) -> dict:
    ms = manifests()
    force = force or {}
    kind = force.get("kind") or rng.choice(["single"] * 6 + ["multi"] * 3 + ["patch"] * 2)
    if kind == "patch":
        name = "hand_made.mpd"
        mode = "live"
    else:
        name = force.get("manifest") or rng.choice(sorted(ms))
        modes = [m for m in ms[name]["modes"] if not (kind == "multi" and m == "odvod")]
        if not modes:
            kind = "single"
            modes = ms[name]["modes"]
        mode = force.get("mode") if force.get("mode") in modes else rng.choice(modes)
    mft = ms[name]
    stream = rng.choice(sorted(MPS_DEFS)) if kind == "multi" else rng.choice(STREAMS_SINGLE)
    if "stream" in force:
        stream = force["stream"]
    if kind != "multi" and excluded(stream, mode):
        stream = "c5short"
    query = gen_options(rng, mft, mode, stream, kind)
    now = datetime.datetime(2024, 1, 2, tzinfo=datetime.timezone.utc) + datetime.timedelta(
        seconds=rng.randrange(0, 700 * 86400), microseconds=rng.choice([0, 0, 500000, rng.randrange(1000000)]))
    if mode == "live" and rng.random() < .5:
        now, query = young_stream(rng, query)
    case = {"kind": kind, "manifest": name, "mode": mode, "stream": stream, "query": query, "rawquery": False,
            "host": "localhost", "now": segchecks.iso(now), "stored": {}, "hostile": []}
    if kind == "patch":
        # publish time the client read from a manifest a little earlier
        case["publish"] = int(now.timestamp()) - rng.choice([0, 1, 4, 30, 3600])
    if not hostile:
        return case
    slots = []
    if kind == "multi":
        n_p = len(MPS_DEFS[stream])
        pool = ["mps_title", "mps_name"] + [f"pid{i}" for i in range(n_p)]
    else:
        pool = ["title", "marlin_la_url", "playready_la_url", "directory", "repid"]
    for s in pool:
        if rng.random() < (.55 if s in ("title", "mps_title") else .25):
            slots.append(s)
    if "repid" in slots:
        # a renamed media file must not be named by a selection option: the option would select it in
        # the benign twin only, and the two documents would differ for a legitimate reason
        case["query"] = [q for q in case["query"] if q[0] not in ("main_audio", "ad_audio", "main_text")]
    for s in slots:
        v = hostile_string(rng)
        if s in ("mps_name", "directory") or s.startswith("pid") or s == "repid":
            v = v.replace("/", "_")[:40] or "x"        # path segment of the request URL / String(62) column
            if s == "directory":
                v = "d" + v
        if s.startswith("pid"):
            v = f"{s}{v}"                             # keeps the period ids of one stream distinct
        case["stored"][f"{s}"] = v
        case["hostile"].append(f"stored:{s}")
    n_q = rng.choice([0, 1, 1, 2, 3])
    for _ in range(n_q):
        case["query"].append([rng.choice(FREE_QUERY), hostile_string(rng, long_ok=rng.random() < .5)])
        case["hostile"].append(f"q:{len(case['query']) - 1}")
    case["rawquery"] = rng.random() < .4
    if rng.random() < .2:
        case["host"] = host_string(rng)
        case["hostile"].append("host")
    return case


def twin(case: dict) -> dict:
    """the same request with every hostile string replaced by a benign one"""
    t = copy.deepcopy(case)
    for h in case["hostile"]:
        if h == "host":
            t["host"] = BENIGN["host"]
        elif h.startswith("q:"):
            t["query"][int(h[2:])][1] = BENIGN["q"]
        else:
            slot = h.split(":", 1)[1]
            if slot in ("directory", "repid"):
                del t["stored"][slot]
            elif slot.startswith("pid"):
                t["stored"][slot] = slot
            else:
                t["stored"][slot] = BENIGN[slot]
    t["hostile"] = []
    t["rawquery"] = False
    return t


# ------------------------------------------------------------------ request

def _raw_quote(v: str) -> str:
    out = []
    for ch in v:
        if ch in "&#%+":
            out.append("%%%02X" % ord(ch))
        elif ch == " ":
            out.append("+")
        elif ord(ch) < 0x21 or ord(ch) > 0x7e:
            out.append(urllib.parse.quote(ch, safe=""))
        else:
            out.append(ch)
    return "".join(out)


def build_url(case: dict) -> str:
    seg = lambda s: urllib.parse.quote(s, safe="")
    st = case["stored"]
    if case["kind"] == "multi":
        name = st.get("mps_name", case["stream"])
        path = f"/mps/{case['mode']}/{seg(name)}/{case['manifest']}"
    else:
        directory = st.get("directory", case["stream"])
        if case["kind"] == "patch":
            path = f"/patch/{seg(directory)}/{manifests()[case['manifest']]['stem']}/{case['publish']}"
        else:
            path = f"/dash/{case['mode']}/{seg(directory)}/{case['manifest']}"
    parts = []
    for i, (k, v) in enumerate(case["query"]):
        raw = case.get("rawquery") and f"q:{i}" in case["hostile"]
        parts.append(f"{k}={_raw_quote(v) if raw else urllib.parse.quote(v, safe='')}")
    return path + ("?" + "&".join(parts) if parts else "")


def stored_defaults(query: str):
    """what the 'edit stream defaults' page stores for these option values (the page's own steps)"""
    from dashlive.server.options.drm_options import DrmSelection
    from dashlive.server.options.repository import OptionsRepository
    from dashlive.utils.objects import flatten
    defaults = OptionsRepository.get_default_options()
    opts = OptionsRepository.convert_cgi_options(dict(urllib.parse.parse_qsl(query, keep_blank_values=True)),
                                                 defaults=defaults)
    changed = opts.remove_default_values(defaults)
    if "drmSelection" in changed:
        changed["drmSelection"] = DrmSelection.to_string(changed["drmSelection"])
    return flatten(changed)


class Stored:
    """context manager: write case['stored'] to the database, restore on exit"""

    def __init__(self, app, case):
        self.app, self.case, self.undo = app, case, []

    def __enter__(self):
        st = self.case["stored"]
        if not st:
            return self
        with self.app.ctx() as m:
            def setattr_undo(obj_getter, attr, value):
                obj = obj_getter(m)
                old = getattr(obj, attr)
                setattr(obj, attr, value)
                self.undo.append((obj.__class__.__name__, obj.pk, attr, old))
            if self.case["kind"] == "multi":
                mps = m.MultiPeriodStream.get(name=self.case["stream"])
                for k, v in st.items():
                    if k == "mps_title":
                        setattr_undo(lambda m_: mps, "title", v)
                    elif k == "mps_name":
                        setattr_undo(lambda m_: mps, "name", v)
                    elif k.startswith("pid"):
                        prd = sorted(mps.periods, key=lambda p: p.ordering)[int(k[3:])]
                        setattr_undo(lambda m_, prd=prd: prd, "pid", v)
            else:
                s = m.Stream.get(directory=self.case["stream"])
                for k, v in st.items():
                    if k in ("title", "marlin_la_url", "playready_la_url", "directory"):
                        setattr_undo(lambda m_: s, k, v)
                    elif k == "defaults":
                        setattr_undo(lambda m_: s, "defaults", stored_defaults(v))
                    elif k == "repid":
                        mfs = sorted(m.MediaFile.search(stream=s), key=lambda f: f.name)
                        mf = mfs[len(v) % len(mfs)]
                        rep = dict(mf.rep)
                        old_rep = dict(mf.rep)
                        rep["id"] = v
                        self.undo.append(("MediaFile", mf.pk, "rep", old_rep))
                        self.undo.append(("MediaFile", mf.pk, "name", mf.name))
                        mf.rep = rep
                        mf.name = v
            m.db.session.commit()
        return self

    def __exit__(self, *a):
        if self.undo:
            with self.app.ctx() as m:
                for cls, pk, attr, old in reversed(self.undo):
                    obj = m.db.session.get(getattr(m, cls), pk)
                    setattr(obj, attr, old)
                m.db.session.commit()
        return False


def fetch(app, client, clock, case: dict, url: str | None = None, now=None):
    """→ (status, body bytes, url); `url` / `now`: a link taken from an earlier response of the case,
    requested exactly as it is spelled, with the case's stored strings in place"""
    url = url or build_url(case)
    clock.set(now or case["now"])
    with Stored(app, case):
        try:
            r = client.get(url, headers={"Host": case["host"]})
        except UnicodeError as e:          # a Host the WSGI layer cannot carry
            return 0, str(e).encode(), url
        return r.status_code, r.data, url
