"""C17: the media payloads used in management histories and an independent
description of what a blob file contains (stdlib only; shares no code with
dashlive).

`describe(data)` → Content tuple (idx, ctype, track, enc, kids, badlang), the same
record the Lean model keeps per disk file (`DashLive.Store.Content`):
  idx     a fragmented MP4 (moov + at least two top-level moof boxes)
  ctype   0 video / 1 audio / 2 text     (hdlr handler type vide / soun / anything else)
  track   tkhd track_ID
  enc     first sample entry is encv / enca
  kids    [tenc default_KID] when encrypted
  badlang mdhd language is not one of the tags this module knows to be valid
          (only `zzz` is used as an invalid tag by the payloads below)
Files that are not indexable are described as (0,0,0,0,[],0).
"""
from __future__ import annotations

import functools
import struct
from pathlib import Path

import mp4synth

KID2 = "0f1e2d3c4b5a69788796a5b4c3d2e1f0"
CONTAINERS = {b"moov", b"trak", b"mdia", b"minf", b"stbl", b"mvex"}
NOT_INDEXABLE = (False, 0, 0, False, (), False)


def _boxes(data: bytes, start: int, end: int):
    pos = start
    while pos + 8 <= end:
        size, typ = struct.unpack(">I4s", data[pos:pos + 8])
        hdr = 8
        if size == 1:
            if pos + 16 > end:
                return
            size = struct.unpack(">Q", data[pos + 8:pos + 16])[0]
            hdr = 16
        elif size == 0:
            size = end - pos
        if size < hdr or pos + size > end:
            return
        yield typ, pos + hdr, pos + size
        pos += size


def _find(data: bytes, start: int, end: int, path: list[bytes]):
    for typ, p0, p1 in _boxes(data, start, end):
        if typ == path[0]:
            if len(path) == 1:
                return p0, p1
            r = _find(data, p0, p1, path[1:])
            if r is not None:
                return r
    return None


def describe(data: bytes) -> tuple:
    n = len(data)
    top = list(_boxes(data, 0, n))
    moofs = sum(1 for t, _, _ in top if t == b"moof")
    if moofs < 2 or not any(t == b"moov" for t, _, _ in top):
        return NOT_INDEXABLE
    tkhd = _find(data, 0, n, [b"moov", b"trak", b"tkhd"])
    hdlr = _find(data, 0, n, [b"moov", b"trak", b"mdia", b"hdlr"])
    mdhd = _find(data, 0, n, [b"moov", b"trak", b"mdia", b"mdhd"])
    stsd = _find(data, 0, n, [b"moov", b"trak", b"mdia", b"minf", b"stbl", b"stsd"])
    if None in (tkhd, hdlr, mdhd, stsd):
        return NOT_INDEXABLE
    ver = data[tkhd[0]]
    track = struct.unpack(">I", data[tkhd[0] + (20 if ver == 1 else 12):][:4])[0]
    handler = data[hdlr[0] + 8:hdlr[0] + 12]
    ctype = {b"vide": 0, b"soun": 1}.get(handler, 2)
    mver = data[mdhd[0]]
    lang_bits = struct.unpack(">H", data[mdhd[0] + (32 if mver == 1 else 20):][:2])[0]
    lang = "".join(chr(((lang_bits >> s) & 31) + 0x60) for s in (10, 5, 0))
    entry = data[stsd[0] + 12:stsd[0] + 16]
    enc = entry in (b"encv", b"enca")
    kids = ()
    if enc:
        i = data.find(b"tenc", stsd[0], stsd[1])
        if i > 0:
            kids = (data[i + 4 + 8:i + 4 + 24].hex(),)
    return (True, ctype, track, enc, kids, lang == "zzz")


def content_token(c: tuple) -> str:
    idx, ctype, track, enc, kids, bad = c
    return ",".join([str(int(idx)), str(ctype), str(track), str(int(enc)), "+".join(kids) or "-", str(int(bad))])


def content_shown(c: tuple) -> str:
    idx, ctype, track, enc, kids, bad = c
    return ".".join([str(int(idx)), str(ctype), str(track), str(int(enc)), "+".join(kids) or "-", str(int(bad))])


# ---------------------------------------------------------------------------- payloads

SYNTH = {
    "v1": dict(kind="video", durations=[960] * 4, seed=11, track_id=1),
    "v2": dict(kind="video", durations=[960] * 5, seed=12, track_id=1, payload_size=260),
    "v9": dict(kind="video", durations=[480] * 6, seed=13, track_id=9),
    "a1": dict(kind="audio", durations=[44100] * 4, seed=14, track_id=2),
    "ev": dict(kind="video", durations=[960] * 4, seed=15, track_id=3, encrypted=True),
    "ea": dict(kind="audio", durations=[44100] * 4, seed=16, track_id=4, encrypted=True, kid=KID2),
    # further encrypted tracks that SHARE the key id of "ev" (and of the fixture "fe"): the normal layout of an
    # encrypted stream - several representations, one key
    "e2": dict(kind="video", durations=[960] * 4, seed=19, track_id=3, encrypted=True, payload_size=260),
    "eb": dict(kind="audio", durations=[44100] * 4, seed=20, track_id=4, encrypted=True),
    "vz": dict(kind="video", durations=[960] * 4, seed=17, track_id=1, lang="zzz"),
    "s1": dict(kind="video", durations=[960], seed=18, track_id=1),          # one fragment only
    # shapes: the minimum of two media segments with unequal durations; NTSC timescale with a first decode time
    # that is not 0 and a short last segment; audio whose track id is the one the text fixture `ft` uses
    "v3": dict(kind="video", durations=[960, 480], seed=21, track_id=1),
    "vn": dict(kind="video", timescale=30000, durations=[60060, 60060, 30030], first_decode_time=1001, seed=22,
               track_id=1, with_sidx=True, with_styp=True),
    "a4": dict(kind="audio", durations=[44100] * 3, seed=23, track_id=4, with_tfdt=False),
}
FIXTURES = {"ft": "bbb/bbb_t1.mp4", "fa": "bbb/bbb_a1.mp4", "fv": "bbb/bbb_v7.mp4", "fe": "bbb/bbb_a1_enc.mp4"}
KINDS = list(SYNTH) + ["jk", "em"] + list(FIXTURES)
MIME = {"a4": "audio/mp4", "a1": "audio/mp4", "ea": "audio/mp4", "eb": "audio/mp4", "fa": "audio/mp4", "fe": "audio/mp4", "ft": "application/mp4"}


@functools.lru_cache(maxsize=None)
def payload(kind: str, fixtures_dir: str) -> bytes:
    if kind in SYNTH:
        return mp4synth.make_track(**SYNTH[kind])
    if kind == "jk":
        return b"this is not an MP4 file at all, only some text\n" * 3
    if kind == "em":
        return b""
    return (Path(fixtures_dir) / FIXTURES[kind]).read_bytes()
