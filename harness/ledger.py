#!/usr/bin/env python3
"""`ledger.py add <json-entry>` – append/replace one entry of known_findings.json
under a file lock (entries are keyed by property + id)."""
import fcntl, json, sys
from pathlib import Path
P = Path(__file__).resolve().parent.parent / "known_findings.json"

def main():
    entry = json.loads(sys.argv[2] if sys.argv[1] == "add" else sys.argv[1])
    for k in ("property", "id", "status", "what", "witness"):
        assert k in entry, f"missing {k}"
    assert entry["status"] in ("open", "fixed")
    with open(str(P) + ".lock", "w") as lk:
        fcntl.flock(lk, fcntl.LOCK_EX)
        d = json.loads(P.read_text())
        d["findings"] = [f for f in d["findings"] if (f["property"], f["id"]) != (entry["property"], entry["id"])]
        d["findings"].append(entry)
        d["findings"].sort(key=lambda f: (f["property"], f["id"]))
        P.write_text(json.dumps(d, indent=1) + "\n")
    print("ledger:", len(d["findings"]), "entries")

if __name__ == "__main__":
    main()
