#!/venv/bin/python
"""Translator (C16): every count-driven loop (`for … in range(<count>)`) of the
`parse` functions of `dashlive/mpeg/mp4.py` → `lean/DashLive/Gen/ParserLoops.lean`.

For each loop the *source* is read with `ast` (nothing is taken from comments or names):

  cap        an `if <count> > <CONST>: raise …` that precedes the loop in the same function;
             the constant is resolved on the imported class (`clz.MAX_SAMPLE_COUNT`, …)
  countMax   the largest value the expression that is assigned to the count can have:
             the width of the field it is read from (`'B'`, `'H'`, `'I'`, n bits, `mask=`),
             a literal, `+ c`
  minBytes   the number of bytes every iteration certainly reads through a read that raises
             when the input ends (`struct.unpack(fmt, src.read(n))`, `FieldReader.get/read`,
             `BitsFieldReader.get/read`, calls of other `parse` functions of the module,
             minimum over `if` branches) – 0 when every read of the body is conditional

and, from `dashlive/utils/fio/field_reader.py`, whether `FieldReader.get(<n bytes>)` raises on
a short read (fix 419ad2b) – byte-sized reads only count towards `minBytes` when it does.

`Props/C16.lean: parser_loops_bounded` is `decide`d over the table: every loop has a cap, a
count field of at most 16 bits, or consumes input in every iteration.  A loop this translator
cannot classify is emitted with `cap = none, countMax = 2^64, minBytes = 0` – it then *fails*
that obligation instead of being assumed harmless.
"""
from __future__ import annotations

import ast
import importlib
import os
import struct
import sys
from pathlib import Path

HERE = Path(__file__).resolve().parent
LEAN = HERE.parent / "lean"
OUT = LEAN / "DashLive" / "Gen" / "ParserLoops.lean"
REPO = Path(os.environ.get("DASHLIVE_REPO", "/repo"))
UNKNOWN = 1 << 64

STR_SIZES = {"B": 1, "H": 2, "I": 4, "i": 4, "Q": 8, "3I": 3}


def _text(node) -> str:
    return ast.unparse(node)


class Module:
    def __init__(self, path: Path, modname: str):
        self.tree = ast.parse(path.read_text())
        self.mod = importlib.import_module(modname)
        self.classes = {n.name: n for n in self.tree.body if isinstance(n, ast.ClassDef)}
        self._consume_memo: dict = {}

    def functions(self):
        for cname, cnode in self.classes.items():
            for f in cnode.body:
                if isinstance(f, ast.FunctionDef) and f.name.startswith("parse"):
                    yield cname, f

    # ---- constants
    def resolve_const(self, node, cname: str):
        if isinstance(node, ast.Constant) and isinstance(node.value, int):
            return node.value
        if isinstance(node, ast.Attribute) and isinstance(node.value, ast.Name):
            owner = cname if node.value.id in ("clz", "cls", "self") else node.value.id
            obj = getattr(self.mod, owner, None)
            v = getattr(obj, node.attr, None)
            if isinstance(v, int) and not isinstance(v, bool):
                return v
        return None

    # ---- reader kinds of the local names of a function
    @staticmethod
    def reader_kinds(fn: ast.FunctionDef) -> dict:
        kinds = {}
        for a in fn.args.args:
            if a.arg in ("reader",):
                kinds[a.arg] = "bits"
        for node in ast.walk(fn):
            if isinstance(node, ast.Assign) and len(node.targets) == 1 and isinstance(node.targets[0], ast.Name):
                v = node.value
                if isinstance(v, ast.Call):
                    f = v.func
                    if isinstance(f, ast.Name) and f.id == "FieldReader":
                        kinds[node.targets[0].id] = "bytes"
                    elif isinstance(f, ast.Name) and f.id == "BitsFieldReader":
                        kinds[node.targets[0].id] = "bits"
                    elif isinstance(f, ast.Attribute) and f.attr == "duplicate":
                        kinds[node.targets[0].id] = "bits"
        return kinds

    # ---- bits consumed by one expression / statement (certainly, or an exception is raised)
    def call_bits(self, call: ast.Call, kinds: dict, short_read_raises: bool, cname: str, depth: int) -> int:
        f = call.func
        # struct.unpack(fmt, src.read(n))
        if (isinstance(f, ast.Attribute) and f.attr == "unpack" and isinstance(f.value, ast.Name)
                and f.value.id == "struct" and call.args and isinstance(call.args[0], ast.Constant)):
            try:
                return 8 * struct.calcsize(call.args[0].value)
            except struct.error:
                return 0
        if isinstance(f, ast.Attribute) and isinstance(f.value, ast.Name) and f.value.id in kinds \
                and f.attr in ("get", "read", "skip", "get_bytes", "read_bytes") and call.args:
            size = call.args[0]
            kind = kinds[f.value.id]
            if isinstance(size, ast.Constant):
                if isinstance(size.value, str) and size.value in STR_SIZES and kind == "bytes":
                    return 8 * STR_SIZES[size.value]
                if isinstance(size.value, int) and not isinstance(size.value, bool):
                    if kind == "bits":
                        return 8 * size.value if f.attr in ("get_bytes", "read_bytes") else size.value
                    return 8 * size.value if short_read_raises else 0
            return 0
        # <Class>.parse(...) of this module
        if isinstance(f, ast.Attribute) and f.attr.startswith("parse") and isinstance(f.value, ast.Name):
            owner = cname if f.value.id in ("clz", "cls") else f.value.id
            return self.function_bits(owner, f.attr, short_read_raises, depth + 1)
        return 0

    def expr_bits(self, node, kinds, srr, cname, depth) -> int:
        """calls that are certainly evaluated when the expression is (no BoolOp / IfExp / lambda /
        comprehension sub-trees)"""
        total = 0
        if isinstance(node, (ast.BoolOp, ast.IfExp, ast.Lambda, ast.ListComp, ast.GeneratorExp, ast.DictComp,
                             ast.SetComp)):
            return 0
        if isinstance(node, ast.Call):
            total += self.call_bits(node, kinds, srr, cname, depth)
        for ch in ast.iter_child_nodes(node):
            total += self.expr_bits(ch, kinds, srr, cname, depth)
        return total

    def block_bits(self, stmts, kinds, srr, cname, depth) -> int:
        total = 0
        for st in stmts:
            if isinstance(st, (ast.Expr, ast.Assign, ast.AugAssign, ast.AnnAssign)):
                total += self.expr_bits(st, kinds, srr, cname, depth)
            elif isinstance(st, ast.If):
                if st.orelse:
                    total += min(self.block_bits(st.body, kinds, srr, cname, depth),
                                 self.block_bits(st.orelse, kinds, srr, cname, depth))
            elif isinstance(st, (ast.Return, ast.Raise, ast.Break, ast.Continue)):
                break
            # loops / try / with: nothing is counted
        return total

    def function_bits(self, cname: str, fname: str, srr: bool, depth: int = 0) -> int:
        key = (cname, fname, srr)
        if key in self._consume_memo:
            return self._consume_memo[key]
        self._consume_memo[key] = 0          # cycles
        cnode = self.classes.get(cname)
        if cnode is None or depth > 6:
            return 0
        for f in cnode.body:
            if isinstance(f, ast.FunctionDef) and f.name == fname:
                kinds = self.reader_kinds(f)
                bits = self.block_bits(f.body, kinds, srr, cname, depth)
                self._consume_memo[key] = bits
                return bits
        return 0

    # ---- the largest value of the count expression
    def value_max(self, node, fn, kinds, cname, before_line: int, depth: int = 0) -> int:
        if depth > 4:
            return UNKNOWN
        if isinstance(node, ast.Constant) and isinstance(node.value, int):
            return node.value
        if isinstance(node, ast.BinOp) and isinstance(node.op, ast.Add):
            a = self.value_max(node.left, fn, kinds, cname, before_line, depth + 1)
            b = self.value_max(node.right, fn, kinds, cname, before_line, depth + 1)
            return min(UNKNOWN, a + b)
        if isinstance(node, ast.Subscript) and isinstance(node.value, ast.Call):
            # struct.unpack(fmt, …)[0]
            c = node.value
            f = c.func
            if (isinstance(f, ast.Attribute) and f.attr == "unpack" and c.args
                    and isinstance(c.args[0], ast.Constant) and isinstance(c.args[0].value, str)):
                fmt = c.args[0].value.lstrip("<>=!@")
                if fmt in ("B", "H", "I", "Q"):
                    return (1 << (8 * struct.calcsize(fmt))) - 1
            return UNKNOWN
        if isinstance(node, ast.Call):
            f = node.func
            if isinstance(f, ast.Attribute) and isinstance(f.value, ast.Name) and f.value.id in kinds \
                    and f.attr == "get" and node.args and isinstance(node.args[0], ast.Constant):
                size = node.args[0].value
                kind = kinds[f.value.id]
                bound = UNKNOWN
                if isinstance(size, str) and size in STR_SIZES and kind == "bytes":
                    bound = (1 << (8 * STR_SIZES[size])) - 1
                elif isinstance(size, int) and kind == "bits":
                    bound = (1 << size) - 1
                for kw in node.keywords:
                    if kw.arg == "mask" and isinstance(kw.value, ast.Constant):
                        bound = min(bound, kw.value.value)
                if len(node.args) >= 3 and isinstance(node.args[2], ast.Constant) and kind == "bytes":
                    bound = min(bound, node.args[2].value)
                return bound
            return UNKNOWN
        # a name or rv["x"]: its last assignment before the loop
        if isinstance(node, (ast.Name, ast.Subscript)):
            want = _text(node)
            best = None
            for st in ast.walk(fn):
                if isinstance(st, ast.Assign) and st.lineno < before_line:
                    for t in st.targets:
                        if _text(t) == want and (best is None or st.lineno > best.lineno):
                            best = st
            if best is not None:
                return self.value_max(best.value, fn, kinds, cname, before_line, depth + 1)
        return UNKNOWN

    def find_cap(self, count_text: str, fn, cname: str, before_line: int):
        cap = None
        for st in ast.walk(fn):
            if isinstance(st, ast.If) and st.lineno < before_line and isinstance(st.test, ast.Compare) \
                    and len(st.test.ops) == 1 and isinstance(st.test.ops[0], ast.Gt) \
                    and _text(st.test.left) == count_text \
                    and any(isinstance(b, ast.Raise) for b in st.body):
                v = self.resolve_const(st.test.comparators[0], cname)
                if v is not None:
                    cap = v if cap is None else min(cap, v)
        return cap


def short_read_raises() -> bool:
    """does FieldReader.get raise when `src.read(size)` returns fewer than `size` bytes?"""
    tree = ast.parse((REPO / "dashlive" / "utils" / "fio" / "field_reader.py").read_text())
    for node in ast.walk(tree):
        if isinstance(node, ast.FunctionDef) and node.name == "get":
            for st in ast.walk(node):
                if isinstance(st, ast.If) and isinstance(st.test, ast.Compare) \
                        and "len(value)" in _text(st.test) and "size" in _text(st.test) \
                        and any(isinstance(b, ast.Raise) for b in st.body):
                    return True
    return False


def dump() -> dict:
    srr = short_read_raises()
    m = Module(REPO / "dashlive" / "mpeg" / "mp4.py", "dashlive.mpeg.mp4")
    rows = []
    for cname, fn in m.functions():
        kinds = m.reader_kinds(fn)
        loops = [n for n in ast.walk(fn) if isinstance(n, ast.For) and isinstance(n.iter, ast.Call)
                 and isinstance(n.iter.func, ast.Name) and n.iter.func.id == "range" and len(n.iter.args) == 1]
        loops.sort(key=lambda n: n.lineno)
        for k, loop in enumerate(loops):
            arg = loop.iter.args[0]
            count_text = _text(arg)
            rows.append({
                "cls": cname, "fn": fn.name, "idx": k, "count": count_text,
                "cap": m.find_cap(count_text, fn, cname, loop.lineno),
                "countMax": m.value_max(arg, fn, kinds, cname, loop.lineno),
                "minBytes": m.block_bits(loop.body, kinds, srr, cname, 0) // 8,
            })
    consts = {}
    for cls, name in (("TrackFragmentRunBox", "MAX_SAMPLE_COUNT"),):
        consts[f"{cls}.{name}"] = getattr(getattr(m.mod, cls, None), name, None)
    return {"rows": rows, "shortReadRaises": srr, "consts": consts}


def lean_str(s: str) -> str:
    return '"' + s.replace("\\", "\\\\").replace('"', '\\"') + '"'


def render(d: dict) -> str:
    out = ["import DashLive.Model.Inject",
           "/-! GENERATED by harness/gen_parser_loops.py from `dashlive/mpeg/mp4.py` and",
           "`dashlive/utils/fio/field_reader.py` (Python `ast`) – do not edit.",
           "One `ParserLoop` (Model/Inject.lean) per `for … in range(count)` loop of a `parse` function. -/",
           "namespace DashLive.Gen.ParserLoops",
           "open DashLive.Inject",
           "",
           "def table : List ParserLoop := ["]
    lines = []
    for r in d["rows"]:
        cap = "none" if r["cap"] is None else f"some {r['cap']}"
        lines.append(f"  {{ cls := {lean_str(r['cls'])}, fn := {lean_str(r['fn'])}, idx := {r['idx']}, "
                     f"count := {lean_str(r['count'])}, cap := {cap}, countMax := {r['countMax']}, "
                     f"minBytes := {r['minBytes']} }}")
    out.append(",\n".join(lines))
    out.append("]")
    out.append("")
    out.append("/-- `FieldReader.get(<n bytes>)` raises when fewer than `n` bytes are left (419ad2b) -/")
    out.append(f"def shortReadRaises : Bool := {'true' if d['shortReadRaises'] else 'false'}")
    v = d["consts"].get("TrackFragmentRunBox.MAX_SAMPLE_COUNT")
    out.append("/-- `TrackFragmentRunBox.MAX_SAMPLE_COUNT` (`none`: the constant no longer exists) -/")
    out.append(f"def maxSampleCount : Option Nat := {'none' if v is None else f'some {v}'}")
    out.append("")
    out.append("end DashLive.Gen.ParserLoops")
    return "\n".join(out) + "\n"


def main() -> None:
    src = render(dump())
    OUT.parent.mkdir(parents=True, exist_ok=True)
    if not OUT.exists() or OUT.read_text() != src:
        OUT.write_text(src)


if __name__ == "__main__":
    sys.dont_write_bytecode = True
    for p in (str(HERE.parent / "shims"), str(REPO), str(HERE)):
        if p not in sys.path:
            sys.path.insert(0, p)
    main()
    print(OUT)
