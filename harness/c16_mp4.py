"""C16 exploration channel `fuzz_mp4`: byte strings derived from valid MP4 by
truncation, bit flips and size-field edits, fed to

  lib       `Mp4Atom.load` (eager and lazy options) + `Representation.load`
  inspect   POST /media/inspect (multipart upload, inspection page)
  index     POST /media/<spk>/blob (upload) → GET /media/index/<mfid> → the
            stream page, the segment list, one segment page, a manifest and the
            init segment of the stream the corrupt file now belongs to

Oracle (the property text): the library call returns or raises an ordinary
exception (= "a reported parse error": not a hang, not MemoryError /
RecursionError) within the time limit; every endpoint answers < 500 within the
time limit.
"""
from __future__ import annotations

import io
import signal
import struct
import time

import appboot
import c16_http
import mp4synth
import mp4walk
import urllib.parse

LIB_LIMIT = 10.0
_SEEDS = None


def seeds() -> dict:
    """name → valid MP4 bytes: synthetic tracks + heads of real fixtures"""
    global _SEEDS
    if _SEEDS is not None:
        return _SEEDS
    out = {}
    out["syn_video"] = mp4synth.make_track("video", 1000, [2000, 2000, 1000], samples_per_segment=4, seed=601,
                                           payload_size=40)
    out["syn_audio"] = mp4synth.make_track("audio", 48000, [96256, 96256, 48128], samples_per_segment=94, seed=602,
                                           payload_size=12, with_sidx=True, with_styp=True)
    out["syn_enc"] = mp4synth.make_track("video", 1000, [2000, 2000, 1000], samples_per_segment=4, seed=603,
                                         payload_size=40, encrypted=True, traf_order="senc_first")
    out["syn_emsg"] = mp4synth.make_track("video", 1000, [2000, 2000, 1000], samples_per_segment=3, seed=604,
                                          payload_size=30, with_emsg=1, with_tfdt=False)
    out["fix_text"] = (appboot.FIXTURES / "bbb" / "bbb_t1.mp4").read_bytes()
    for name, path in (("fix_audio_enc", appboot.FIXTURES / "bbb" / "bbb_a1_enc.mp4"),
                       ("fix_video", appboot.FIXTURES / "tears" / "tears_v1.mp4")):
        data = path.read_bytes()
        # keep the init segment and the first three media segments (top-level scan of sizes only)
        pos, moofs, cut = 0, 0, len(data)
        while pos + 8 <= len(data):
            size, typ = struct.unpack(">I4s", data[pos:pos + 8])
            if size < 8:
                break
            if typ == b"moof":
                moofs += 1
                if moofs == 4:
                    cut = pos
                    break
            pos += size
        out[name] = data[:cut]
    out.update(layout_seeds())
    out.update(shape_seeds())
    _SEEDS = out
    return out


def shape_seeds() -> dict:
    """valid files of the *shapes of stored media* of harness/CHECKLIST.md section 4 (names shp_*): used unmodified
    through every library entry point and endpoint sequence, and as seeds of the random mutations"""
    mk = mp4synth.make_track
    out = {}

    def v(name, **kw):
        kw.setdefault("payload_size", 24)
        kw.setdefault("samples_per_segment", 2)
        out["shp_" + name] = mk(kw.pop("kind", "video"), kw.pop("timescale", 1000), kw.pop("durations", [2000, 2000, 1000]),
                                seed=700 + len(out), **kw)
    v("two_unequal", durations=[2000, 700])                       # two segments (the minimum), short last
    v("short_interior", durations=[2000, 500, 2000, 300])
    v("one_long", durations=[3600000], samples_per_segment=3)     # one segment of one hour
    v("largesize", largesize=("mdat", "moof"))
    v("tfdt_v0", tfdt_version=0, first_decode_time=90000)
    v("tfdt_v1", tfdt_version=1, first_decode_time=(1 << 33) + 1)
    v("seq_from_0", start_number=0)
    v("seq_from_7", start_number=7)
    v("ts_1", timescale=1, durations=[2, 2, 1], samples_per_segment=1)
    v("ts_1e7", timescale=10000000, durations=[20000000, 20000000, 10000001])
    v("ntsc", timescale=30000, durations=[60060, 60060, 30030], samples_per_segment=[2, 2, 1])
    v("no_mehd_moof_pssh", with_mehd=False, moof_pssh="before")
    v("base_explicit", base="explicit")
    v("base_implicit", base="implicit")
    v("base_absolute", base="absolute", with_styp=True, with_sidx=True)
    v("dur_in_tfhd", sample_durations_in="tfhd", extra_traf_box=True)
    v("dur_in_trex", sample_durations_in="trex", trun_cto=True)
    v("emsg_v1_first", with_emsg=2, emsg_first=True, emsg_version=1, with_sidx=True)
    v("enc_iv16_order", kind="audio", timescale=48000, durations=[2048, 2048], encrypted=True, iv_size=16,
      traf_order="trun,senc,piff,saiz,saio", saio_version=1, saiz_default=False, subsamples=True)
    v("enc_moof_pssh", encrypted=True, moof_pssh=True, traf_order="senc_first")
    # one stored segment 200 times the nominal one (event-rate caps must use the real duration of the segment)
    v("long_tail", timescale=240, durations=[960, 960, 192000], samples_per_segment=[4, 4, 4])
    # payload larger than the reader's cache window (buffersize 16384 x max_buffers 30) and a file exactly at it
    window = 16384 * 30
    v("over_window", durations=[2000, 2000], payload_bytes=[window + 4096, 9000])
    at = mk("video", 1000, [2000, 2000], samples_per_segment=2, seed=790, payload_bytes=[window // 2, 6000])
    pad = window - len(at)
    if pad >= 8:
        at += struct.pack(">I4s", pad, b"free") + bytes(pad - 8)
    out["shp_at_window"] = at
    return out


# ------------------------------------------------------------------ layout classes

def _fragment(seq: int, track_id: int, decode_time: int, n: int, dur: int, size: int, trun_flags: int,
              enc: str | None, rng) -> bytes:
    """one `moof mdat` whose tfhd carries default duration / size / flags, so that the trun
    box only holds the per-sample fields selected by `trun_flags` (none for 0).  `enc`:
      None          clear
      'default'     saiz with default_sample_info_size = 8 (no table), senc of bare IVs
      'table'       saiz with a per-sample size table, senc with one subsample per sample
      'empty'       saiz with default size 0 and sample_count 0, senc with 0 entries
    """
    from mp4synth import box, full, u8, u16, u32, s32
    tfhd = full("tfhd", 0, 0x020000 | 0x08 | 0x10 | 0x20, u32(track_id), u32(dur), u32(size), u32(0x02000000))
    tfdt = full("tfdt", 0, 0, u32(decode_time))
    mfhd = full("mfhd", 0, 0, u32(seq))
    payload = bytes(rng.randrange(256) for _ in range(n * size))

    def enc_boxes(saio_offset: int) -> bytes:
        if enc is None:
            return b""
        if enc == "default":
            entries = [bytes(rng.randrange(256) for _ in range(8)) for _ in range(n)]
            saiz = full("saiz", 0, 0, u8(8), u32(n))
            senc = full("senc", 0, 0, u32(n), *entries)
        elif enc == "table":
            entries = [bytes(rng.randrange(256) for _ in range(8)) + u16(1) + u16(1) + u32(size - 1) for _ in range(n)]
            saiz = full("saiz", 0, 0, u8(0), u32(n), bytes(len(e) for e in entries))
            senc = full("senc", 0, 2, u32(n), *entries)
        else:
            saiz = full("saiz", 0, 0, u8(0), u32(0))
            senc = full("senc", 0, 0, u32(0))
        saio = full("saio", 0, 0, u32(1), u32(saio_offset))
        return saiz + saio + senc

    def moof(data_offset: int, saio_offset: int) -> bytes:
        b = u32(n)
        if trun_flags & 0x001:
            b += s32(data_offset)
        if trun_flags & 0x004:
            b += u32(0x02000000)
        for _ in range(n):
            if trun_flags & 0x100:
                b += u32(dur)
            if trun_flags & 0x200:
                b += u32(size)
            if trun_flags & 0x400:
                b += u32(0x01010000)
            if trun_flags & 0x800:
                b += u32(0)
        trun = full("trun", 0, trun_flags, b)
        return box("moof", mfhd, box("traf", tfhd, tfdt, trun, enc_boxes(saio_offset)))

    probe = moof(0, 0)
    # senc sample entries start 16 bytes into the senc box, which is the last box of the traf
    senc_len = 0 if enc is None else len(enc_boxes(0)) - enc_boxes(0).rindex(b"senc") + 4
    saio_off = len(probe) - senc_len + 16 if enc is not None else 0
    return moof(len(probe) + 8, saio_off) + box("mdat", payload)


def layout_seeds() -> dict:
    """minimal valid files of the *layout classes* the fixtures and mp4synth's default writer do
    not have: every subset class of the trun per-sample flags (including none: the samples take
    no space in the trun box), saiz with and without a size table, senc with and without
    subsamples / with no entries, a version-1 pssh with a KID list, sidx, emsg"""
    import random
    from mp4synth import box, full, u32
    out = {}
    rng = random.Random("c16:layout")
    clear = mp4synth.make_track("video", 1000, [2000, 2000], samples_per_segment=2, seed=611, payload_size=16)
    encd = mp4synth.make_track("audio", 48000, [2048, 2048], samples_per_segment=2, seed=612, payload_size=16,
                               encrypted=True)
    init_clear = clear[:clear.index(b"moof") - 4]
    init_enc = encd[:encd.index(b"moof") - 4]
    for flags in (0x000, 0x100, 0x200, 0x400, 0x800, 0x300, 0xF00, 0x004):
        frags = b"".join(_fragment(1 + k, 1, 2000 * k, 2, 1000, 12, 0x001 | flags, None, rng) for k in range(3))
        out[f"lay_trun_{flags:03x}"] = init_clear + frags
    for enc in ("default", "table", "empty"):
        frags = b"".join(_fragment(1 + k, 1, 2048 * k, 2, 1024, 12, 0x001, enc, rng) for k in range(3))
        out[f"lay_senc_{enc}"] = init_enc + frags
    kids = b"".join(bytes([k]) * 16 for k in (1, 2))
    pssh1 = full("pssh", 1, 0, bytes(range(16)), u32(2), kids, u32(4), b"data")
    sidx = full("sidx", 0, 0, u32(1), u32(1000), u32(0), u32(0), b"\0\0", b"\0\1", u32(100), u32(2000), u32(0x90000000))
    frags = b"".join(_fragment(1 + k, 1, 2000 * k, 2, 1000, 12, 0x001, None, rng) for k in range(3))
    out["lay_pssh_v1_sidx"] = init_clear + pssh1 + sidx + frags
    return out


def _vf(data: bytes, b) -> tuple:
    v = data[b.payload_start:b.payload_start + 4]
    return (v[0], int.from_bytes(v[1:4], "big")) if len(v) == 4 else (0, 0)


COUNT_EDITS = [0, 1, 2, 255, 256, 65535, 65536, 1 << 24, (1 << 31) - 1, 1 << 31, (1 << 32) - 1]


def count_fields(data: bytes, per_type: int = 2) -> list:
    """(absolute offset, width in bytes, box type, field) of the count / size fields that drive a
    loop of the parser, located with the independent walker (ISO/IEC 14496-12, 23001-7)"""
    try:
        boxes = mp4walk.walk(data)
    except Exception:
        return []
    out, seen = [], {}

    def add(b, rel, width, field):
        key = (b.type, field)
        seen[key] = seen.get(key, 0) + 1
        if seen[key] <= per_type and b.payload_start + rel + width <= b.end:
            out.append((b.payload_start + rel, width, b.type, field))

    def rec(bs):
        for b in bs:
            ver, flags = _vf(data, b)
            t = b.type
            if t == "trun":
                add(b, 4, 4, "sample_count")
            elif t == "saiz":
                o = 4 + (8 if flags & 1 else 0)
                add(b, o, 1, "default_sample_info_size")
                add(b, o + 1, 4, "sample_count")
            elif t == "saio":
                add(b, 4 + (8 if flags & 1 else 0), 4, "entry_count")
            elif t == "senc" or b.is_piff:
                o = 16 if b.is_piff else 0
                add(b, o + 4, 4, "sample_count")
                if flags & 2:
                    add(b, o + 8 + 8, 2, "subsample_count")
            elif t == "sidx":
                add(b, 4 + 8 + (8 if ver == 0 else 16) + 2, 2, "reference_count")
            elif t in ("stts", "stsc", "stco", "co64", "ctts", "stss", "stsd", "dref", "elst", "sbgp", "sgpd"):
                add(b, 4, 4, "entry_count")
            elif t == "stsz":
                add(b, 4, 4, "sample_size")
                add(b, 8, 4, "sample_count")
            elif t == "pssh":
                if ver > 0:
                    add(b, 4 + 16, 4, "kid_count")
                    kc = int.from_bytes(data[b.payload_start + 20:b.payload_start + 24], "big")
                    add(b, 4 + 16 + 4 + 16 * kc, 4, "data_size")
                else:
                    add(b, 4 + 16, 4, "data_size")
            elif t == "avcC":
                add(b, 5, 1, "numOfSequenceParameterSets")
            elif t == "hvcC":
                add(b, 22, 1, "num_arrays")
            elif t == "emsg":
                add(b, 4 + (0 if ver == 0 else 4), 4, "first_field")
            rec(b.children)
    rec(boxes)
    return out


def count_cases(seed_name: str, data: bytes, values=None) -> list:
    """every count field of the seed × every edit value that differs from the stored one"""
    out = []
    for at, width, typ, field in count_fields(data):
        cur = int.from_bytes(data[at:at + width], "big")
        for v in (values or COUNT_EDITS):
            v &= (1 << (8 * width)) - 1
            if v == cur:
                continue
            b = bytearray(data)
            b[at:at + width] = v.to_bytes(width, "big")
            out.append(({"seed": seed_name, "op": "count", "box": typ, "field": field, "at": at, "width": width,
                         "new": v}, bytes(b)))
    # one case per (field, value)
    uniq, seen = [], set()
    for d, b in out:
        k = (d["at"], d["new"])
        if k not in seen:
            seen.add(k)
            uniq.append((d, b))
    return uniq


def box_headers(data: bytes) -> list:
    """(offset of the size field, size, type, depth) of every box mp4walk finds"""
    try:
        boxes = mp4walk.walk(data)
    except Exception:
        return []
    out = []

    def rec(bs, depth):
        for b in bs:
            out.append((b.start, b.size, b.type, depth))
            rec(b.children, depth + 1)
    rec(boxes, 0)
    return out


def mutate(rng, seed_name: str, data: bytes) -> tuple[dict, bytes]:
    """→ (description, mutated bytes)"""
    hdrs = box_headers(data)
    k = rng.random()
    b = bytearray(data)
    if k < .3:
        # truncation: at a box boundary ± a few bytes, inside a header, or anywhere
        if hdrs and rng.random() < .6:
            off, size, typ, _ = rng.choice(hdrs)
            at = max(0, min(len(b), rng.choice([off, off + 4, off + 7, off + 8, off + 9, off + 12, off + size - 1,
                                               off + size // 2])))
        else:
            at = rng.randrange(0, len(b) + 1)
        return {"seed": seed_name, "op": "truncate", "at": at}, bytes(b[:at])
    if k < .6 and hdrs:
        # size-field edit
        off, size, typ, depth = rng.choice(hdrs)
        new = rng.choice([0, 1, 2, 7, 8, 9, 12, 15, 16, size - 1, size + 1, size - 8, size + 8, size * 2, len(b),
                          len(b) + 1, 0x7fffffff, 0x80000000, 0xffffffff, 0xfffffff0, rng.randrange(0, 1 << 32)])
        new = max(0, min(0xffffffff, new))
        b[off:off + 4] = struct.pack(">I", new)
        return {"seed": seed_name, "op": "size", "box": typ, "depth": depth, "at": off, "new": new}, bytes(b)
    if k < .7 and hdrs:
        # type-field edit: turn a box into another known (or unknown) type
        off, size, typ, depth = rng.choice(hdrs)
        new = rng.choice([b"moov", b"moof", b"traf", b"trun", b"tfhd", b"senc", b"saiz", b"saio", b"stsd", b"avcC",
                          b"esds", b"sidx", b"emsg", b"pssh", b"uuid", b"mdat", b"free", b"xxxx", b"\x00\x00\x00\x00",
                          b"tenc", b"trex", b"mvhd", b"tkhd", b"mdhd", b"hdlr", b"stts", b"ctts", b"stsz", b"schi"])
        b[off + 4:off + 8] = new
        return {"seed": seed_name, "op": "type", "box": typ, "depth": depth, "at": off,
                "new": new.decode("latin-1")}, bytes(b)
    # bit flips: 1..8 bits, biased to box headers / the first box payload bytes
    n = rng.choice([1, 1, 1, 2, 3, 8])
    flips = []
    for _ in range(n):
        if hdrs and rng.random() < .7:
            off, size, typ, _ = rng.choice(hdrs)
            pos = min(len(b) - 1, off + rng.randrange(0, min(size, 48)))
        else:
            pos = rng.randrange(len(b))
        bit = rng.randrange(8)
        b[pos] ^= 1 << bit
        flips.append([pos, bit])
    return {"seed": seed_name, "op": "flip", "flips": flips}, bytes(b)


def rebuild(desc: dict) -> bytes:
    """the mutated bytes of a recorded case (replay)"""
    data = seeds()[desc["seed"]]
    b = bytearray(data)
    if desc["op"] == "truncate":
        return bytes(b[:desc["at"]])
    if desc["op"] == "size":
        b[desc["at"]:desc["at"] + 4] = struct.pack(">I", desc["new"])
    elif desc["op"] == "type":
        b[desc["at"] + 4:desc["at"] + 8] = desc["new"].encode("latin-1")
    elif desc["op"] == "flip":
        for pos, bit in desc["flips"]:
            b[pos] ^= 1 << bit
    elif desc["op"] == "count":
        b[desc["at"]:desc["at"] + desc["width"]] = desc["new"].to_bytes(desc["width"], "big")
    elif desc["op"] == "none":
        pass
    return bytes(b)


# ------------------------------------------------------------------ library target

LIB_TARGETS = ("index", "lazy", "full")


def run_lib(data: bytes, target) -> dict:
    """→ {"outcome": "ok" | "raise:<Type>" | "timeout" | "fatal:<Type>", "seconds": s}
    target: 'index' = what MediaFile.parse_media_file does (default options + Representation.load),
            'lazy'  = what load_fragment does for a media request (mode rw, lazy, touch, encode),
            'full'  = what the inspect and segment-info pages do (lazy_load=False, everything parsed, toJSON)
    (False / True are accepted for 'index' / 'lazy')"""
    from dashlive.mpeg import mp4
    from dashlive.mpeg.dash.representation import Representation
    from dashlive.utils.buffered_reader import BufferedReader
    target = {False: "index", True: "lazy"}.get(target, target)
    old = c16_http.arm(LIB_LIMIT)
    t0 = time.perf_counter()
    try:
        try:
            src = BufferedReader(io.BytesIO(data), buffersize=16384)
            if target == "lazy":
                opts = mp4.Options(mode="rw", lazy_load=True)
                opts.iv_size = 8
                atoms = mp4.Mp4Atom.load(src, options=opts)
                for a in atoms:        # touch what generate_media_segment touches
                    if a.atom_type == "moof":
                        _ = a.traf.tfhd
                        _ = a.traf.trun.flags
                        _ = a.mfhd.sequence_number
                        for name in ("senc", "saiz", "saio"):
                            a.traf.find_child(name)
                wrap = mp4.Wrapper(children=atoms)
                wrap.encode()
            elif target == "full":
                opts = mp4.Options(lazy_load=False)
                opts.iv_size = 8
                wrap = mp4.Mp4Atom.load(src, options=opts, use_wrapper=True)
                for ch in wrap.children:
                    ch.toJSON(exclude={"parent", "options"})
            else:
                atoms = mp4.Mp4Atom.load(src)
                Representation.load("c16fuzz", atoms)
            out = "ok"
        except c16_http.Timeout:
            out = "timeout"
        except (MemoryError, RecursionError) as e:
            out = f"fatal:{type(e).__name__}"
        except Exception as e:
            out = f"raise:{type(e).__name__}"
    finally:
        c16_http.disarm(old)
    return {"outcome": out, "seconds": time.perf_counter() - t0}


def lib_violation(res: dict) -> str | None:
    if res["outcome"] == "timeout":
        return (f"no result within {LIB_LIMIT:.0f} s (or the process grew by more than "
                f"{c16_http.MEM_LIMIT >> 20} MiB): the parser runs without bound")
    if res["outcome"].startswith("fatal:"):
        return res["outcome"]
    return None


# ------------------------------------------------------------------ endpoint targets

class Uploader:
    """a logged-in (media group) client with CSRF tokens, and a scratch stream"""

    def __init__(self, app):
        self.app = app
        self.c = app.client()
        r = app.login(self.c, appboot.MEDIA)
        assert r.status_code == 200, r.status_code
        self.c.get("/streams?ajax=1")
        ck = self.c.get_cookie("csrf")
        assert ck is not None
        self.csrf_key = ck.value
        self.counter = 0
        with app.ctx() as m:
            s = m.Stream.get(directory="c16up")
            if s is None:
                s = m.Stream(title="C16 uploads", directory="c16up")
                m.db.session.add(s)
                m.db.session.commit()
            self.spk = s.pk

    def token(self, service: str) -> str:
        from dashlive.server.requesthandler.csrf import CsrfProtection
        with self.app.app.test_request_context("/"):
            return CsrfProtection.generate_token(service, self.csrf_key)

    def _do(self, label, method, url, **kw) -> dict:
        del c16_http._LAST_EXC[:]
        old = c16_http.arm(c16_http.TIME_LIMIT)
        t0 = time.perf_counter()
        js = text = emsg = None
        try:
            import contextlib
            with contextlib.redirect_stdout(c16_http._DEVNULL):
                r = self.c.open(url, method=method, **kw)
            status = r.status_code
            if r.is_json:
                js = r.get_json(silent=True)
            elif label == "live-patch" and status == 200:
                text = r.get_data(as_text=True)
            elif label.startswith("events-") and status == 200:
                body, pos, emsg = r.get_data(), 0, 0
                while pos + 8 <= len(body):          # top-level boxes of the served segment
                    size = int.from_bytes(body[pos:pos + 4], "big")
                    emsg += body[pos + 4:pos + 8] == b"emsg"
                    if size < 8:
                        break
                    pos += size
            r.close()
        except c16_http.Timeout:
            status = 0
        except Exception as e:
            status = c16_http.CLIENT_ERROR
            c16_http._LAST_EXC.append((type(e).__name__, "client", str(e)[:160]))
        finally:
            c16_http.disarm(old)
        exc = c16_http._LAST_EXC[-1] if c16_http._LAST_EXC else None
        return {"step": label, "status": status, "seconds": time.perf_counter() - t0, "exc": exc, "json": js,
                "text": text, "emsg": emsg}

    def inspect(self, data: bytes) -> list:
        """POST /media/inspect.  The view is an `async def`; without Flask's optional
        `async` extra (asgiref is not installed in this sandbox) Flask cannot dispatch
        it, so the synchronous body of the view that handles an uploaded file
        (`InspectMediaFile.show_uploaded_file`) is run inside a request context built
        from the same multipart request, with Flask's own exception → 500 mapping."""
        if self._async_ok():
            return [self._do("inspect", "POST", "/media/inspect",
                             data={"file": (io.BytesIO(data), "c16fuzz.mp4", "video/mp4"),
                                   "csrf_token": self.token("files")},
                             content_type="multipart/form-data")]
        from dashlive.server.requesthandler.media_management import InspectMediaFile
        del c16_http._LAST_EXC[:]
        old = c16_http.arm(c16_http.TIME_LIMIT)
        t0 = time.perf_counter()
        status, exc = 0, None
        try:
            with self.app.app.test_request_context(
                    "/media/inspect", method="POST",
                    data={"file": (io.BytesIO(data), "c16fuzz.mp4", "video/mp4"), "csrf_token": "x"},
                    content_type="multipart/form-data"):
                try:
                    import contextlib
                    with contextlib.redirect_stdout(io.StringIO()):
                        rv = InspectMediaFile().show_uploaded_file()
                    status = self.app.app.make_response(rv).status_code
                except c16_http.Timeout:
                    raise
                except Exception as e:          # what Flask turns into a 500 response
                    status = 500
                    tb = __import__("traceback").extract_tb(e.__traceback__)
                    where = next((f"{fr.filename.split('/dashlive/', 1)[1]}:{fr.name}" for fr in reversed(tb)
                                  if "/dashlive/" in fr.filename), "?")
                    exc = (type(e).__name__, where, str(e)[:160])
        except c16_http.Timeout:
            status = 0
        finally:
            c16_http.disarm(old)
        return [{"step": "inspect", "status": status, "seconds": time.perf_counter() - t0, "exc": exc, "json": None}]

    _ASYNC = None

    def _async_ok(self) -> bool:
        if Uploader._ASYNC is None:
            try:
                import asgiref  # noqa: F401
                Uploader._ASYNC = True
            except ImportError:
                Uploader._ASYNC = False
        return Uploader._ASYNC

    def upload_index(self, data: bytes) -> list:
        """upload → index → pages that read the (possibly corrupt) file → delete"""
        self.counter += 1
        name = f"c16f{self.counter}"
        steps = [self._do("upload", "POST", f"/media/{self.spk}/blob", query_string={"ajax": "1"},
                          data={"file": (io.BytesIO(data), name + ".mp4", "video/mp4"),
                                "csrf_token": self.token("upload"), "submit": "submit"},
                          content_type="multipart/form-data")]
        with self.app.ctx() as m:
            mf = m.MediaFile.get(name=name)
            mfid = mf.pk if mf is not None else None
        if mfid is None:
            return steps
        steps.append(self._do("index", "GET", f"/media/index/{mfid}",
                              query_string={"ajax": "1", "csrf_token": self.token("files")}))
        indexed = bool((steps[-1]["json"] or {}).get("indexed"))
        if indexed:
            steps.append(self._do("set-timing-ref", "POST", f"/stream/{self.spk}", query_string={"ajax": "1"},
                                  json={"title": "C16 uploads", "directory": "c16up", "marlin_la_url": "",
                                        "playready_la_url": "", "timing_ref": name,
                                        "csrf_token": self.token("streams")}))
        steps.append(self._do("stream-page", "GET", f"/stream/{self.spk}"))
        steps.append(self._do("media-info", "GET", f"/stream/{self.spk}/{mfid}"))
        steps.append(self._do("segments", "GET", f"/stream/{self.spk}/{mfid}/segments"))
        steps.append(self._do("segment0", "GET", f"/stream/{self.spk}/{mfid}/segment/0"))
        steps.append(self._do("segment1", "GET", f"/stream/{self.spk}/{mfid}/segment/1"))
        steps.append(self._do("manifest", "GET", "/dash/vod/c16up/hand_made.mpd"))
        # the live presentations of the uploaded track: SegmentTimeline, patch document named by the manifest
        steps.append(self._do("live-timeline", "GET", "/dash/live/c16up/hand_made.mpd", query_string={"timeline": "1"}))
        live = self._do("live-patch", "GET", "/dash/live/c16up/hand_made.mpd", query_string={"patch": "1"})
        steps.append(live)
        import re
        m = re.search(r"<PatchLocation[^>]*>([^<]+)</PatchLocation>", live.get("text") or "")
        if m:
            u = urllib.parse.urlsplit(m.group(1).replace("&amp;", "&"))
            steps.append(self._do("patch", "GET", u.path + ("?" + u.query if u.query else "")))
        steps.append(self._do("init", "GET", f"/dash/vod/c16up/{name}/init.m4v"))
        steps.append(self._do("media1", "GET", f"/dash/vod/c16up/{name}/1.m4v"))
        # in-band events at the highest rate on the first and the LAST stored segment (segments of unequal length:
        # a cap on events per segment has to hold for the real duration of the addressed segment)
        with self.app.ctx() as m:
            mf = m.MediaFile.get(name=name)
            nseg = mf.representation.num_media_segments if (mf is not None and mf.representation is not None) else 0
        for k in sorted({1, nseg} - {0}):
            steps.append(self._do(f"events-{'last' if k == nseg else 'first'}", "GET", f"/dash/vod/c16up/{name}/{k}.m4v",
                                  query_string={"events": "ping", "ping__interval": "1"}))
        steps.append(self._do("edit-page", "GET", f"/stream/{self.spk}/{mfid}/edit"))
        d = self._do("delete", "DELETE", f"/stream/{self.spk}/{mfid}",
                     query_string={"ajax": "1", "csrf_token": self.token("files")})
        steps.append(d)
        with self.app.ctx() as m:         # make sure the scratch stream is empty again
            try:
                left = list(m.MediaFile.search(stream_pk=self.spk))
            except Exception as e:        # the stored row itself can no longer be loaded
                steps.append({"step": "reload-media-row", "status": 500, "seconds": 0.0, "json": None,
                              "exc": (type(e).__name__, "models/mediafile.py:_post_init", str(e)[:160])})
                m.db.session.rollback()
                m.db.session.execute(m.db.text("DELETE FROM media_file_error WHERE media_pk IN "
                                               "(SELECT pk FROM media_file WHERE stream = :s)"), {"s": self.spk})
                m.db.session.execute(m.db.text("DELETE FROM media_file WHERE stream = :s"), {"s": self.spk})
                m.db.session.commit()
                left = []
            for mf in left:
                try:
                    mf.delete_file()
                except Exception:
                    pass
                if mf.blob is not None:
                    m.db.session.delete(mf.blob)
                m.db.session.delete(mf)
            s = m.db.session.get(m.Stream, self.spk)
            s.timing_reference = None
            m.db.session.commit()
        for st in steps:
            st["indexed"] = indexed
        return steps


MAX_EVENTS_PER_SEGMENT = 10000      # the cap the service states for in-band events of one media segment


def endpoint_violation(step: dict) -> str | None:
    if (step.get("emsg") or 0) > MAX_EVENTS_PER_SEGMENT:
        return (f"{step['step']}: the served segment carries {step['emsg']} emsg boxes - more than the cap of "
                f"{MAX_EVENTS_PER_SEGMENT} events per segment (expected: 400, or a bounded response)")
    if step["status"] == 0:
        return f"{step['step']}: no answer within {c16_http.TIME_LIMIT:.0f} s"
    if step["status"] == c16_http.CLIENT_ERROR:
        return f"{step['step']}: exception outside the application's error handling: {step['exc']}"
    if step["status"] >= 500:
        return f"{step['step']}: status {step['status']}"
    return None
