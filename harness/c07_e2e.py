"""C07 end to end: a manifest is requested from the booted application with a
random subset of options; the init/media URLs are taken from the XML exactly as
a client would (lxml: XML un-escaping, BaseURL + SegmentTemplate resolution);
each URL is given to the server's own option parser for a media request and the
result is compared field by field with what the manifest request resolved.

Layer C (oracle) = the property text; correspondence = the Lean model's
prediction of each query string (`optmediaquery`) and of the media-side parse of
each URL (`optmedia`) against the real application."""
from __future__ import annotations

import datetime
import re
import urllib.parse

import common
import c07_grid
import c07_lib as L
import c07_unit as U
from common import Channel

NOW = "2024-05-06T07:08:09Z"
MANIFESTS = [
    ("hand_made.mpd", ["live", "vod", "odvod"]),
    ("manifest_e.mpd", ["live", "vod"]),
    ("manifest_h.mpd", ["live", "vod"]),
    ("manifest_i.mpd", ["live", "vod"]),
    ("manifest_n.mpd", ["live", "vod"]),
    ("manifest_a.mpd", ["live", "vod"]),
    ("manifest_b.mpd", ["vod"]),
    ("manifest_ef.mpd", ["live", "vod"]),
    ("manifest_vod_aiv.mpd", ["odvod"]),
]
STREAM_DEFAULTS = {   # stream "tears" carries its own defaults (same on the manifest and the media side)
    "leeway": 40, "timeShiftBufferDepth": 120, "ping": {"count": 3, "duration": 150},
    "eventTypes": ["ping"], "playready": {"version": 2.0}, "bugCompatibility": ["saio"],
    "failureCount": 1,
}
INJECT = {"verr": "video", "aerr": "audio", "terr": "text", "vcorrupt": "video"}
# The options the property names and the media types they must reach (VIDEO=2 AUDIO=4 TEXT=8), written
# from the property text and the documented purpose of each option – not read from the registry, so a
# lost (or gained) usage bit is a failure of the property, not a change of the oracle.
REQUIRED = {
    "start": 14, "depth": 14, "leeway": 14, "drm": 14, "bugs": 14, "failures": 14,
    "clearkey__la_url": 6, "marlin__la_url": 6, "playready__la_url": 6, "playready__version": 6,
    "playready__piff": 6, "events": 6,
    "verr": 2, "vcorrupt": 2, "frames": 2, "aerr": 4, "terr": 8,
}


def applies(row, bit: int) -> bool:
    mask = REQUIRED.get(row["cgi"])
    if mask is None and row["pfx"] in ("ping", "scte35"):
        mask = 6                      # event schedules reach video and audio
    if mask is None:
        mask = row["usage"]           # not named by the property: the registry decides
    return bool(mask & bit)

_APP = None
_CUR_DEFAULTS = None
EXTRA_STREAMS: list = []
EXTRA_ERRORS: list = []


def app():
    global _APP
    if _APP is None:
        import appboot
        _APP = appboot.get_app(("bbb", "tears"))
        # the same media files again, as streams whose timing reference is NOT the video track: what a
        # manifest computes from stream/track properties (time of day -> segment number) must use the
        # track the option applies to, whatever the stream's reference is
        src = appboot.FIXTURES / "bbb"
        stems = sorted(p.stem for p in src.glob("bbb_[avt]*.mp4"))
        for directory, prefix, ref in (("bbbaref", "aref", "aref_a1"), ("bbbtref", "tref", "tref_t1")):
            try:
                _APP.add_stream(directory, f"bbb, timing reference {ref}",
                                [(prefix + st[3:], src / f"{st}.mp4") for st in stems], timing_from=ref)
                EXTRA_STREAMS.append(directory)
            except Exception as e:      # a layout the server refuses is reported once, not silently dropped
                EXTRA_ERRORS.append(f"{directory}: {type(e).__name__}: {e}")
        set_defaults("A")
    return _APP


def set_defaults(name):
    """store one of the named stream-default sets on stream `tears` (part of a case's history)"""
    global _CUR_DEFAULTS
    if name == _CUR_DEFAULTS:
        return
    import copy
    with _APP.ctx() as models:
        s = models.Stream.get(directory="tears")
        s.defaults = copy.deepcopy(c07_grid.DEFAULTS[name])
        models.db.session.commit()
    _CUR_DEFAULTS = name


# ------------------------------------------------------------------ independent parsers (oracle side)
_DT = re.compile(r"^(\d{4})-(\d\d)-(\d\d)T(\d\d):(\d\d):(\d\d)(?:\.(\d{1,6}))?(Z|[+-]\d\d:\d\d)?$")


def parse_xs_datetime(text: str) -> datetime.datetime:
    m = _DT.match(text.strip())
    if not m:
        raise ValueError(text)
    us = int((m.group(7) or "0").ljust(6, "0"))
    tz = m.group(8) or "Z"
    off = datetime.timedelta(0)
    if tz != "Z":
        off = datetime.timedelta(hours=int(tz[1:3]), minutes=int(tz[4:6])) * (1 if tz[0] == "+" else -1)
    return datetime.datetime(int(m.group(1)), int(m.group(2)), int(m.group(3)), int(m.group(4)),
                             int(m.group(5)), int(m.group(6)), us, tzinfo=datetime.timezone(off))


_DUR = re.compile(r"^PT(?:(\d+)H)?(?:(\d+)M)?(?:(\d+(?:\.\d+)?)S)?$")


def parse_xs_duration(text: str) -> float:
    m = _DUR.match(text.strip())
    if not m:
        raise ValueError(text)
    return int(m.group(1) or 0) * 3600 + int(m.group(2) or 0) * 60 + float(m.group(3) or 0)


def local(el) -> str:
    return el.tag.split("}")[1] if "}" in el.tag else el.tag


def media_urls(xml: bytes, manifest_url: str):
    """[(content type, representation id, 'init'|'media', absolute URL)] for every
    Representation, resolved as ISO/IEC 23009-1 5.6 / 5.3.9.4 prescribe"""
    from lxml import etree
    try:
        root = etree.fromstring(xml)
    except etree.XMLSyntaxError:
        # well-formedness of the whole document is C05's property (e.g. the request URI echoed into
        # <Location>); C07 still reads the media URLs the way a lenient client would
        root = etree.fromstring(xml, etree.XMLParser(recover=True))
        if root is None:
            raise
        root.set("_recovered", "1")
    out = []

    def base_of(el, inherited):
        for ch in el:
            if local(ch) == "BaseURL" and (ch.text or "").strip():
                return urllib.parse.urljoin(inherited, ch.text.strip())
        return inherited

    def template_of(el, inherited):
        for ch in el:
            if local(ch) == "SegmentTemplate":
                merged = dict(inherited or {})
                merged.update(ch.attrib)
                first_t = None
                for s in ch.iter():
                    if local(s) == "S":
                        first_t = s.get("t")
                        break
                if first_t is not None:
                    merged["_t"] = first_t
                return merged
        return inherited

    mpd_base = base_of(root, manifest_url)
    mpd_tpl = template_of(root, None)
    for period in root:
        if local(period) != "Period":
            continue
        p_base = base_of(period, mpd_base)
        p_tpl = template_of(period, mpd_tpl)
        for adp in period:
            if local(adp) != "AdaptationSet":
                continue
            a_base = base_of(adp, p_base)
            a_tpl = template_of(adp, p_tpl)
            for rep in adp:
                if local(rep) != "Representation":
                    continue
                ctype = adp.get("contentType")
                mime = rep.get("mimeType") or adp.get("mimeType") or ""
                if not ctype:
                    ctype = {"video": "video", "audio": "audio"}.get(mime.split("/")[0], "text")
                r_base = base_of(rep, a_base)
                r_tpl = template_of(rep, a_tpl)
                rid = rep.get("id", "")
                if r_tpl is None:
                    out.append((ctype, rid, "media", r_base))
                    continue

                def subst(t):
                    t = t.replace("$$", "\0")
                    t = t.replace("$RepresentationID$", rid)
                    t = t.replace("$Number$", r_tpl.get("startNumber", "1"))
                    t = t.replace("$Time$", r_tpl.get("_t", "0"))
                    t = t.replace("$Bandwidth$", rep.get("bandwidth", "0"))
                    return t.replace("\0", "$")
                for what, attr in (("init", "initialization"), ("media", "media")):
                    if r_tpl.get(attr):
                        out.append((ctype, rid, what, urllib.parse.urljoin(r_base, subst(r_tpl[attr]))))
    return root, out


# ------------------------------------------------------------------ option access
def get_field(cont, row):
    """(present, value) of a registry row inside an OptionsContainer"""
    try:
        if row["pfx"]:
            if row["pfx"] not in cont._fields:
                return False, None
            sub = getattr(cont, row["pfx"])
            if row["full"] not in sub._fields:
                return False, None
            return True, getattr(sub, row["full"])
        if row["full"] not in cont._fields:
            return False, None
        return True, getattr(cont, row["full"])
    except AttributeError:
        return False, None


def set_absent(spec: str, idx: set) -> str:
    if spec == "-":
        return spec
    return ";".join(e for e in spec.split(";") if int(e.split("@")[0]) not in idx) or "-"


# ------------------------------------------------------------------ case generation
def e2e_value(row, rng, mode, now_dt):
    """a legal, sensible value for an option on a real manifest request"""
    cgi, kspec = row["cgi"], row["kspec"]
    pick = rng.choice
    if cgi == "start":
        k = rng.random()
        if k < .3:
            return pick(["today", "now", "month", "year", "epoch"])
        off = pick(["Z", "+05:30", "-08:00", "Z", "+14:00", "-03:30", "+01:00"])
        base = now_dt - datetime.timedelta(seconds=rng.randrange(3600, 40 * 86400))
        frac = pick(["", "", ".500000", ".250000", ".999999"])   # canonical text: the model's date-time codec
        if off == "Z" and rng.random() < .3:
            off = ""          # a start time without zone: taken as UTC (check_option_values)
        tz = datetime.timezone.utc if off in ("Z", "") else parse_xs_datetime("2000-01-01T00:00:00" + off).tzinfo
        loc = base.astimezone(tz).replace(microsecond=0)
        return ("text", loc.strftime("%Y-%m-%dT%H:%M:%S") + frac + off)
    if cgi == "depth":
        return pick([30, 60, 120, 7, 3600, 1801])
    if cgi == "leeway":
        return pick([0, 60, 5, 1000, None])
    if cgi == "failures":
        return pick([0, 1, 2, 5])
    if cgi == "frames":
        return pick([1, 3, 10])
    if cgi == "mup":
        return pick([4, 30, 8, None])
    if cgi == "update":
        return pick([1, 5, 77])
    if cgi == "drift":
        return pick([1, 10, 3])
    if cgi == "playready__version":
        return pick([1.0, 2.0, 3.0, 4.0])
    if cgi in ("acodec",):
        return pick(["ec-3", "any", "mp4a"])
    if cgi in ("time",):
        return pick(["direct", "head", "http-ntp", "iso", "ntp", "sntp", "xsd"])
    if cgi == "ntp_servers":
        return pick([["google"], ["europe-ntp"], ["a.example", "b.example"]])
    if cgi == "tcodec":
        return "im1t|etd1"
    if cgi == "events":
        return pick([["ping"], ["scte35"], ["ping", "scte35"], ["scte35", "ping"]])
    if cgi == "bugs":
        return pick([["saio"], ["saio", "other&bug"], ["x y"]])
    if cgi in ("merr",):
        return [(pick([404, 503]), 9000 + rng.randrange(100))]
    if cgi in ("verr", "aerr", "terr"):
        out = []
        for _ in range(rng.randrange(1, 4)):
            code = pick([404, 410, 503, 504])
            if mode == "live" and rng.random() < .4:
                t = now_dt - datetime.timedelta(seconds=rng.randrange(-600, 4000))
                out.append((code, datetime.time(t.hour, t.minute, t.second)))
            else:
                out.append((code, rng.randrange(1, 40)))
        return out
    if cgi == "vcorrupt":
        out = []
        for _ in range(rng.randrange(1, 4)):
            if mode == "live" and rng.random() < .4:
                t = now_dt - datetime.timedelta(seconds=rng.randrange(-600, 4000))
                out.append(t.strftime("%H:%M:%SZ"))
            else:
                out.append(str(rng.randrange(1, 40)))
        return out
    if cgi.endswith("__timescale"):
        return pick([1, 10, 90000, 1000])
    if cgi.endswith("__interval"):
        return pick([100, 250, 2000, 1])
    if cgi.endswith("__count"):
        return pick([1, 2, 5])
    if cgi.endswith("__duration"):
        return pick([1, 100, 500])
    if cgi.endswith("__start"):
        return pick([1, 50, 1000])
    if cgi.endswith("__version"):
        return 1
    if cgi.endswith("__program_id"):
        return pick([0, 1, 65535, 1234])
    if cgi in ("ad_audio", "main_audio"):
        return pick(["bbb_a1", "bbb_a2", "x&y"])
    if cgi == "main_text":
        return pick(["bbb_t1", "t+1"])
    return L.gen_value(kspec, rng, allow_none=False)


def gen_case(rng, rows):
    manifest, modes = rng.choice(MANIFESTS[:1] * 4 + MANIFESTS)
    mode = rng.choice(modes)
    k0 = rng.random()
    stream = "tears" if k0 < .25 else "bbbaref" if k0 < .32 else "bbbtref" if k0 < .38 else "bbb"
    now_dt = parse_xs_datetime(NOW)
    k = rng.choice([0, 1, 2, 3, 4, 5, 7, 10])
    media = [i for i, r in enumerate(rows) if r["usage"] & 14]
    cand = media * 3 + list(range(len(rows)))
    params = {}
    for _ in range(k):
        i = rng.choice(cand)
        r = rows[i]
        if r["cgi"] == "mode" or (r["cgi"] == "drm" and stream == "tears"):
            continue        # the tears fixture has no encrypted files
        v = e2e_value(r, rng, mode, now_dt)
        params[r["cgi"]] = v[1] if isinstance(v, tuple) and v and v[0] == "text" else L.cgi_text_of(r["kspec"], v)
    if rng.random() < .12:
        for hk, hv in rng.choice(U.HOSTILE_ARGS).items():
            if not (hk == "drm" and stream == "tears"):
                params[hk] = hv
    if any(c in params for c in ("verr", "aerr", "terr", "vcorrupt")) and mode == "live" and "start" not in params:
        params["start"] = "today"     # times of day only make sense against today's availabilityStartTime
    return {"mode": mode, "stream": stream, "manifest": manifest, "params": params, "now": NOW}


def case_url(case) -> str:
    q = urllib.parse.urlencode(case["params"])
    return f"/dash/{case['mode']}/{case['stream']}/{case['manifest']}" + (f"?{q}" if q else "")


# ------------------------------------------------------------------ the property on one case
def influences(row, mode, selected_drms, events) -> bool:
    """does this option influence media generation for this request? (property
    text: live timing only for live streams; DRM specific fields only for a
    selected DRM system; event schedules only for a selected event type)"""
    cgi = row["cgi"]
    if cgi in ("start", "depth") and mode != "live":
        return False
    if row["pfx"] in ("playready", "marlin", "clearkey") and row["pfx"] not in selected_drms:
        return False
    if row["pfx"] in ("ping", "scte35") and row["pfx"] not in events:
        return False
    return True


def expected_injection(errs, now, ast, depth, timescale, seg_dur, with_code=True):
    """entries given by segment number are kept; a time of day is placed on the
    day of availabilityStartTime, dropped when older than the time shift buffer,
    else converted to the number of the segment containing it"""
    out = []
    earliest = now - datetime.timedelta(seconds=depth)
    for code, pos in errs:
        if isinstance(pos, int):
            seg = pos
        elif pos is None or ast is None:
            return None
        else:
            tm = ast.replace(hour=pos.hour, minute=pos.minute, second=pos.second)
            if tm < earliest:
                continue
            delta = tm - ast
            ticks = (delta.days * 86400 + delta.seconds) * timescale + (delta.microseconds * timescale) // 1000000
            seg = ticks // seg_dur
        out.append((code, seg) if with_code else str(seg))
    return out


def run_case(case, rows, want_model=True):
    """returns (oracle failures, model lines with their expected outputs, stats)"""
    import flask
    import appboot
    from dashlive.server import manifests as mfts
    from dashlive.server.options.repository import OptionsRepository
    from dashlive.server.requesthandler.manifest_requests import ServeManifest
    from dashlive.server.requesthandler.media_requests import LiveMedia
    a = app()
    _ = ServeManifest
    set_defaults(case.get("defaults", "A"))
    url = case_url(case)
    mode = case["mode"]
    fails, lines, stats = [], [], {"status": None, "urls": 0, "compared": 0, "keys": []}
    with appboot.Clock(case["now"]):
        resp = a.client().get(url)
        stats["status"] = resp.status_code
        if resp.status_code != 200:
            if resp.status_code == 400 and want_model:
                # which refusal: the model must refuse the same request for the same reason
                body = resp.get_data(as_text=True)
                want = ("!invalidOptions" if "Invalid CGI parameters" in body else
                        "!patchNeedsTimeline" if "does not SegmentTimeline" in body else None)
                if want:
                    with a.app.test_request_context(url):
                        stream = a.models.Stream.get(directory=case["stream"])
                        defaults = U.server_defaults(stream.defaults)
                        dspec = U.container_spec(rows, defaults)
                    aspec = ";".join(f"{L.hx(k)}={L.hx(v)}" for k, v in case["params"].items()) or "-"
                    lines.append((f"optserve {case['manifest']} {L.hx(mode)} {dspec} {aspec}", want, "optserve",
                                  {"status": 400}))
            return fails, lines, stats
        with a.app.test_request_context(url):
            models = a.models
            stream = models.Stream.get(directory=case["stream"])
            mft = mfts.manifest_map[case["manifest"]]
            mopts = ServeManifest().calculate_options(
                mode=mode, args=flask.request.args, stream=stream,
                restrictions=mft.restrictions, features=mft.features)
            defaults = U.server_defaults(stream.defaults)
            dspec = U.container_spec(rows, defaults)
            aspec = ";".join(f"{L.hx(k)}={L.hx(v)}" for k, v in case["params"].items()) or "-"
            if want_model:
                # the handler's option pipeline (restrictions, features, value check, filters) vs the model
                final = U.serve_manifest_options(mft, mode, flask.request.args, stream)
                lines.append((f"optserve {case['manifest']} {L.hx(mode)} {dspec} {aspec}",
                              final if isinstance(final, str) else U.container_spec(rows, final), "optserve", {}))
            reps = {mf.name: mf.representation for mf in models.MediaFile.search(stream=stream)}
        manifest_abs = urllib.parse.urljoin("http://localhost/", url)
        try:
            root, urls = media_urls(resp.data, manifest_abs)
        except Exception:
            stats["status"] = "unparsable-xml"
            return fails, lines, stats
        if root.get("_recovered"):
            stats["recovered"] = True
        ast = depth = None
        if root.get("availabilityStartTime"):
            ast = parse_xs_datetime(root.get("availabilityStartTime"))
        if root.get("timeShiftBufferDepth"):
            try:
                depth = int(parse_xs_duration(root.get("timeShiftBufferDepth")))
            except ValueError:
                depth = None      # a start time in the future (negative duration): C08's subject
        _, drm_sel = get_field(mopts, next(r for r in rows if r["cgi"] == "drm"))
        selected = {n for n, _ in (drm_sel or [])}
        _, events = get_field(mopts, next(r for r in rows if r["cgi"] == "events"))
        events = set(events or [])
        now_dt = parse_xs_datetime(case["now"])
        seen = set()
        for ctype, rid, what, murl in urls:
            bit = L.MEDIA_BITS.get(ctype)
            if bit is None:
                continue
            sp = urllib.parse.urlsplit(murl)
            key = (ctype, what, sp.query)
            if key in seen:
                continue
            seen.add(key)
            stats["urls"] += 1
            stats.setdefault("url_list", []).append(f"{ctype}:{what}:{sp.path.rsplit('/', 1)[-1]}?{sp.query}")
            path_q = sp.path + ("?" + sp.query if sp.query else "")
            with a.app.test_request_context(path_q):
                endpoint = flask.request.url_rule.endpoint if flask.request.url_rule else None
                keys = list(flask.request.args.keys())
                try:
                    dopts = LiveMedia().calculate_options(mode, flask.request.args, stream)
                    derr = None
                except ValueError as e:
                    dopts, derr = None, f"ValueError: {e}"
                except Exception as e:
                    dopts, derr = None, f"{type(e).__name__}: {e}"
            stats["keys"] += keys
            where = {"content_type": ctype, "url_kind": what, "url": murl}
            if endpoint not in ("dash-media", "dash-media-by-time", "dash-od-media"):
                fails.append({**where, "what": f"URL does not address a media endpoint ({endpoint})"})
                continue
            if derr is not None:
                fails.append({**where, "what": f"the media endpoint cannot parse the URL's options: {derr}"})
                continue
            rep = reps.get(rid)
            for i, row in enumerate(rows):
                if not applies(row, bit):
                    if row["cgi"] in keys:
                        fails.append({**where, "option": row["cgi"],
                                      "what": "option does not apply to this media type but is in its URL"})
                    continue
                if row["cgi"] == "mode" or not influences(row, mode, selected, events):
                    continue
                if mode == "odvod" and row["cgi"] not in keys:
                    # the on-demand profile serves byte ranges of the stored file (OnDemandMedia never
                    # reads options): no option influences media generation.  What *is* written into an
                    # on-demand BaseURL must still parse back to the manifest's value.
                    continue
                _, mv = get_field(mopts, row)
                present, dv = get_field(dopts, row)
                stats["compared"] += 1
                ok = True
                cgi = row["cgi"]
                if cgi == "start" and ast is not None:
                    ok = isinstance(dv, datetime.datetime) and dv.tzinfo is not None and dv == ast
                    mv = ast
                elif cgi == "depth" and depth is not None:
                    ok = dv == depth
                    mv = depth
                elif cgi in ("start", "depth") and mode == "live":
                    continue      # the manifest does not advertise a usable value (start in the future: C08)
                elif cgi in INJECT and mv:
                    if rep is None or (mode == "live" and (ast is None or depth is None)):
                        continue
                    if cgi == "vcorrupt":
                        errs = []
                        for tc in mv:
                            errs.append((None, int(tc) if re.fullmatch(r"\d+", tc) else
                                         datetime.datetime.strptime(tc, "%H:%M:%SZ").time() if len(tc) == 9
                                         else parse_xs_datetime(tc)))
                        want = expected_injection(errs, now_dt, ast, depth or 0, rep.timescale,
                                                  rep.segment_duration, with_code=False)
                    else:
                        want = expected_injection(mv, now_dt, ast, depth or 0, rep.timescale, rep.segment_duration)
                    if want is None:
                        continue
                    ok = dv == want
                    mv = want
                else:
                    ok = U.same_value(row["kbase"], mv, dv)
                if not ok:
                    fails.append({**where, "option": cgi,
                                  "what": "the media endpoint obtains another value than the manifest request resolved",
                                  "manifest_side": L.enc_val(row["kbase"], mv) if cgi not in INJECT else repr(mv),
                                  "media_side": L.enc_val(row["kbase"], dv) if cgi not in INJECT else repr(dv)})
            # what the URL *says*, read with the documented syntax of each option type by a reader that shares
            # nothing with the server process (no registry, no module constants): the media endpoint must use
            # exactly that value – whatever earlier requests did to the process
            url_args = dict(urllib.parse.parse_qsl(sp.query, keep_blank_values=True))
            for i, row in enumerate(rows):
                if row["cgi"] not in url_args:
                    continue
                said = reference_reading(row["kbase"], url_args[row["cgi"]])
                if said is None:
                    continue
                _, dv = get_field(dopts, row)
                got = U.canon_for_compare(row["kbase"], dv)
                if got != said:
                    fails.append({**where, "option": row["cgi"],
                                  "what": "the media endpoint uses another value than the URL text means "
                                          "(documented syntax of the option)",
                                  "url_text": url_args[row["cgi"]], "means": repr(said)[:200],
                                  "media_side": L.enc_val(row["kbase"], dv)})
            stats.setdefault("url_specs", {})[murl] = U.container_spec(rows, dopts)
            if want_model:
                mode_idx = {i for i, r in enumerate(rows) if r["cgi"] == "mode"}
                impl = set_absent(U.container_spec(rows, dopts), mode_idx)
                lines.append((f"optmedia {dspec} {L.hx(murl)}", impl, "optmedia", where))
                # manifest_vod_aiv.mpd writes rep.baseURL (file name only), not adp.mediaURL
                if (what == "init" or mode == "odvod") and case["manifest"] != "manifest_vod_aiv.mpd":
                    args = dict(urllib.parse.parse_qsl(sp.query, keep_blank_values=True))
                    ov_keys = [k for k in ("start", "depth", "verr", "aerr", "terr", "vcorrupt") if k in args]
                    ovs = ";".join(f"{k}=T{L.hx(args[k])}" for k in ov_keys) or "-"
                    # predicted from the *request*: request args → calculate_options(restrictions, features,
                    # stream defaults) → handler filters → generate_cgi_parameters → dict_to_cgi_params
                    lines.append((f"optreqquery {case['manifest']} {L.hx(mode)} {bit} {dspec} {aspec} {ovs}",
                                  L.hx("?" + sp.query if sp.query else ""), "optreqquery", where))
    return fails, lines, stats


def module_constants():
    """UPPER_CASE module- and class-level containers of the option layer, by value"""
    import importlib
    out = []
    for name in ("dashlive.server.options.drm_options", "dashlive.server.options.manifest_options",
                 "dashlive.server.options.utc_time_options", "dashlive.server.options.http_error",
                 "dashlive.server.events.base", "dashlive.server.events.factory", "dashlive.drm.location",
                 "dashlive.drm.system", "dashlive.drm.base", "dashlive.drm.playready", "dashlive.drm.clearkey",
                 "dashlive.drm.marlin", "dashlive.drm.keymaterial", "dashlive.server.requesthandler.base",
                 "dashlive.server.requesthandler.drm_context", "dashlive.server.options.container",
                 "dashlive.server.options.repository", "dashlive.server.manifests"):
        try:
            mod = importlib.import_module(name)
        except Exception:
            continue
        holders = [mod] + [v for v in vars(mod).values() if isinstance(v, type) and v.__module__ == name]
        for h in holders:
            for k, v in vars(h).items():
                if k.isupper() and isinstance(v, (set, frozenset, list, tuple, dict, int, str)):
                    out.append((name, getattr(h, "__name__", ""), k, repr(sorted(v, key=repr)) if isinstance(v, (set, frozenset))
                                else repr(v)))
    return tuple(sorted(out))


def state_snapshot(rows):
    """module- and class-level option state that every request shares"""
    from dashlive.server import manifests as mfts
    from dashlive.server.options.container import OptionsContainer
    from dashlive.server.options.repository import OptionsRepository
    return {
        "global_defaults": U.container_spec(rows, OptionsRepository.get_default_options()),
        "registry": tuple((o.cgi_name, int(o.usage), id(o.from_string), id(o.to_string))
                          for o in OptionsRepository.get_dash_options()),
        "manifest_map": repr(sorted((k, sorted(m.features), repr(m.restrictions)) for k, m in mfts.manifest_map.items())),
        "object_fields": tuple(sorted(OptionsContainer.OBJECT_FIELDS)),
        "module_constants": module_constants(),
    }


_ALL_LOCS = frozenset(("cenc", "moov", "pro"))
_DRM_NAMES = ("clearkey", "marlin", "playready")


def reference_reading(kbase: str, text: str):
    """the value a URL text denotes by the documented option syntax (docs of the cgi options: `drm=<name>[-<loc>…],…`
    where a DRM named without locations means all three locations and `all` means every system; `0`/`1` flags;
    decimal integers; comma lists), as a canonical comparable; None = this reader has no opinion"""
    try:
        if kbase == "drmSelection":
            t = text.lower()
            if t == "" or t.startswith("none"):
                return ("drm", frozenset())
            if t.startswith("all"):
                locs = frozenset(t.split("-")[1:]) or _ALL_LOCS
                return ("drm", frozenset((n, locs) for n in _DRM_NAMES))
            out = set()
            for item in t.split(","):
                parts = item.split("-")
                out.add((parts[0], frozenset(parts[1:]) or _ALL_LOCS))
            return ("drm", frozenset(out))
        if kbase == "bool":
            return text.lower() in ("1", "true", "on")
        if kbase in ("intOrNone",):
            return None if text in ("", "none") else int(text, 10)
        if kbase in ("intOrDefault", "posIntOrDefault"):
            return None if text in ("", "none") else int(text, 10)
        if kbase == "listJoin":
            if text.lower() in ("", "none"):
                return []
            return [i for i in text.split(",") if i.lower() not in ("", "none")]
        if kbase == "strRaw":
            return text
        if kbase == "strOrNone":
            return None if text.lower() in ("", "none") else text
        if kbase == "quotedUrl":
            return None if text.lower() in ("", "none") else urllib.parse.unquote_plus(text)
    except ValueError:
        return None
    return None


def run_history(history, probe, rows):
    """a request history: `probe` (a manifest request) is asked, then the requests of `history` are served, then
    (1) every media URL the first answer handed out is parsed again by the media endpoint – it must mean what it
    meant when it was handed out – and (2) `probe` is asked again and must advertise the same URLs."""
    import flask
    from dashlive.server.requesthandler.media_requests import LiveMedia
    a = app()
    consts = module_constants()
    fails0, _, st0 = run_case(probe, rows, want_model=False)
    fails = list(fails0)

    def constants_changed(after_what):
        nonlocal consts
        now = module_constants()
        if now != consts:
            before = dict(((m, c, k), v) for m, c, k, v in consts)
            changed = [f"{m}.{c + '.' if c and c != m else ''}{k}: {before.get((m, c, k))} -> {v}"
                       for m, c, k, v in now if before.get((m, c, k)) != v][:4]
            fails.append({"what": "a request changed a module/class level constant of the option or DRM layer "
                                  "(shared by every later request)", "request": after_what, "changed": changed})
            consts = now

    constants_changed("probe: " + case_url(probe))
    for n, h in enumerate(history):
        try:
            _, _, sth = run_case(h, rows, want_model=False)
            if h.get("fetch_init"):
                # the media handler (DRM classes building an init segment) is part of the history as well
                inits = [u for u in (sth.get("url_specs") or {}) if "/init." in u]
                if inits:
                    sp = urllib.parse.urlsplit(inits[0])
                    import appboot
                    with appboot.Clock(h["now"]):
                        a.client().get(sp.path + ("?" + sp.query if sp.query else ""))
        except Exception:
            pass
        constants_changed(f"history[{n}]: " + case_url(h))
    set_defaults(probe.get("defaults", "A"))
    with a.app.test_request_context("/"):
        stream = a.models.Stream.get(directory=probe["stream"])
        for murl, spec0 in (st0.get("url_specs") or {}).items():
            sp = urllib.parse.urlsplit(murl)
            with a.app.test_request_context(sp.path + ("?" + sp.query if sp.query else "")):
                try:
                    spec1 = U.container_spec(rows, LiveMedia().calculate_options(probe["mode"], flask.request.args, stream))
                except Exception as e:
                    spec1 = f"{type(e).__name__}: {e}"
            if spec1 != spec0:
                d0 = dict(x.split("@") for x in spec0.split(";") if "@" in x)
                d1 = dict(x.split("@") for x in spec1.split(";") if "@" in x)
                changed = [(rows[int(k)]["cgi"], d0.get(k), d1.get(k)) for k in d0 if d0.get(k) != d1.get(k)][:4]
                fails.append({"url": murl, "what": "a media URL handed out by the manifest means something else to the "
                              "media endpoint after other requests have been served",
                              "changed (option, when handed out, now)": changed or spec1[:200]})
                break
    fails1, _, st1 = run_case(probe, rows, want_model=False)
    if (st0["status"], sorted(st0.get("url_list", []))) != (st1["status"], sorted(st1.get("url_list", []))):
        fails.append({"what": "the same manifest request advertises other media URLs after other requests",
                      "first": sorted(st0.get("url_list", []))[:4], "now": sorted(st1.get("url_list", []))[:4]})
    fails += [f for f in fails1 if f not in fails]
    return fails


def shrink(case, rows):
    params = dict(case["params"])
    changed = True
    while changed and len(params) > 1:
        changed = False
        for k in list(params):
            cand = {**case, "params": {x: y for x, y in params.items() if x != k}}
            try:
                f, _, _ = run_case(cand, rows, want_model=False)
            except Exception:
                f = []
            if f:
                params = cand["params"]
                changed = True
                break
    return {**case, "params": params}


def run_e2e(ctx, ch: Channel, cases=None):
    rows, _, _ = L.registry()
    rng = ctx.rng("opt_e2e")
    n = ctx.scale(400, 8000)
    fixed = 0
    if cases is None:
        # the deterministic grid (harness/c07_grid.py), then every hostile argument set on the stream with its
        # own defaults (events enabled), once on a template that lacks the eventTypes/utcMethod features and
        # once on the full one; then the seeded random cases
        cases = c07_grid.grid(ctx.thorough)
        for args in U.HOSTILE_ARGS:
            if "drm" in args:
                continue
            cases.append({"mode": "vod", "stream": "tears", "manifest": "manifest_h.mpd", "params": dict(args),
                          "now": NOW})
            cases.append({"mode": "live", "stream": "tears", "manifest": "hand_made.mpd", "params": dict(args),
                          "now": NOW})
        fixed = len(cases)
        # history: the random cases run between two passes over a sample of the grid; the second pass must
        # give the answers of the first (nothing a request does may change what a later one gets)
        reissue = cases[:fixed:max(1, fixed // 60)]
        cases += [gen_case(rng, rows) for _ in range(n)]
        cases += [dict(c, _reissue=True) for c in reissue]
    all_lines = []
    first_answer = {}
    snap0 = state_snapshot(rows)
    if fixed:
        # fixed request histories (vod -> odvod -> vod again, live -> odvod -> live, ...): what a manifest handed
        # out must keep its meaning, and the same request its answer, whatever is served in between
        for probe in c07_grid.PROBES:
            ch.evaluations += 1
            ch.count("history")
            try:
                hf = run_history(c07_grid.DISTURB, probe, rows)
            except Exception as e:
                import traceback
                traceback.print_exc()
                ch.errors.append(f"history crashed: {type(e).__name__}: {e} on {case_url(probe)}")
                continue
            if hf:
                ch.oracle_failures.append({"case": probe, "url": case_url(probe), "history": c07_grid.DISTURB,
                                           "first_failure": hf[0], "failures": len(hf)})
    for idx, case in enumerate(cases):
        ch.evaluations += 1
        try:
            fails, lines, stats = run_case(case, rows)
        except Exception as e:
            import traceback
            traceback.print_exc()
            ch.errors.append(f"case crashed: {type(e).__name__}: {e} on {case_url(case)}")
            continue
        key = (case_url(case), case.get("defaults", "A"), case["now"])
        answer = (stats["status"], tuple(sorted(stats.get("url_list", []))))
        if case.get("_reissue"):
            ch.count("reissued")
            if key in first_answer and first_answer[key] != answer:
                ch.oracle_failures.append({
                    "case": {k: v for k, v in case.items() if k != "_reissue"}, "url": case_url(case),
                    "first_failure": {"what": "the same manifest request, re-issued after other requests, advertises "
                                              "other media URLs than the first time",
                                      "first": list(first_answer[key][1])[:6], "now": list(answer[1])[:6]},
                    "history": "re-issue after the whole channel"})
        else:
            first_answer.setdefault(key, answer)
        if idx % 100 == 99 or idx == len(cases) - 1:
            snap = state_snapshot(rows)
            if snap != snap0:
                ch.oracle_failures.append({
                    "case": {k: v for k, v in case.items() if k != "_reissue"}, "url": case_url(case),
                    "first_failure": {"what": "shared option state changed while serving requests",
                                      "changed": [k for k in snap if snap[k] != snap0.get(k)]},
                    "history": f"the {idx + 1} requests of this channel"})
                snap0 = snap
        ch.count("grid" if idx < fixed else "random")
        ch.count(f"defaults:{case.get('defaults', 'A')}" if case["stream"] == "tears" else "defaults:none(bbb)")
        ch.count(f"clock:{case['now']}")
        ch.count(f"manifest:{case['manifest']}:{case['mode']}")
        ch.count(f"status:{stats['status']}")
        if stats.get("recovered"):
            ch.count("xml_not_wellformed_recovered(C05)")
        ch.count(f"stream:{case['stream']}")
        ch.count(f"nparams:{len(case['params'])}")
        ch.count("opt:mode")          # the operating mode travels in the path of every request
        for k in case["params"]:
            ch.count(f"opt:{k}")
        for k in set(stats["keys"]):
            ch.count(f"forwarded:{k}")
        if stats["status"] == 200 and case["params"] and stats["urls"]:
            ch.nontrivial.add(case_url(case))
        if fails:
            mini = shrink(case, rows)
            mf, _, _ = run_case(mini, rows, want_model=False)
            ch.oracle_failures.append({"case": mini, "url": case_url(mini), "first_failure": (mf or fails)[0],
                                       "failures": len(mf or fails)})
        for ln in lines:
            all_lines.append((case, ln))
        ch.sample({"url": case_url(case), "status": stats["status"], "media_urls": stats["urls"],
                   "fields_compared": stats["compared"]}, limit=4)
    try:
        model = common.run_driver([ln[0] for _, ln in all_lines])
    except Exception as e:
        ch.errors.append(f"driver: {e}")
        model = ["driver-error"] * len(all_lines)
    for (case, (line, impl, what, where)), mo in zip(all_lines, model):
        ch.evaluations += 1
        ch.count(f"model:{what}")
        if what == "optmedia" and "@" in mo:
            mode_idx = {i for i, r in enumerate(rows) if r["cgi"] == "mode"}
            mo = set_absent(mo, mode_idx)
        if mo != "driver-error" and mo != impl:
            if what == "optreqquery" and mo not in ("bad-op",) and not mo.startswith("!"):
                try:
                    mo_s, impl_s = L.unhx(mo), L.unhx(impl)
                except Exception:
                    mo_s, impl_s = mo, impl
            else:
                mo_s, impl_s = mo, impl
            ch.disagreements.append({"op": what, "case": case, "url": case_url(case), **where,
                                     "model": mo_s[:1500], "impl": impl_s[:1500]})
